(* C27: proofs about Pubsub/Model.v *)
From Bifrost Require Import Lib.Base Lib.Lex gen.Pubsub Pubsub.Model.

Lemma body_eqb_spec a b : body_eqb a b = true <-> a = b.
Proof.
  destruct a as [d c t v|n], b as [d' c' t' v'|n']; cbn [body_eqb]; try (split; discriminate).
  - rewrite !andb_true_iff, !bytes_eqb_spec, Bool.eqb_true_iff, Nat.eqb_eq.
    split; [intros [[[? ?] ?] ?]|intros E; inversion E]; subst; auto.
  - rewrite Nat.eqb_eq. split; congruence.
Qed.

Lemma sigt_eqb_spec a b : sigt_eqb a b = true <-> a = b.
Proof.
  destruct a as [k c x|n], b as [k' c' x'|n']; cbn [sigt_eqb]; try (split; discriminate).
  - rewrite !andb_true_iff, bytes_eqb_spec, body_eqb_spec, Nat.eqb_eq.
    split; [intros [[? ?] ?]|intros E; inversion E]; subst; auto.
  - rewrite Nat.eqb_eq. split; congruence.
Qed.

Lemma sender_eqb_spec a b : sender_eqb a b = true <-> a = b.
Proof.
  destruct a, b; cbn [sender_eqb]; try (split; discriminate); rewrite Nat.eqb_eq; split; congruence.
Qed.

Lemma msgid_eqb_spec a b : msgid_eqb a b = true <-> a = b.
Proof.
  destruct a, b; unfold msgid_eqb; cbn [fst snd].
  rewrite andb_true_iff, sigt_eqb_spec, sender_eqb_spec. split; [intros [? ?]|intros E; inversion E]; subst; auto.
Qed.

Lemma seen_mem_spec i l : seen_mem i l = true <-> In i l.
Proof.
  unfold seen_mem. rewrite existsb_exists. split.
  - intros [x [Hx E]]. apply msgid_eqb_spec in E. subst. exact Hx.
  - intros H. exists i. split; [exact H|apply msgid_eqb_spec; reflexivity].
Qed.

(* the signing context binds the channel: prefix ++ ch is injective in ch *)
Lemma pub_ctx_inj a b : pub_ctx a = pub_ctx b -> a = b.
Proof. unfold pub_ctx. apply app_inv_head. Qed.

Lemma is_nil_spec {A} (l : list A) : is_nil l = true <-> l = [].
Proof. destruct l; cbn; split; congruence. Qed.

(* ExtractAndVerify accepts exactly the authentic messages *)
Lemma extract_ok m v :
  extract_and_verify m = Ok v <->
  authentic m (v_key v) (v_data v) (v_chan v) /\ (exists vr, s_body m = Enc (v_data v) (v_chan v) true vr) /\ att_ok (s_att m) = true.
Proof.
  unfold extract_and_verify, authentic. destruct m as [f b s a]; cbn [s_from s_body s_sig s_att].
  destruct b as [d c t vr|n].
  2:{ split; [discriminate|]. intros [[_ [_ [[ts [x E]] _]]] _]. discriminate. }
  destruct (is_nil c) eqn:Ec.
  { apply is_nil_spec in Ec. subst c. split; [discriminate|].
    intros [[Hne [_ [[ts [x E]] _]]] _]. inversion E; subst. congruence. }
  assert (Hc : c <> []) by (intros ->; discriminate).
  destruct t; cbn [negb].
  2:{ split; [discriminate|]. intros [_ [[x E] _]]. inversion E. }
  destruct f as [k|n].
  2:{ split; [discriminate|]. intros [[_ [E _]] _]. discriminate. }
  destruct s as [k' ctx b'|n].
  2:{ split; [discriminate|]. intros [[_ [_ [_ E]]] _]. discriminate. }
  destruct (att_ok a) eqn:Ea; cbn [andb].
  2:{ split; [discriminate|]. intros [_ [_ E]]. discriminate. }
  destruct (Nat.eqb k k' && bytes_eqb ctx (pub_ctx c) && body_eqb b' (Enc d c true vr)) eqn:E.
  - apply andb_true_iff in E as [E E3]. apply andb_true_iff in E as [E1 E2].
    apply Nat.eqb_eq in E1. apply bytes_eqb_spec in E2. apply body_eqb_spec in E3. subst.
    split.
    + intros H. inversion H; subst; cbn. repeat split; eauto.
    + intros [[_ [Ek [[ts [x Eb]] Es]]] _]. inversion Ek; inversion Eb; subst. destruct v; cbn in *. reflexivity.
  - split; [discriminate|]. intros [[_ [Ek [[ts [x Eb]] Es]]] _].
    inversion Ek; inversion Eb; inversion Es; subst.
    rewrite Nat.eqb_refl in E. unfold pub_ctx in E. rewrite bytes_eqb_refl in E.
    assert (body_eqb (Enc (v_data v) (v_chan v) true x) (Enc (v_data v) (v_chan v) true x) = true) by (apply body_eqb_spec; reflexivity).
    rewrite H in E. discriminate.
Qed.

Lemma extract_authentic m v : extract_and_verify m = Ok v -> authentic m (v_key v) (v_data v) (v_chan v).
Proof. intros H. apply extract_ok in H. tauto. Qed.

(* what one observation of one step guarantees *)
Definition obs_ok (st : node) (a : act) (o : obs) : Prop :=
  match o with
  | Deliver ch k d n =>
      exists prev m, a = RecvPublish prev m /\ authentic m k d ch /\
        has_chan ch (n_chans st) = true /\ n = chan_handlers ch (n_chans st) /\
        seen_mem (msg_id m) (n_seen st) = false
  | Forward p m =>
      exists prev k d ch, a = RecvPublish prev m /\ authentic m k d ch /\
        has_chan ch (n_chans st) = true /\ p <> prev /\ p <> k /\ In (p, ch) (n_pc st) /\
        seen_mem (msg_id m) (n_seen st) = false
  end.

Lemma fwd_targets_in pc ch k prev p :
  In p (fwd_targets pc ch k prev) -> In (p, ch) pc /\ p <> k /\ p <> prev.
Proof.
  unfold fwd_targets. rewrite in_map_iff. intros [[q c] [E H]]. cbn in E. subst q.
  apply filter_In in H as [H1 H2]. cbn [fst snd] in H2.
  apply andb_true_iff in H2 as [H2 H4]. apply andb_true_iff in H2 as [H2 H3].
  apply bytes_eqb_spec in H2. subst c.
  apply negb_true_iff, Nat.eqb_neq in H3. apply negb_true_iff, Nat.eqb_neq in H4. auto.
Qed.

Lemma step_sound st a o : In o (snd (step st a)) -> obs_ok st a o.
Proof.
  destruct a as [prev m|p ch sub|ch h|ch]; cbn [step].
  - destruct (extract_and_verify m) as [v| |] eqn:Ev; try (cbn; tauto).
    destruct (has_chan (v_chan v) (n_chans st)) eqn:Hc; [|cbn; tauto].
    destruct (seen_mem (msg_id m) (n_seen st)) eqn:Hs; [cbn; tauto|].
    cbn [snd]. intros [<-|H].
    + cbn. exists prev, m. split; [reflexivity|]. split; [apply extract_authentic; exact Ev|]. auto.
    + apply in_map_iff in H as [p [<- Hp]]. apply fwd_targets_in in Hp as [H1 [H2 H3]].
      cbn. exists prev, (v_key v), (v_data v), (v_chan v). split; [reflexivity|].
      split; [apply extract_authentic; exact Ev|]. repeat split; auto.
  - destruct (is_nil ch); [cbn; tauto|]. destruct sub; [destruct (has_pc p ch (n_pc st))|]; cbn; tauto.
  - cbn; tauto.
  - cbn; tauto.
Qed.

Lemma run_app st l1 l2 :
  run st (l1 ++ l2) = let '(s1, o1) := run st l1 in let '(s2, o2) := run s1 l2 in (s2, o1 ++ o2).
Proof.
  revert st; induction l1 as [|a l1 IH]; intros st; cbn [run app].
  - destruct (run st l2). reflexivity.
  - destruct (step st a) as [s1 o1]. rewrite IH.
    destruct (run s1 l1) as [s2 o2]. destruct (run s2 l2) as [s3 o3]. rewrite app_assoc. reflexivity.
Qed.

(* every observation of a run is the observation of one step in the state reached by the prefix *)
Lemma run_obs_split st l o :
  In o (snd (run st l)) ->
  exists pre a post, l = pre ++ a :: post /\ In o (snd (step (fst (run st pre)) a)).
Proof.
  revert st; induction l as [|a l IH]; intros st; cbn [run].
  - cbn. tauto.
  - destruct (step st a) as [s1 o1] eqn:E1. destruct (run s1 l) as [s2 o2] eqn:E2. cbn [snd].
    intros H. apply in_app_or in H as [H|H].
    + exists [], a, l. split; [reflexivity|]. cbn. rewrite E1. exact H.
    + specialize (IH s1). rewrite E2 in IH. destruct (IH H) as [pre [b [post [-> Hb]]]].
      exists (a :: pre), b, post. split; [reflexivity|]. cbn [run]. rewrite E1.
      destruct (run s1 pre) as [s3 o3] eqn:E3. cbn [fst] in *. exact Hb.
Qed.

(* main statement: whatever the initial state and whatever is received, every
   handler invocation and every forwarded packet stems from a received packet
   that is authentic for a channel the node had a subscription key for at that
   moment. *)
Theorem c27_all st l o :
  In o (snd (run st l)) ->
  exists pre a post, l = pre ++ a :: post /\ obs_ok (fst (run st pre)) a o.
Proof.
  intros H. apply run_obs_split in H as [pre [a [post [E H]]]].
  exists pre, a, post. split; [exact E|apply step_sound, H].
Qed.

Theorem c27_deliver st l ch k d n :
  In (Deliver ch k d n) (snd (run st l)) ->
  exists prev m, In (RecvPublish prev m) l /\ authentic m k d ch.
Proof.
  intros H. apply c27_all in H as [pre [a [post [E [prev [m [Ea [Ha _]]]]]]]].
  exists prev, m. split; [|exact Ha]. subst. apply in_or_app. right. left. reflexivity.
Qed.

Theorem c27_forward st l p m :
  In (Forward p m) (snd (run st l)) ->
  exists prev k d ch, In (RecvPublish prev m) l /\ authentic m k d ch /\ p <> prev /\ p <> k.
Proof.
  intros H. apply c27_all in H as [pre [a [post [E [prev [k [d [ch [Ea [Ha [_ [H1 [H2 _]]]]]]]]]]]]].
  exists prev, k, d, ch. split; [subst; apply in_or_app; right; left; reflexivity|].
  split; [exact Ha|]. split; assumption.
Qed.

(* anything that is not authentic for a channel the node has a key for leaves
   no trace: nothing delivered, nothing forwarded, state unchanged *)
Theorem c27_drop st prev m :
  (forall k d ch, authentic m k d ch -> has_chan ch (n_chans st) = false) ->
  step st (RecvPublish prev m) = (st, []).
Proof.
  intros H. cbn [step]. destruct (extract_and_verify m) as [v| |] eqn:Ev; try reflexivity.
  apply extract_authentic in Ev. rewrite (H _ _ _ Ev). reflexivity.
Qed.

Lemma not_authentic_drop st prev m :
  (forall k d ch, ~ authentic m k d ch) -> step st (RecvPublish prev m) = (st, []).
Proof. intros H. apply c27_drop. intros k d ch Ha. destruct (H _ _ _ Ha). Qed.

(* the forgery classes of the property text *)

(* body changed after signing (data, channel, timestamp or encoding) *)
Theorem c27_tampered st prev f b b' k ctx a :
  b' <> b -> step st (RecvPublish prev (SMsg f b' (Sig k ctx b) a)) = (st, []).
Proof.
  intros Hn. apply not_authentic_drop. intros k0 d ch [_ [_ [_ Hs]]]. cbn in Hs. inversion Hs. congruence.
Qed.

(* honest message for ch re-targeted to ch' by rewriting the inner channel *)
Theorem c27_retargeted st prev k d ch ch' ts v ts' v' a :
  ch' <> ch ->
  step st (RecvPublish prev (SMsg (Peer k) (Enc d ch' ts' v') (Sig k (pub_ctx ch) (Enc d ch ts v)) a)) = (st, []).
Proof. intros Hn. apply c27_tampered. congruence. Qed.

(* signed by a key other than the claimed sender *)
Theorem c27_foreign st prev k k' ctx b b' a :
  k <> k' -> step st (RecvPublish prev (SMsg (Peer k) b (Sig k' ctx b') a)) = (st, []).
Proof.
  intros Hn. apply not_authentic_drop. intros k0 d ch [_ [Hf [_ Hs]]]. cbn in Hf, Hs.
  inversion Hf; inversion Hs; congruence.
Qed.

(* signed under a context other than prefix ++ (channel of the body) *)
Theorem c27_wrong_context st prev f d ch ts v k ctx b a :
  ctx <> pub_ctx ch -> step st (RecvPublish prev (SMsg f (Enc d ch ts v) (Sig k ctx b) a)) = (st, []).
Proof.
  intros Hn. apply not_authentic_drop. intros k0 d0 ch0 [_ [_ [[ts0 [v0 Hb]] Hs]]]. cbn in Hb, Hs.
  inversion Hb; subst. inversion Hs; subst. apply Hn. reflexivity.
Qed.

(* in particular a signature made for another channel never verifies for this one *)
Theorem c27_other_channel_context st prev f d ch ch' ts v k b a :
  ch' <> ch -> step st (RecvPublish prev (SMsg f (Enc d ch ts v) (Sig k (pub_ctx ch') b) a)) = (st, []).
Proof. intros Hn. apply c27_wrong_context. intros E. apply pub_ctx_inj in E. congruence. Qed.

(* empty channel *)
Theorem c27_empty_channel st prev f d ts v s a :
  step st (RecvPublish prev (SMsg f (Enc d [] ts v) s a)) = (st, []).
Proof.
  apply not_authentic_drop. intros k0 d0 ch0 [Hne [_ [[ts0 [v0 Hb]] _]]]. cbn in Hb. inversion Hb; subst. congruence.
Qed.

(* no signature / unparsable sender / unparsable body *)
Theorem c27_malformed st prev m :
  (exists n, s_sig m = NoSig n) \/ (exists n, s_from m = NoPeer n) \/ (exists n, s_body m = Junk n) ->
  step st (RecvPublish prev m) = (st, []).
Proof.
  intros H. apply not_authentic_drop. intros k d ch [_ [Hf [[ts [v Hb]] Hs]]].
  destruct H as [[n H]|[[n H]|[n H]]]; congruence.
Qed.

(* authentic but for a channel without a local subscription key *)
Theorem c27_unsubscribed st prev m k d ch :
  authentic m k d ch -> has_chan ch (n_chans st) = false ->
  step st (RecvPublish prev m) = (st, []).
Proof.
  intros Ha Hc. apply c27_drop. intros k' d' ch' Ha'.
  destruct Ha as [_ [_ [[ts [v Hb]] _]]], Ha' as [_ [_ [[ts' [v' Hb']] _]]].
  rewrite Hb in Hb'. inversion Hb'; subst. exact Hc.
Qed.

(* conversely an authentic, fresh message for a subscribed channel IS delivered (non-vacuity of the model) *)
Theorem c27_accepts st prev k d ch v a :
  att_ok a = true ->
  ch <> [] -> has_chan ch (n_chans st) = true ->
  let m := SMsg (Peer k) (Enc d ch true v) (Sig k (pub_ctx ch) (Enc d ch true v)) a in
  seen_mem (msg_id m) (n_seen st) = false ->
  exists st' os, step st (RecvPublish prev m) = (st', Deliver ch k d (chan_handlers ch (n_chans st)) :: os).
Proof.
  intros Ha Hne Hc m Hs.
  assert (E : extract_and_verify m = Ok (VMsg k d ch)).
  { apply (extract_ok m (VMsg k d ch)). cbn. split; [|split; [eauto|exact Ha]]. unfold authentic. cbn. repeat split; eauto. }
  cbn [step]. rewrite E. cbn [v_chan v_key v_data]. rewrite Hc, Hs. eauto.
Qed.

(* a message id is delivered at most once: the second copy is dropped *)
Theorem c27_replay_dropped st prev prev' m st1 os :
  step st (RecvPublish prev m) = (st1, os) -> os <> [] ->
  step st1 (RecvPublish prev' m) = (st1, []).
Proof.
  cbn [step]. destruct (extract_and_verify m) as [v| |] eqn:Ev; try (intros H; inversion H; congruence).
  destruct (has_chan (v_chan v) (n_chans st)) eqn:Hc; [|intros H; inversion H; congruence].
  destruct (seen_mem (msg_id m) (n_seen st)) eqn:Hs; [intros H; inversion H; congruence|].
  intros H _. inversion H; subst. cbn [n_chans n_seen]. rewrite Hc.
  assert (seen_mem (msg_id m) (msg_id m :: n_seen st) = true) by (apply seen_mem_spec; left; reflexivity).
  rewrite H0. reflexivity.
Qed.
