(* C27 with subscribe-release churn: a channel whose subscriptions are all
   released - whether or not it was ever announced - has its m.channels key
   deleted by the next loop body, and from then on publishes for it are dropped. *)
From Bifrost Require Import Lib.Base gen.Pubsub Pubsub.Model Pubsub.Proofs27 Pubsub.Sub.

(* Execute loop (Pubsub/Sub.v): after a loop body every key of m.channels has a
   subscription, whatever pubbedChannels says about it *)
Lemma pass_leaves_no_empty_key s ch n :
  l_phase s = PArmed -> In (ch, n) (l_ch (lstep s LPass)) -> n <> 0%nat.
Proof.
  intros Hp. cbn [lstep]. rewrite Hp. unfold pass_sweep, pass_init.
  cbn [l_ch l_pubbed l_inc l_started l_all l_wire l_wake l_phase].
  destruct (sweep (l_ch s) (l_pubbed s)) as [cs pb]. cbn [l_ch].
  intros Hin. apply filter_In in Hin as [_ Hf]. cbn [snd] in Hf.
  apply negb_true_iff, Nat.eqb_neq in Hf. exact Hf.
Qed.

(* ... in particular a channel subscribed and released before the loop body ran
   (never announced: not in pubbedChannels) is gone afterwards *)
Example churned_key_is_swept :
  let s := lrun linit [LAddPeer 1; LSubscribe 7; LRelease 7; LPass] in
  l_ch s = [] /\ l_pubbed s = [] /\ l_wire s = [] /\
  l_ch (lrun linit [LSubscribe 3; LSubscribe 7; LRelease 7; LPass]) = [(3, 1)]%nat.
Proof. vm_compute. repeat split; reflexivity. Qed.

(* receiving node (Pubsub/Model.v): once the key is gone, an authentic publish for
   the channel is neither delivered nor forwarded and changes nothing, however
   many peers announced the channel *)
Lemma has_chan_removed ch l : has_chan ch (remove_chan ch l) = false.
Proof.
  unfold has_chan, remove_chan. induction l as [|[c n] l IH]; cbn [filter existsb fst]; [reflexivity|].
  destruct (bytes_eqb c ch) eqn:E; cbn [negb]; [exact IH|]. cbn [existsb fst]. rewrite E. exact IH.
Qed.

Theorem churn_then_publish_dropped st ch h prev m k d :
  authentic m k d ch ->
  let st1 := fst (step (fst (step st (LocalSubscribe ch h))) (LocalSweep ch)) in
  step st1 (RecvPublish prev m) = (st1, []).
Proof.
  intros Ha st1. eapply c27_unsubscribed; [exact Ha|].
  unfold st1. cbn [step fst n_chans remove_chan filter fst]. rewrite bytes_eqb_refl. cbn [negb].
  apply has_chan_removed.
Qed.
