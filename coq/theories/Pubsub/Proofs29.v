(* C29: proofs about Pubsub/Sub.v *)
From Bifrost Require Import Lib.Base Lib.Lex gen.Pubsub Pubsub.Sub.

(* ---------- 1. opener rule ---------- *)

Lemma lex_lt_total a b : a <> b -> xorb (lex_lt a b) (lex_lt b a) = true.
Proof. intros H. rewrite <- !lex_gt_lt. rewrite xorb_comm. apply lex_gt_total. exact H. Qed.

(* every comparison operator the translator accepts separates two different strings *)
Lemma cmp_op_total op a b :
  In op [[62]; [60]; [62; 61]; [60; 61]] -> a <> b ->
  xorb (cmp_op op a b) (cmp_op op b a) = true.
Proof.
  intros Hop Hn. pose proof (lex_gt_total a b Hn) as G. pose proof (lex_lt_total a b Hn) as L.
  cbn [In] in Hop. destruct Hop as [<-|[<-|[<-|[<-|[]]]]]; unfold cmp_op; cbn [bytes_eqb list_eqb Z.eqb Pos.eqb andb].
  - exact G.
  - exact L.
  - destruct (lex_lt a b), (lex_lt b a); cbn in *; congruence.
  - destruct (lex_gt a b), (lex_gt b a); cbn in *; congruence.
Qed.

Lemma opener_op_known : In pubsub_opener_skip_op [[62]; [60]; [62; 61]; [60; 61]].
Proof. vm_compute. tauto. Qed.

Lemma opens_str_exactly_one a b : a <> b -> xorb (opens_str a b) (opens_str b a) = true.
Proof.
  intros H. unfold opens_str. rewrite <- (cmp_op_total _ a b opener_op_known H).
  destruct (cmp_op pubsub_opener_skip_op a b), (cmp_op pubsub_opener_skip_op b a); reflexivity.
Qed.

Section Opener.
  (* peer.ID.String(): base58 text of the peer id bytes *)
  Variable b58 : bytes -> bytes.
  Hypothesis b58_inj : forall a b, b58 a = b58 b -> a = b.

  Definition opens (local remote : bytes) : bool := opens_str (b58 local) (b58 remote).

  Theorem opener_exactly_one a b : a <> b -> xorb (opens a b) (opens b a) = true.
  Proof. intros H. apply opens_str_exactly_one. intros E. apply H, b58_inj, E. Qed.
End Opener.

(* ---------- 2. no handler runs after Release ---------- *)

Lemma srun_app st l1 l2 :
  srun st (l1 ++ l2) = let '(s1, o1) := srun st l1 in let '(s2, o2) := srun s1 l2 in (s2, o1 ++ o2).
Proof.
  revert st; induction l1 as [|a l1 IH]; intros st; cbn [srun app].
  - destruct (srun st l2). reflexivity.
  - destruct (sstep st a) as [s1 o1]. rewrite IH.
    destruct (srun s1 l1) as [s2 o2]. destruct (srun s2 l2) as [s3 o3]. rewrite app_assoc. reflexivity.
Qed.

Section Release.
  Variable s : nat.

  (* one step: what is invoked is registered; what is registered afterwards was registered or is being added *)
  Lemma sstep_handlers st a :
    (forall h msg, In (Invoke s h msg) (snd (sstep st a)) -> In (s, h) (ss_h st)) /\
    (forall h, In (s, h) (ss_h (fst (sstep st a))) -> In (s, h) (ss_h st) \/ a = SAddHandler s h).
  Proof.
    destruct a as [s' ch|s' h'|s' h'|s'|s'|ch msg|i]; cbn [sstep].
    - destruct (has_sub s' (ss_chan st)); cbn; split; auto; intros; contradiction.
    - destruct (pair_b s' h' (ss_h st)); cbn [fst snd ss_h]; split; auto; try (intros; contradiction).
      intros h Hin. apply in_app_or in Hin as [Hin|[Hin|[]]]; auto. inversion Hin; subst. auto.
    - cbn [fst snd ss_h]. split; [intros; contradiction|]. intros h Hin. apply filter_In in Hin as [Hin _]. auto.
    - cbn [fst snd ss_h]. split; [intros; contradiction|]. intros h Hin. apply filter_In in Hin as [Hin _]. auto.
    - cbn [fst snd ss_h]. split; [intros; contradiction|]. auto.
    - cbn [fst snd ss_h]. split; [intros; contradiction|]. auto.
    - destruct (nth_error (ss_jobs st) i) as [[s' msg']|]; cbn [fst snd ss_h]; split; auto; try (intros; contradiction).
      intros h msg Hin. apply in_map_iff in Hin as [[s2 h2] [E Hin]]. apply filter_In in Hin as [Hin Hs].
      cbn [fst snd] in *. apply Nat.eqb_eq in Hs. inversion E; subst. exact Hin.
  Qed.

  Lemma srun_handlers l : forall (P : nat -> Prop) st,
    (forall h, In (s, h) (ss_h st) -> P h) ->
    forall h msg, In (Invoke s h msg) (snd (srun st l)) -> P h \/ In (SAddHandler s h) l.
  Proof.
    induction l as [|a l IH]; intros P st HP h msg; cbn [srun].
    - cbn. tauto.
    - destruct (sstep_handlers st a) as [H1 H2].
      destruct (sstep st a) as [s1 o1] eqn:E1. cbn [fst snd] in *.
      specialize (IH (fun h0 => P h0 \/ a = SAddHandler s h0) s1).
      destruct (srun s1 l) as [s2 o2]. cbn [snd] in *.
      intros Hin. apply in_app_or in Hin as [Hin|Hin].
      + left. apply HP. eapply H1; eauto.
      + assert (HP' : forall h0, In (s, h0) (ss_h s1) -> (P h0 \/ a = SAddHandler s h0)).
        { intros h0 Hh. destruct (H2 _ Hh); auto. }
        destruct (IH HP' h msg Hin) as [[Hp|Ha]|Hl]; [left; exact Hp|right; left; exact Ha|right; right; exact Hl].
  Qed.

  Lemma release_clears st : forall h, ~ In (s, h) (ss_h (fst (sstep st (SReleaseA s)))).
  Proof.
    intros h Hin. cbn [sstep fst ss_h] in Hin. apply filter_In in Hin as [_ Hf].
    cbn [fst] in Hf. rewrite Nat.eqb_refl in Hf. discriminate.
  Qed.

  (* after the first region of Release, every handler of s that is ever invoked
     again was registered by an AddHandler that came after the release *)
  Theorem release_general st t h msg :
    In (Invoke s h msg) (snd (srun (fst (sstep st (SReleaseA s))) t)) -> In (SAddHandler s h) t.
  Proof.
    intros H. apply (srun_handlers t (fun _ => False)) in H; [tauto|].
    intros h0 Hh. exact (release_clears st h0 Hh).
  Qed.

  (* the property as stated: a released subscription handle that is not used
     again never has a handler invoked, whatever else happens *)
  Theorem release_silent st t :
    (forall h, ~ In (SAddHandler s h) t) ->
    forall h msg, ~ In (Invoke s h msg) (snd (srun (fst (sstep st (SReleaseA s))) t)).
  Proof. intros Hn h msg H. apply release_general in H. exact (Hn h H). Qed.

  (* whole-history form: split any history at a release of s *)
  Theorem release_history st t1 t2 :
    (forall h, ~ In (SAddHandler s h) t2) ->
    forall o, In o (snd (srun st (t1 ++ SReleaseA s :: t2))) ->
      In o (snd (srun st t1)) \/ (forall h msg, o <> Invoke s h msg).
  Proof.
    intros Hn o. rewrite srun_app. destruct (srun st t1) as [s1 o1] eqn:E1. cbn [srun].
    pose proof (release_silent s1 t2 Hn) as Hs.
    destruct (sstep s1 (SReleaseA s)) as [s2 o2] eqn:E2. cbn [fst] in Hs.
    assert (o2 = []) by (cbn [sstep] in E2; inversion E2; reflexivity). subst o2.
    destruct (srun s2 t2) as [s3 o3]. cbn [snd app] in *.
    intros H. apply in_app_or in H as [H|H]; [left; exact H|].
    right. intros h msg ->. exact (Hs h msg H).
  Qed.

  (* after the second region of Release (and without a new AddSubscription for
     the same handle) no further callback goroutine is spawned for s *)
  Lemma sstep_jobs st a :
    (forall ch, a <> SSubscribe s ch) ->
    (forall ch, ~ In (s, ch) (ss_chan st)) ->
    (forall ch, ~ In (s, ch) (ss_chan (fst (sstep st a)))) /\
    (forall msg, In (s, msg) (ss_jobs (fst (sstep st a))) -> In (s, msg) (ss_jobs st)).
  Proof.
    intros Ha Hc. destruct a as [s' ch|s' h'|s' h'|s'|s'|ch msg|i]; cbn [sstep].
    - destruct (has_sub s' (ss_chan st)); cbn [fst ss_chan ss_jobs]; split; auto.
      intros ch0 Hin. apply in_app_or in Hin as [Hin|[Hin|[]]]; [exact (Hc _ Hin)|].
      inversion Hin; subst. exact (Ha ch0 eq_refl).
    - destruct (pair_b s' h' (ss_h st)); cbn [fst ss_chan ss_jobs]; split; auto.
    - cbn [fst ss_chan ss_jobs]; split; auto.
    - cbn [fst ss_chan ss_jobs]; split; auto.
    - cbn [fst ss_chan ss_jobs]; split; auto. intros ch Hin. apply filter_In in Hin as [Hin _]. exact (Hc _ Hin).
    - cbn [fst ss_chan ss_jobs]; split; auto. intros m Hin. apply in_app_or in Hin as [Hin|Hin]; auto.
      apply in_map_iff in Hin as [[s2 c2] [E Hin]]. apply filter_In in Hin as [Hin _]. cbn [fst] in E.
      inversion E; subst. destruct (Hc _ Hin).
    - destruct (nth_error (ss_jobs st) i) as [[s' msg']|]; cbn [fst ss_chan ss_jobs]; split; auto.
      intros m Hin. clear - Hin. revert i Hin. induction (ss_jobs st) as [|x l IHl]; intros [|i] Hin; cbn in *; auto.
      destruct Hin as [->|Hin]; eauto.
  Qed.
End Release.
