(* Common imports, the outcome type and small list utilities shared by every model. *)
From Coq Require Export List Arith ZArith Lia Bool.
From Coq Require Export ZifyBool ZifyNat.
Export ListNotations.
Open Scope Z_scope.

(* Go's partial operations are explicit: Ok v | Err class | Panic. *)
Inductive outcome (A : Type) : Type :=
| Ok (a : A)
| Err (k : nat)
| Panic.
Arguments Ok {A} a.
Arguments Err {A} k.
Arguments Panic {A}.

Definition is_ok {A} (o : outcome A) : bool := match o with Ok _ => true | _ => false end.
Definition is_err {A} (o : outcome A) : bool := match o with Err _ => true | _ => false end.
Definition is_panic {A} (o : outcome A) : bool := match o with Panic => true | _ => false end.

Definition obind {A B} (o : outcome A) (f : A -> outcome B) : outcome B :=
  match o with Ok a => f a | Err k => Err k | Panic => Panic end.
Notation "x <- o ;; k" := (obind o (fun x => k)) (at level 61, o at next level, right associativity).

Definition bytes := list Z.

Definition is_byte (b : Z) : bool := (0 <=? b) && (b <? 256).
Definition all_bytes (l : bytes) : bool := forallb is_byte l.

Section ListEqb.
  Context {A : Type} (eqb : A -> A -> bool).
  Fixpoint list_eqb (a b : list A) : bool :=
    match a, b with
    | [], [] => true
    | x :: a', y :: b' => eqb x y && list_eqb a' b'
    | _, _ => false
    end.
End ListEqb.

Definition bytes_eqb : bytes -> bytes -> bool := list_eqb Z.eqb.

Lemma list_eqb_spec {A} (eqb : A -> A -> bool) :
  (forall x y, eqb x y = true <-> x = y) ->
  forall a b, list_eqb eqb a b = true <-> a = b.
Proof.
  intros H a; induction a as [|x a IH]; intros [|y b]; cbn [list_eqb]; split; intros E;
    try discriminate; try reflexivity.
  - apply andb_true_iff in E as [E1 E2]. apply H in E1. apply IH in E2. congruence.
  - inversion E; subst. apply andb_true_iff; split; [apply H|apply IH]; reflexivity.
Qed.

Lemma bytes_eqb_spec a b : bytes_eqb a b = true <-> a = b.
Proof. apply list_eqb_spec. intros; apply Z.eqb_eq. Qed.

Lemma bytes_eqb_refl a : bytes_eqb a a = true.
Proof. apply bytes_eqb_spec; reflexivity. Qed.

Definition option_eqb {A} (eqb : A -> A -> bool) (a b : option A) : bool :=
  match a, b with
  | None, None => true
  | Some x, Some y => eqb x y
  | _, _ => false
  end.

(* indices of the elements of l (starting at i) on which f holds: used by the
   correspondence check to name the disagreeing cases. *)
Fixpoint indices_where_from {A} (f : A -> bool) (i : nat) (l : list A) : list nat :=
  match l with
  | [] => []
  | x :: l' => if f x then i :: indices_where_from f (S i) l' else indices_where_from f (S i) l'
  end.
Definition indices_where {A} (f : A -> bool) (l : list A) : list nat := indices_where_from f 0%nat l.

Lemma indices_where_nil {A} (f : A -> bool) l i :
  indices_where_from f i l = [] <-> forallb (fun x => negb (f x)) l = true.
Proof.
  revert i; induction l as [|x l IH]; intros i; cbn; [tauto|].
  destruct (f x); cbn; [split; discriminate|apply IH].
Qed.

Fixpoint count_occ_b {A} (eqb : A -> A -> bool) (x : A) (l : list A) : nat :=
  match l with
  | [] => 0%nat
  | y :: l' => ((if eqb x y then 1 else 0) + count_occ_b eqb x l')%nat
  end.
