(* Generic proto3 wire-format decoder, parametrised by a message descriptor,
   following the code protobuf-go-lite generates (`UnmarshalVT`) and its
   runtime helpers (`DecodeVarint`/`ConsumeVarint`, `Skip`) step by step:

     for iNdEx < l {
       wire := DecodeVarint                    strict varint (<= 10 bytes, tenth <= 1)
       fieldNum := int32(wire >> 3); wireType := int(wire & 7)
       wireType == 4            -> error
       fieldNum <= 0            -> error       (after the int32 truncation!)
       known field              -> wrong wire type => error, otherwise the
                                   typed decode with the length checks
                                   (negative int, int overflow, past the end)
       unknown field            -> protobuf_go_lite.Skip on dAtA[preIndex:]
     }

   Go `int` is 64 bit two's complement (`to_int64`), indices are `Z`, and every
   indexing / slicing operation is an explicit partial operation (`get_z`,
   `drop_z`, `slice_z`) that yields `Panic` when Go would panic, so "never
   panics" and "never reads past the input" are theorems (Lib/ProtoProofs.v),
   not artefacts of totality.  Definitions only in this file.

   The runtime does NOT validate UTF-8 in `string` fields (no utf8.Valid call
   in the generated code), so `string` and `bytes` are the same kind here.
   Kinds with no exemplar in the messages in scope (fixed32/64, float, double,
   sint, map, group) are deliberately absent: the translator plugin fails on
   them instead of guessing what the generator would emit. *)
From Bifrost Require Import Lib.Base Lib.Varint.

(* ---- error classes (sentinel errors of the runtime; fmt.Errorf = other) ---- *)
Definition E_EOF : nat := 1.       (* io.ErrUnexpectedEOF *)
Definition E_OVERFLOW : nat := 2.  (* protobuf_go_lite.ErrIntOverflow *)
Definition E_INVLEN : nat := 3.    (* protobuf_go_lite.ErrInvalidLength *)
Definition E_ENDGROUP : nat := 4.  (* protobuf_go_lite.ErrUnexpectedEndOfGroup *)
Definition E_OTHER : nat := 5.     (* fmt.Errorf: wrong wire type, illegal tag, end group, illegal wire type *)
Definition E_FUEL : nat := 99.     (* fuel exhausted: proved unreachable *)

(* ---- Go integers ---- *)
Definition two63 : Z := 9223372036854775808.
Definition two32 : Z := 4294967296.
Definition two31 : Z := 2147483648.

Definition to_int64 (z : Z) : Z := let m := z mod two64 in if m <? two63 then m else m - two64.
Definition to_int32 (z : Z) : Z := let m := z mod two32 in if m <? two31 then m else m - two32.

Definition len (b : bytes) : Z := Z.of_nat (length b).

(* ---- partial slice operations ---- *)
(* dAtA[i] *)
Definition get_z (buf : bytes) (i : Z) : outcome Z :=
  if (0 <=? i) && (i <? len buf) then Ok (nth (Z.to_nat i) buf 0) else Panic.
(* dAtA[i:] *)
Definition drop_z (buf : bytes) (i : Z) : outcome bytes :=
  if (0 <=? i) && (i <=? len buf) then Ok (skipn (Z.to_nat i) buf) else Panic.
(* dAtA[i:j] *)
Definition slice_z (buf : bytes) (i j : Z) : outcome bytes :=
  if (0 <=? i) && (i <=? j) && (j <=? len buf)
  then Ok (firstn (Z.to_nat (j - i)) (skipn (Z.to_nat i) buf)) else Panic.

(* ---- strict varint: protobuf_go_lite.DecodeVarint(b, idx) = ConsumeVarint(b[idx:]) ---- *)
(* ConsumeVarint returns -2 (overflow) exactly when ten bytes are present, the
   first nine have the continuation bit and the tenth is >= 2; every other
   failure is -1 (unexpected EOF). *)
Definition varint_err_class (rest : bytes) : nat :=
  if (10 <=? length rest)%nat && forallb (fun b => 128 <=? b) (firstn 9 rest)
  then E_OVERFLOW else E_EOF.

Definition decode_varint (buf : bytes) (i : Z) : outcome (Z * Z) :=
  rest <- drop_z buf i ;;
  match varint_dec rest with
  | VOk v n => Ok (v, i + Z.of_nat n)
  | VErr => Err (varint_err_class rest)
  end.

(* ---- lax varint: the inline loops of protobuf_go_lite.Skip ----
   for shift := 0; ; shift += 7 { if shift >= 64 -> overflow; if iNdEx >= l -> EOF;
     b := dAtA[iNdEx]; iNdEx++; v |= (b & 0x7f) << shift; if b < 0x80 break }
   ten bytes at most, the tenth unconstrained, value modulo 2^64. *)
Fixpoint lax_loop (k : nat) (buf : bytes) (i : Z) (shift : Z) (acc : Z) : outcome (Z * Z) :=
  match k with
  | O => Err E_OVERFLOW
  | S k' =>
      if len buf <=? i then Err E_EOF else
      b <- get_z buf i ;;
      let acc' := (acc + (b mod 128) * 2 ^ shift) mod two64 in
      if b <? 128 then Ok (acc', i + 1) else lax_loop k' buf (i + 1) (shift + 7) acc'
  end.
Definition lax_varint (buf : bytes) (i : Z) : outcome (Z * Z) := lax_loop 10 buf i 0 0.

(* ---- protobuf_go_lite.Skip(dAtA) : offset of the next record ---- *)
Definition skip_step (buf : bytes) (i depth : Z) : outcome (Z * Z) :=
  p <- lax_varint buf i ;;
  let '(wire, i1) := p in
  let wt := wire mod 8 in
  if wt =? 0 then (q <- lax_varint buf i1 ;; Ok (snd q, depth))
  else if wt =? 1 then Ok (i1 + 8, depth)
  else if wt =? 2 then
    (q <- lax_varint buf i1 ;;
     let n := to_int64 (fst q) in
     if n <? 0 then Err E_INVLEN else Ok (to_int64 (snd q + n), depth))
  else if wt =? 3 then Ok (i1, depth + 1)
  else if wt =? 4 then (if depth =? 0 then Err E_ENDGROUP else Ok (i1, depth - 1))
  else if wt =? 5 then Ok (i1 + 4, depth)
  else Err E_OTHER.

Fixpoint skip_loop (fuel : nat) (buf : bytes) (i depth : Z) : outcome Z :=
  match fuel with
  | O => Err E_FUEL
  | S f =>
      if len buf <=? i then Err E_EOF else
      r <- skip_step buf i depth ;;
      let '(i', depth') := r in
      if i' <? 0 then Err E_INVLEN
      else if depth' =? 0 then Ok i'
      else skip_loop f buf i' depth'
  end.

(* Skip on an empty slice falls out of the loop: ErrUnexpectedEOF *)
Definition skip (buf : bytes) : outcome Z := skip_loop (S (length buf)) buf 0 0.

(* ---- descriptors ---- *)
Inductive skind := SUint64 | SUint32 | SInt64 | SInt32 | SBool.   (* enums are SInt32 *)

Inductive label := LSingle | LRepeated | LOneof (group : nat).

Inductive kind :=
| KScalar (s : skind)
| KBytes                                     (* bytes and string *)
| KMsg (fields : list (Z * label * kind)).

Definition desc := list (Z * label * kind).

(* Go conversion of the decoded uint64 to the field type *)
Definition conv (s : skind) (v : Z) : Z :=
  match s with
  | SUint64 => v
  | SUint32 => v mod two32
  | SInt64 => to_int64 v
  | SInt32 => to_int32 v
  | SBool => if v =? 0 then 0 else 1
  end.

Fixpoint find_field (d : desc) (fn : Z) : option (label * kind) :=
  match d with
  | [] => None
  | (n, l, k) :: d' => if n =? fn then Some (l, k) else find_field d' fn
  end.

Definition is_repeated (l : label) : bool := match l with LRepeated => true | _ => false end.

(* ---- decoded value tree: the fields in wire order ---- *)
Inductive fval :=
| FVar (fn : Z) (v : Z)            (* varint-typed field (after `conv`); one per packed element *)
| FBytes (fn : Z) (b : bytes)      (* bytes / string *)
| FMsg (fn : Z) (sub : list fval)  (* nested message *)
| FUnknown (raw : bytes).          (* one skipped record, appended to unknownFields *)

(* length prefix of a bytes/string/message/packed field:
   v := DecodeVarint; n := int(v); n < 0 -> InvalidLength; post := iNdEx + n;
   post < 0 -> InvalidLength; post > l -> UnexpectedEOF.  Result (iNdEx, post). *)
Definition decode_len (buf : bytes) (i : Z) : outcome (Z * Z) :=
  p <- decode_varint buf i ;;
  let '(v, i2) := p in
  let n := to_int64 v in
  if n <? 0 then Err E_INVLEN else
  let post := to_int64 (i2 + n) in
  if post <? 0 then Err E_INVLEN else
  if len buf <? post then Err E_EOF else Ok (i2, post).

(* packed loop: `for iNdEx < postIndex { v, iNdEx = DecodeVarintXX(dAtA, iNdEx) }`.
   The varint is read from dAtA[iNdEx:], NOT from dAtA[iNdEx:postIndex]: the last
   element may run past postIndex, and decoding then continues from where it
   ended (the generated code does not reset iNdEx to postIndex). *)
Fixpoint dec_packed (fuel : nat) (s : skind) (buf : bytes) (i post : Z) : outcome (list Z * Z) :=
  match fuel with
  | O => Err E_FUEL
  | S f =>
      if i <? post then
        p <- decode_varint buf i ;;
        r <- dec_packed f s buf (snd p) post ;;
        Ok (conv s (fst p) :: fst r, snd r)
      else Ok ([], i)
  end.

(* the pre-allocation of the packed branch: number of bytes < 128 in the slice *)
Definition packed_count (sl : bytes) : Z := len (filter (fun b => b <? 128) sl).

(* One iteration of the field loop at index i (< l). `rec d' sub` decodes a
   nested message.  Result: the new fields in order and the new index. *)
Definition field_step (fuel : nat) (rec : desc -> bytes -> outcome (list fval))
           (d : desc) (buf : bytes) (i : Z) : outcome (list fval * Z) :=
  p <- decode_varint buf i ;;
  let '(wire, i1) := p in
  let fn := to_int32 (wire / 8) in
  let wt := wire mod 8 in
  if wt =? 4 then Err E_OTHER else
  if fn <=? 0 then Err E_OTHER else
  match find_field d fn with
  | Some (lab, KScalar s) =>
      if wt =? 0 then
        (q <- decode_varint buf i1 ;; Ok ([FVar fn (conv s (fst q))], snd q))
      else if (wt =? 2) && is_repeated lab then
        (q <- decode_len buf i1 ;;
         let '(i2, post) := q in
         _ <- slice_z buf i2 post ;;                (* the counting `range dAtA[iNdEx:postIndex]` *)
         r <- dec_packed fuel s buf i2 post ;;
         Ok (map (FVar fn) (fst r), snd r))
      else Err E_OTHER
  | Some (_, KBytes) =>
      if wt =? 2 then
        (q <- decode_len buf i1 ;;
         let '(i2, post) := q in
         b <- slice_z buf i2 post ;;
         Ok ([FBytes fn b], post))
      else Err E_OTHER
  | Some (_, KMsg d') =>
      if wt =? 2 then
        (q <- decode_len buf i1 ;;
         let '(i2, post) := q in
         sub <- slice_z buf i2 post ;;
         r <- rec d' sub ;;
         Ok ([FMsg fn r], post))
      else Err E_OTHER
  | None =>
      rest <- drop_z buf i ;;                       (* iNdEx = preIndex; Skip(dAtA[iNdEx:]) *)
      skippy <- skip rest ;;
      if (skippy <? 0) || (to_int64 (i + skippy) <? 0) then Err E_INVLEN else
      if len buf <? to_int64 (i + skippy) then Err E_EOF else
      raw <- slice_z buf i (to_int64 (i + skippy)) ;;
      Ok ([FUnknown raw], to_int64 (i + skippy))
  end.

Fixpoint dec_fields (fuel : nat) (d : desc) (buf : bytes) (i : Z) : outcome (list fval) :=
  match fuel with
  | O => Err E_FUEL
  | S f =>
      if len buf <=? i then (if len buf <? i then Err E_EOF else Ok [])
      else
        r <- field_step f (fun d' sub => dec_fields f d' sub 0) d buf i ;;
        rest <- dec_fields f d buf (snd r) ;;
        Ok (fst r ++ rest)
  end.

(* m.UnmarshalVT(buf) for a message with descriptor d *)
Definition decode (d : desc) (buf : bytes) : outcome (list fval) :=
  dec_fields (S (length buf)) d buf 0.

(* ---- size measures on the decoded tree (allocation accounting) ---- *)
(* total length of the byte strings the decoder produced (each is one Go
   allocation of exactly that size, or an append into unknownFields) *)
Fixpoint fsize (v : fval) : Z :=
  match v with
  | FVar _ _ => 0
  | FBytes _ b => len b
  | FMsg _ sub => (fix go (l : list fval) : Z := match l with [] => 0 | x :: r => fsize x + go r end) sub
  | FUnknown raw => len raw
  end.
Fixpoint tsize (l : list fval) : Z := match l with [] => 0 | x :: r => fsize x + tsize r end.

(* number of field values (scalars, strings, sub-messages, skipped records) *)
Fixpoint fcount (v : fval) : Z :=
  match v with
  | FMsg _ sub => 1 + (fix go (l : list fval) : Z := match l with [] => 0 | x :: r => fcount x + go r end) sub
  | _ => 1
  end.
Fixpoint tcount (l : list fval) : Z := match l with [] => 0 | x :: r => fcount x + tcount r end.

(* ---- accessors for clients of the decoder (last-one-wins / merge) ---- *)
Definition fnum (v : fval) : Z :=
  match v with FVar n _ | FBytes n _ | FMsg n _ => n | FUnknown _ => 0 end.

Fixpoint last_var (fn : Z) (l : list fval) (dflt : Z) : Z :=
  match l with
  | [] => dflt
  | FVar n v :: r => last_var fn r (if n =? fn then v else dflt)
  | _ :: r => last_var fn r dflt
  end.
Fixpoint last_bytes (fn : Z) (l : list fval) (dflt : bytes) : bytes :=
  match l with
  | [] => dflt
  | FBytes n b :: r => last_bytes fn r (if n =? fn then b else dflt)
  | _ :: r => last_bytes fn r dflt
  end.
(* a singular message field that occurs several times is merged: the Go code
   calls UnmarshalVT on the same sub-message, i.e. the field lists concatenate *)
Fixpoint merged_msg (fn : Z) (l : list fval) : option (list fval) :=
  match l with
  | [] => None
  | FMsg n sub :: r =>
      if n =? fn then Some (sub ++ match merged_msg fn r with Some s => s | None => [] end)
      else merged_msg fn r
  | _ :: r => merged_msg fn r
  end.
Fixpoint all_bytes_of (fn : Z) (l : list fval) : list bytes :=
  match l with
  | [] => []
  | FBytes n b :: r => if n =? fn then b :: all_bytes_of fn r else all_bytes_of fn r
  | _ :: r => all_bytes_of fn r
  end.
Fixpoint all_vars_of (fn : Z) (l : list fval) : list Z :=
  match l with
  | [] => []
  | FVar n v :: r => if n =? fn then v :: all_vars_of fn r else all_vars_of fn r
  | _ :: r => all_vars_of fn r
  end.
Fixpoint all_msgs_of (fn : Z) (l : list fval) : list (list fval) :=
  match l with
  | [] => []
  | FMsg n s :: r => if n =? fn then s :: all_msgs_of fn r else all_msgs_of fn r
  | _ :: r => all_msgs_of fn r
  end.
