(* Go string operations on byte strings used by the handler / rpc / conf models:
   strings.HasPrefix, s[len(p):], slices.Contains, strings.Cut with a one-byte
   separator, strings.Contains for one byte.  (owner: handlers) *)
From Bifrost Require Import Lib.Base.

Definition nonempty {A} (b : list A) : bool := match b with [] => false | _ => true end.

Lemma nonempty_true {A} (b : list A) : nonempty b = true <-> b <> [].
Proof. destruct b; cbn; split; congruence. Qed.

Lemma nonempty_false {A} (b : list A) : nonempty b = false <-> b = [].
Proof. destruct b; cbn; split; congruence. Qed.

(* slices.Contains on strings *)
Definition mem (x : bytes) (l : list bytes) : bool := existsb (bytes_eqb x) l.

Lemma mem_spec x l : mem x l = true <-> In x l.
Proof.
  unfold mem. rewrite existsb_exists. split.
  - intros [y [Hy E]]. apply bytes_eqb_spec in E. subst. exact Hy.
  - intros H. exists x. split; [exact H|apply bytes_eqb_refl].
Qed.

(* strings.HasPrefix(s, p) *)
Fixpoint has_prefix (s p : bytes) {struct p} : bool :=
  match p, s with
  | [], _ => true
  | x :: p', y :: s' => (x =? y) && has_prefix s' p'
  | _ :: _, [] => false
  end.

Lemma has_prefix_spec s p : has_prefix s p = true <-> exists r, s = p ++ r.
Proof.
  revert s; induction p as [|x p IH]; intros s; cbn [has_prefix].
  - split; [intros _; exists s; reflexivity|reflexivity].
  - destruct s as [|y s].
    + split; [discriminate|intros [r H]; discriminate].
    + rewrite andb_true_iff, IH, Z.eqb_eq. split.
      * intros [E [r H]]. subst. exists r. reflexivity.
      * intros [r H]. cbn in H. inversion H; subst. split; [reflexivity|exists r; reflexivity].
Qed.

Lemma has_prefix_app p r : has_prefix (p ++ r) p = true.
Proof. apply has_prefix_spec. exists r. reflexivity. Qed.

(* s[len(p):] ; Go panics if len(p) > len(s) *)
Definition drop_len (p s : bytes) : outcome bytes :=
  if (length p <=? length s)%nat then Ok (skipn (length p) s) else Panic.

Lemma skipn_prefix (p r : bytes) : skipn (length p) (p ++ r) = r.
Proof. induction p; cbn; auto. Qed.

Lemma drop_len_prefix p r : drop_len p (p ++ r) = Ok r.
Proof.
  unfold drop_len. rewrite app_length.
  destruct (Nat.leb_spec (length p) (length p + length r)); [|lia].
  rewrite skipn_prefix. reflexivity.
Qed.

(* first element of a list satisfying f: the `for ... { if ... break }` loops *)
Fixpoint first_match {A} (f : A -> bool) (l : list A) : option A :=
  match l with
  | [] => None
  | x :: l' => if f x then Some x else first_match f l'
  end.

Lemma first_match_some {A} (f : A -> bool) l x :
  first_match f l = Some x <->
  exists l1 l2, l = l1 ++ x :: l2 /\ f x = true /\ forall y, In y l1 -> f y = false.
Proof.
  revert x; induction l as [|y l IH]; intros x; cbn [first_match].
  - split; [discriminate|intros [l1 [l2 [H _]]]; destruct l1; discriminate].
  - destruct (f y) eqn:E.
    + split.
      * intros H; inversion H; subst. exists [], l. cbn. repeat split; auto. intros ? [].
      * intros [l1 [l2 [H [Hx Hn]]]]. destruct l1 as [|z l1]; cbn in H; inversion H; subst; auto.
        rewrite (Hn z) in E by (left; reflexivity). discriminate.
    + rewrite IH. split.
      * intros [l1 [l2 [H [Hx Hn]]]]. subst. exists (y :: l1), l2. repeat split; auto.
        intros z [<-|Hz]; auto.
      * intros [l1 [l2 [H [Hx Hn]]]]. destruct l1 as [|z l1]; cbn in H; inversion H; subst.
        -- congruence.
        -- exists l1, l2. repeat split; auto. intros; apply Hn; right; auto.
Qed.

Lemma first_match_none {A} (f : A -> bool) l :
  first_match f l = None <-> forall y, In y l -> f y = false.
Proof.
  induction l as [|y l IH]; cbn [first_match].
  - split; [intros _ ? []|reflexivity].
  - destruct (f y) eqn:E.
    + split; [discriminate|]. intros H. rewrite (H y) in E by (left; reflexivity). discriminate.
    + rewrite IH. split.
      * intros H z [<-|Hz]; auto.
      * intros H z Hz. apply H. right; auto.
Qed.

Lemma first_match_exists {A} (f : A -> bool) l :
  (exists x, first_match f l = Some x) <-> existsb f l = true.
Proof.
  induction l as [|y l IH]; cbn.
  - split; [intros [x H]; discriminate|discriminate].
  - destruct (f y); cbn; [split; eauto|exact IH].
Qed.

(* strings.Cut(s, sep) for a one-byte separator: None = not found *)
Fixpoint cut (sep : Z) (s : bytes) : option (bytes * bytes) :=
  match s with
  | [] => None
  | c :: r =>
      if c =? sep then Some ([], r)
      else match cut sep r with
           | Some (a, b) => Some (c :: a, b)
           | None => None
           end
  end.

Lemma cut_some sep s a b :
  cut sep s = Some (a, b) <-> s = a ++ sep :: b /\ ~ In sep a.
Proof.
  revert a b; induction s as [|c r IH]; intros a b; cbn [cut].
  - split; [discriminate|]. intros [H _]. destruct a; discriminate.
  - destruct (Z.eqb_spec c sep) as [->|N].
    + split.
      * intros H; inversion H; subst. split; [reflexivity|intros []].
      * intros [H Hn]. destruct a as [|x a]; cbn in H; inversion H; subst; auto.
        exfalso. apply Hn. left; reflexivity.
    + destruct (cut sep r) as [[a' b']|] eqn:E.
      * split.
        -- intros H; inversion H; subst. destruct (proj1 (IH a' b) eq_refl) as [-> Hn].
           split; [reflexivity|]. intros [H1|H1]; [congruence|auto].
        -- intros [H Hn]. destruct a as [|x a]; cbn in H; inversion H; subst; [congruence|].
           assert (Some (a', b') = Some (a, b)) as X.
           { apply IH. split; [reflexivity|]. intros Hi; apply Hn; right; exact Hi. }
           inversion X; subst. reflexivity.
      * split; [discriminate|]. intros [H Hn].
        destruct a as [|x a]; cbn in H; inversion H; subst; [congruence|].
        assert (None = Some (a, b)) as X.
        { apply IH. split; [reflexivity|]. intros Hi; apply Hn; right; exact Hi. }
        discriminate.
Qed.

Lemma cut_none sep s : cut sep s = None <-> ~ In sep s.
Proof.
  induction s as [|c r IH]; cbn [cut].
  - split; [intros _ []|reflexivity].
  - destruct (Z.eqb_spec c sep) as [->|N].
    + split; [discriminate|]. intros H. exfalso. apply H. left; reflexivity.
    + destruct (cut sep r) as [[a' b']|] eqn:E.
      * split; [discriminate|]. intros H. exfalso.
        assert (~ In sep r) as X by (intros Hi; apply H; right; exact Hi).
        apply IH in X. discriminate.
      * split; [|reflexivity]. intros _ [H|H]; [congruence|]. apply (proj1 IH eq_refl H).
Qed.

(* strings.Contains(s, one byte) *)
Definition contains_byte (sep : Z) (s : bytes) : bool := existsb (Z.eqb sep) s.

Lemma contains_byte_spec sep s : contains_byte sep s = true <-> In sep s.
Proof.
  unfold contains_byte. rewrite existsb_exists. split.
  - intros [x [H E]]. apply Z.eqb_eq in E. subst. exact H.
  - intros H. exists sep. split; [exact H|apply Z.eqb_refl].
Qed.
