(* Fuel independence of the wire decoder: any fuel above the input length gives
   the same result, so `decode` (fuel = length + 1) is THE result of the
   unbounded Go loop, not an artefact of the bound. *)
From Bifrost Require Import Lib.Base Lib.Varint Lib.Proto Lib.ProtoProofs.

Lemma bind_mono {A B} (a a' : outcome A) (f f' : A -> outcome B) o :
  obind a f = o -> o <> Err E_FUEL ->
  (a <> Err E_FUEL -> a' = a) ->
  (forall x, a = Ok x -> f x = o -> f' x = o) ->
  obind a' f' = o.
Proof.
  intros H Ho Ha Hf. destruct a as [x|k|]; cbn [obind] in H.
  - rewrite Ha by discriminate. cbn [obind]. apply Hf; auto.
  - rewrite Ha by (intros E; apply Ho; rewrite <- H; injection E as ->; reflexivity). cbn [obind]. exact H.
  - rewrite Ha by discriminate. exact H.
Qed.

Lemma dec_packed_mono s buf post : forall f i o,
  dec_packed f s buf i post = o -> o <> Err E_FUEL -> dec_packed (S f) s buf i post = o.
Proof.
  induction f as [|f IH]; intros i o H Ho; [cbn in H; congruence|].
  cbn [dec_packed] in H. change (dec_packed (S (S f)) s buf i post) with
    (if i <? post then p <- decode_varint buf i ;; r <- dec_packed (S f) s buf (snd p) post ;; Ok (conv s (fst p) :: fst r, snd r) else Ok ([], i)).
  destruct (i <? post); [|exact H].
  eapply bind_mono; [exact H|exact Ho|auto|].
  intros p _ Hp. eapply bind_mono; [exact Hp|exact Ho| |auto].
  intros Hne. apply IH; auto.
Qed.

Lemma skip_loop_mono buf : forall f i depth o,
  skip_loop f buf i depth = o -> o <> Err E_FUEL -> skip_loop (S f) buf i depth = o.
Proof.
  induction f as [|f IH]; intros i depth o H Ho; [cbn in H; congruence|].
  cbn [skip_loop] in H.
  change (skip_loop (S (S f)) buf i depth) with
    (if len buf <=? i then Err E_EOF else
       r <- skip_step buf i depth ;;
       let '(i', depth') := r in
       if i' <? 0 then Err E_INVLEN else if depth' =? 0 then Ok i' else skip_loop (S f) buf i' depth').
  destruct (len buf <=? i); [exact H|].
  eapply bind_mono; [exact H|exact Ho|auto|].
  intros [i' d'] _ Hr. destruct (i' <? 0); [exact Hr|]. destruct (d' =? 0); [exact Hr|].
  apply IH; auto.
Qed.

Definition rec_mono (rec rec' : desc -> bytes -> outcome (list fval)) : Prop :=
  forall d' sub o, rec d' sub = o -> o <> Err E_FUEL -> rec' d' sub = o.

Lemma field_step_mono f rec rec' d buf i o : rec_mono rec rec' ->
  field_step f rec d buf i = o -> o <> Err E_FUEL -> field_step (S f) rec' d buf i = o.
Proof.
  intros Hrec H Ho. unfold field_step in *.
  eapply bind_mono; [exact H|exact Ho|auto|].
  intros [wire i1] _ H1. cbv beta iota zeta in *.
  destruct (wire mod 8 =? 4); [exact H1|].
  destruct (to_int32 (wire / 8) <=? 0); [exact H1|].
  destruct (find_field d (to_int32 (wire / 8))) as [[lab [s| |d']]|]; try exact H1.
  - destruct (wire mod 8 =? 0); [exact H1|].
    destruct ((wire mod 8 =? 2) && is_repeated lab); [|exact H1].
    eapply bind_mono; [exact H1|exact Ho|auto|].
    intros [i2 post] _ H2. cbv beta iota in *.
    eapply bind_mono; [exact H2|exact Ho|auto|].
    intros sl _ H3. eapply bind_mono; [exact H3|exact Ho| |auto].
    intros Hne. apply dec_packed_mono; auto.
  - destruct (wire mod 8 =? 2); [|exact H1].
    eapply bind_mono; [exact H1|exact Ho|auto|].
    intros [i2 post] _ H2. cbv beta iota in *.
    eapply bind_mono; [exact H2|exact Ho|auto|].
    intros sub _ H3. eapply bind_mono; [exact H3|exact Ho| |auto].
    intros Hne. apply Hrec; auto.
Qed.

Lemma dec_fields_mono : forall f d buf i o,
  dec_fields f d buf i = o -> o <> Err E_FUEL -> dec_fields (S f) d buf i = o.
Proof.
  induction f as [|f IH]; intros d buf i o H Ho; [cbn in H; congruence|].
  cbn [dec_fields] in H.
  change (dec_fields (S (S f)) d buf i) with
    (if len buf <=? i then (if len buf <? i then Err E_EOF else Ok [])
     else r <- field_step (S f) (fun d' sub => dec_fields (S f) d' sub 0) d buf i ;;
          rest <- dec_fields (S f) d buf (snd r) ;; Ok (fst r ++ rest)).
  destruct (len buf <=? i); [exact H|].
  eapply bind_mono; [exact H|exact Ho| |].
  - intros Hne. apply (field_step_mono f (fun d' sub => dec_fields f d' sub 0)); auto.
    intros d' sub o' E Ho'. apply IH; auto.
  - intros r _ Hr. eapply bind_mono; [exact Hr|exact Ho| |auto].
    intros Hne. apply IH; auto.
Qed.

Theorem decode_fuel_independent d buf fuel : len buf < two63 -> (length buf < fuel)%nat ->
  dec_fields fuel d buf 0 = decode d buf.
Proof.
  intros Hl Hf. unfold decode.
  replace fuel with ((fuel - S (length buf)) + S (length buf))%nat by lia.
  induction (fuel - S (length buf))%nat as [|k IH]; [reflexivity|].
  cbn [Nat.add]. apply dec_fields_mono; [exact IH|]. apply decode_fuel_ok. exact Hl.
Qed.
