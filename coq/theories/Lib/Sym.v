(* Symbolic byte strings: the Dolev-Yao idealisation used for every
   cryptographic primitive.  A symbolic byte is either a concrete byte or the
   i-th output byte of an uninterpreted function [fn] applied to a symbolic
   byte string.  Because constructors are free, distinct applications give
   distinct outputs (collision freedom) and outputs are never concrete bytes. *)
From Bifrost Require Import Lib.Base.

Inductive sym : Type :=
| B (z : Z)
| F (fn : nat) (arg : list sym) (i : nat).

Definition sbytes := list sym.

Definition lift (b : bytes) : sbytes := map B b.

(* output of function fn with n output bytes *)
Definition fout (fn : nat) (n : nat) (arg : sbytes) : sbytes :=
  map (F fn arg) (seq 0 n).

Fixpoint sym_eqb (a b : sym) : bool :=
  match a, b with
  | B x, B y => Z.eqb x y
  | F f xs i, F g ys j => Nat.eqb f g && Nat.eqb i j && list_eqb sym_eqb xs ys
  | _, _ => false
  end.

Definition sbytes_eqb : sbytes -> sbytes -> bool := list_eqb sym_eqb.

(* nested induction principle *)
Section SymInd.
  Variable P : sym -> Prop.
  Hypothesis HB : forall z, P (B z).
  Hypothesis HF : forall fn arg i, Forall P arg -> P (F fn arg i).
  Fixpoint sym_ind' (s : sym) : P s :=
    match s with
    | B z => HB z
    | F fn arg i =>
        HF fn arg i
          ((fix go (l : list sym) : Forall P l :=
              match l with
              | [] => Forall_nil P
              | x :: l' => Forall_cons x (sym_ind' x) (go l')
              end) arg)
    end.
End SymInd.

Lemma sym_eqb_spec : forall a b, sym_eqb a b = true <-> a = b.
Proof.
  induction a as [z|fn arg i IH] using sym_ind'; intros [y|g ys j]; cbn [sym_eqb].
  - rewrite Z.eqb_eq. split; congruence.
  - split; discriminate.
  - split; discriminate.
  - rewrite !andb_true_iff, !Nat.eqb_eq.
    assert (HL : list_eqb sym_eqb arg ys = true <-> arg = ys).
    { revert ys. induction IH as [|x l Hx Hl IHl]; intros [|y ys]; cbn [list_eqb];
        try (split; congruence).
      rewrite andb_true_iff, Hx, IHl. split; [intros [? ?]|intros E; inversion E]; subst; auto. }
    rewrite HL. split; [intros [[? ?] ?]|intros E; inversion E]; subst; auto.
Qed.

Lemma sbytes_eqb_spec a b : sbytes_eqb a b = true <-> a = b.
Proof. apply list_eqb_spec, sym_eqb_spec. Qed.

Lemma lift_inj a b : lift a = lift b -> a = b.
Proof.
  revert b; induction a as [|x a IH]; intros [|y b] H; cbn in H; try discriminate; auto.
  inversion H; subst. f_equal; auto.
Qed.

Lemma lift_app a b : lift (a ++ b) = lift a ++ lift b.
Proof. apply map_app. Qed.

Lemma fout_length fn n arg : length (fout fn n arg) = n.
Proof. unfold fout. rewrite map_length, seq_length. reflexivity. Qed.

Lemma fout_inj fn n arg fn' arg' :
  (0 < n)%nat -> fout fn n arg = fout fn' n arg' -> fn = fn' /\ arg = arg'.
Proof.
  intros Hn H. destruct n as [|n]; [lia|]. cbn in H. inversion H; auto.
Qed.

(* a concrete byte string never equals a string containing a function output *)
Lemma lift_no_F b pre fn arg i post : lift b <> pre ++ F fn arg i :: post.
Proof.
  revert pre; induction b as [|x b IH]; intros [|p pre] H; cbn in H; try discriminate.
  inversion H; subst. eapply IH; eauto.
Qed.
