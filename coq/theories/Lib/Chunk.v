(* Byte streams delivered in arbitrary chunks, as seen through io.Reader.

   A stream is the data still to be delivered plus a chunking: the list of
   sizes in which the transport hands the data over (a size h stands for
   max 1 h, so every list of naturals is a legal chunking; once the list is
   exhausted the rest of the data is available at once).  Read(buf) with
   len(buf) = cap returns min(chunk, cap, remaining) bytes; the unread part of
   a chunk stays available for the next Read.  EOF is reported by a Read that
   finds no data left.

   Main result (read_n_spec): a ReadFull / readAtLeast loop that asks for n
   bytes obtains firstn n of the data and leaves skipn n, for EVERY chunking. *)
From Bifrost Require Import Lib.Base.

Definition stream : Type := (list nat * bytes)%type.

Definition sdata (s : stream) : bytes := snd s.

Definition csize (h : nat) : nat := Nat.max 1 h.

(* one Read into a buffer of capacity cap (cap > 0); None = EOF *)
Definition sread (cap : nat) (s : stream) : option (bytes * stream) :=
  match snd s with
  | [] => None
  | _ :: _ =>
      match fst s with
      | [] => let k := Nat.min cap (length (snd s)) in
              Some (firstn k (snd s), ([], skipn k (snd s)))
      | h :: t =>
          let k := Nat.min (Nat.min (csize h) cap) (length (snd s)) in
          Some (firstn k (snd s), ((if (k <? csize h)%nat then (csize h - k)%nat :: t else t), skipn k (snd s)))
      end
  end.

(* the loop of io.ReadFull / readAtLeast into an exactly-sized buffer: keep
   reading into the unfilled part until n bytes are there or the stream ends.
   Returns the bytes obtained (fewer than n iff the stream ended early). *)
Fixpoint read_n (fuel n : nat) (s : stream) : bytes * stream :=
  match fuel with
  | O => ([], s)
  | S f =>
      match n with
      | O => ([], s)
      | S _ =>
          match sread n s with
          | None => ([], s)
          | Some (got, s') =>
              let '(more, s'') := read_n f (n - length got) s' in (got ++ more, s'')
          end
      end
  end.

Definition read_full (n : nat) (s : stream) : bytes * stream := read_n n n s.

(* ---- proofs ---- *)

Lemma csize_pos h : (1 <= csize h)%nat.
Proof. unfold csize; lia. Qed.

Lemma sread_spec cap s got s' :
  (0 < cap)%nat -> sread cap s = Some (got, s') ->
  exists k, (1 <= k <= cap)%nat /\ (k <= length (snd s))%nat /\
            got = firstn k (snd s) /\ snd s' = skipn k (snd s).
Proof.
  intros Hc H. unfold sread in H. destruct s as [ch d]. cbn [fst snd] in *.
  destruct d as [|b d]; [discriminate|].
  destruct ch as [|h t].
  - injection H as <- <-. exists (Nat.min cap (length (b :: d))). cbn [snd length]. repeat split; lia.
  - injection H as <- <-. exists (Nat.min (Nat.min (csize h) cap) (length (b :: d))).
    pose proof (csize_pos h). cbn [snd length]. repeat split; lia.
Qed.

Lemma sread_none cap s : sread cap s = None <-> snd s = [].
Proof.
  unfold sread. destruct s as [ch d]; cbn [fst snd]. destruct d; [tauto|].
  destruct ch; split; discriminate.
Qed.

Lemma skipn_skipn_add {A} (a b : nat) (l : list A) : skipn a (skipn b l) = skipn (b + a) l.
Proof.
  revert l; induction b as [|b IH]; intros l; [reflexivity|].
  destruct l; [now rewrite !skipn_nil|]. cbn [skipn plus]. apply IH.
Qed.

Lemma firstn_split_add {A} (a b : nat) (l : list A) :
  firstn (a + b) l = firstn a l ++ firstn b (skipn a l).
Proof.
  revert l; induction a as [|a IH]; intros l; [reflexivity|].
  destruct l; [now rewrite !firstn_nil|]. cbn [firstn skipn plus app]. now rewrite IH.
Qed.

(* chunking independence *)
Theorem read_n_spec : forall fuel n s,
  (n <= fuel)%nat ->
  exists ch', read_n fuel n s = (firstn n (snd s), (ch', skipn n (snd s))).
Proof.
  induction fuel as [|f IH]; intros n s Hn.
  - assert (n = 0)%nat by lia. subst. destruct s as [ch d]. exists ch. reflexivity.
  - cbn [read_n]. destruct n as [|n'].
    + destruct s as [ch d]. exists ch. reflexivity.
    + destruct (sread (S n') s) as [[got s']|] eqn:E.
      * apply sread_spec in E as (k & Hk & Hkl & -> & Hs'); [|lia].
        destruct (IH (S n' - length (firstn k (snd s)))%nat s') as (ch' & R).
        { rewrite firstn_length. lia. }
        rewrite R. exists ch'. rewrite Hs'. rewrite firstn_length.
        replace (Nat.min k (length (snd s))) with k by lia.
        rewrite skipn_skipn_add.
        replace (k + (S n' - k))%nat with (S n') by lia.
        f_equal.
        replace (S n') with (k + (S n' - k))%nat at 2 by lia.
        now rewrite firstn_split_add.
      * apply sread_none in E. destruct s as [ch d]; cbn [snd] in *. subst d.
        exists ch. reflexivity.
Qed.

Corollary read_full_spec n s :
  exists ch', read_full n s = (firstn n (snd s), (ch', skipn n (snd s))).
Proof. apply read_n_spec. lia. Qed.

(* the two usual forms *)
Corollary read_full_app n ch a b :
  length a = n -> exists ch', read_full n (ch, a ++ b) = (a, (ch', b)).
Proof.
  intros H. destruct (read_full_spec n (ch, a ++ b)) as (ch' & R). exists ch'. rewrite R. cbn [snd].
  subst n. rewrite firstn_app, Nat.sub_diag, firstn_all, firstn_O, app_nil_r.
  rewrite skipn_app, Nat.sub_diag, skipn_all. reflexivity.
Qed.

Corollary read_full_short n ch d :
  (length d < n)%nat -> exists ch', read_full n (ch, d) = (d, (ch', [])).
Proof.
  intros H. destruct (read_full_spec n (ch, d)) as (ch' & R). exists ch'. rewrite R. cbn [snd].
  rewrite firstn_all2 by lia. rewrite skipn_all2 by lia. reflexivity.
Qed.

(* what is read does not depend on the chunking *)
Corollary read_full_chunking_independent n ch1 ch2 d :
  fst (read_full n (ch1, d)) = fst (read_full n (ch2, d)) /\
  snd (snd (read_full n (ch1, d))) = snd (snd (read_full n (ch2, d))).
Proof.
  destruct (read_full_spec n (ch1, d)) as (c1 & ->). destruct (read_full_spec n (ch2, d)) as (c2 & ->).
  split; reflexivity.
Qed.

Lemma read_full_length n s : (length (fst (read_full n s)) <= n)%nat.
Proof. destruct (read_full_spec n s) as (c & ->). cbn [fst]. rewrite firstn_length. lia. Qed.

(* ---- readers that report the end together with the last bytes ----
   The io.Reader contract allows the Read that delivers the last bytes of the
   stream to return the end error in the same call (n > 0, err = io.EOF;
   iotest.DataErrReader, quic-go streams).  read_n_de is the loop
       for n < min { nr, err := r.Read(buf[n:]); n += nr; if err != nil && n < min { return n, err } }
   (and io.ReadAtLeast, which stops on the error and clears it when n >= min)
   over such a reader: third component = the loop returned the error. *)
Definition exhausted (s : stream) : bool := match snd s with [] => true | _ => false end.

Fixpoint read_n_de (fuel n : nat) (s : stream) : bytes * stream * bool :=
  match fuel with
  | O => ([], s, (0 <? n)%nat)
  | S f =>
      match n with
      | O => ([], s, false)
      | S _ =>
          match sread n s with
          | None => ([], s, true)                       (* (0, EOF) *)
          | Some (got, s') =>
              if exhausted s' then                      (* this Read also returned EOF *)
                (got, s', negb (n - length got =? 0)%nat)
              else
                let '(more, s'', fl) := read_n_de f (n - length got) s' in (got ++ more, s'', fl)
          end
      end
  end.

Definition read_full_de (n : nat) (s : stream) : bytes * stream * bool := read_n_de n n s.

Lemma read_n_exhausted : forall fuel n s, exhausted s = true -> read_n fuel n s = ([], s).
Proof.
  intros fuel n s H. destruct fuel as [|f]; [reflexivity|]. cbn [read_n]. destruct n; [reflexivity|].
  assert (E : sread (S n) s = None).
  { apply sread_none. unfold exhausted in H. destruct (snd s); [reflexivity|discriminate]. }
  rewrite E. reflexivity.
Qed.

(* such a reader makes no difference: same bytes, same rest, and the loop fails
   exactly when fewer than n bytes exist *)
Theorem read_n_de_eq : forall fuel n s,
  (n <= fuel)%nat ->
  read_n_de fuel n s = (fst (read_n fuel n s), snd (read_n fuel n s), (length (fst (read_n fuel n s)) <? n)%nat).
Proof.
  induction fuel as [|f IH]; intros n s Hn.
  - assert (n = 0)%nat by lia. subst. reflexivity.
  - cbn [read_n_de read_n]. destruct n as [|n']; [reflexivity|].
    destruct (sread (S n') s) as [[got s1]|] eqn:E; [|reflexivity].
    pose proof E as E'. apply sread_spec in E' as (k & Hk & Hkl & Hg & Hs); [|lia].
    assert (Lg : length got = k) by (rewrite Hg, firstn_length; lia).
    destruct (exhausted s1) eqn:Ex.
    + rewrite (read_n_exhausted f _ s1 Ex). cbn [fst snd]. rewrite app_nil_r. f_equal.
      rewrite Lg. destruct (Nat.eqb_spec (S n' - k) 0), (Nat.ltb_spec k (S n')); cbn [negb]; try reflexivity; lia.
    + rewrite (IH (S n' - length got)%nat s1) by lia.
      destruct (read_n f (S n' - length got) s1) as [more s2]. cbn [fst snd]. f_equal.
      rewrite app_length, Lg.
      destruct (Nat.ltb_spec (length more) (S n' - k)), (Nat.ltb_spec (k + length more) (S n')); try reflexivity; lia.
Qed.

Corollary read_full_de_eq n s :
  read_full_de n s = (fst (read_full n s), snd (read_full n s), (length (fst (read_full n s)) <? n)%nat).
Proof. apply read_n_de_eq. lia. Qed.
