(* LEB128 unsigned varints as decoded by Go's encoding/binary.Uvarint and
   protobuf-go-lite ConsumeVarint (same accept set and value: at most ten
   bytes, the tenth at most 1; every failure is one error class here) and as
   encoded by binary.PutUvarint / AppendVarint (minimal encoding). *)
From Bifrost Require Import Lib.Base.

Inductive vres := VOk (v : Z) (n : nat) | VErr.

Fixpoint vdec (fuel : nat) (i : nat) (buf : bytes) : vres :=
  match fuel with
  | O => VErr
  | S f =>
      match buf with
      | [] => VErr
      | b :: rest =>
          if b <? 128 then
            (if Nat.eqb i 9 && (1 <? b) then VErr else VOk b 1)
          else
            match vdec f (S i) rest with
            | VOk v n => VOk (b - 128 + v * 128) (S n)
            | VErr => VErr
            end
      end
  end.

Definition varint_dec (buf : bytes) : vres := vdec 10 0 buf.

Fixpoint venc (fuel : nat) (v : Z) : bytes :=
  match fuel with
  | O => []
  | S f => if v <? 128 then [v] else (v mod 128 + 128) :: venc f (v / 128)
  end.

Definition varint_enc (v : Z) : bytes := venc 10 v.

Definition two64 : Z := 18446744073709551616.

Lemma pow_split i : (i <= 8)%nat ->
  2 ^ (64 - 7 * Z.of_nat i) = 128 * 2 ^ (64 - 7 * Z.of_nat (S i)).
Proof.
  intros H. replace (64 - 7 * Z.of_nat i) with (7 + (64 - 7 * Z.of_nat (S i))) by lia.
  rewrite Z.pow_add_r by lia. reflexivity.
Qed.

Lemma vdec_venc rest : forall f i v,
  (i + f = 10)%nat -> (0 < f)%nat -> 0 <= v < 2 ^ (64 - 7 * Z.of_nat i) ->
  vdec f i (venc f v ++ rest) = VOk v (length (venc f v)).
Proof.
  induction f as [|f IH]; intros i v Hif Hf Hv; [lia|].
  cbn [venc vdec]. destruct (v <? 128) eqn:E.
  - cbn [app vdec length]. rewrite E.
    destruct (Nat.eqb i 9) eqn:E9; cbn [andb]; [|reflexivity].
    apply Nat.eqb_eq in E9. subst i. replace (64 - 7 * Z.of_nat 9) with 1 in Hv by lia.
    destruct (1 <? v) eqn:E1; [lia|reflexivity].
  - assert (Hi : (i <= 8)%nat).
    { destruct (Nat.le_gt_cases i 8) as [|G]; [assumption|].
      assert (i = 9%nat) by lia. subst i.
      replace (64 - 7 * Z.of_nat 9) with 1 in Hv by lia. lia. }
    cbn [app vdec length].
    assert (Hb : (v mod 128 + 128 <? 128) = false) by (pose proof (Z.mod_pos_bound v 128); lia).
    rewrite Hb. rewrite IH; try lia.
    + f_equal. pose proof (Z.div_mod v 128). lia.
    + rewrite (pow_split i Hi) in Hv. split; [apply Z.div_pos; lia|].
      apply Z.div_lt_upper_bound; lia.
Qed.

Theorem varint_roundtrip v rest :
  0 <= v < two64 ->
  varint_dec (varint_enc v ++ rest) = VOk v (length (varint_enc v)).
Proof. intros H. apply vdec_venc; cbn; unfold two64 in *; lia. Qed.

Lemma venc_length_pos f v : (0 < f)%nat -> (1 <= length (venc f v))%nat.
Proof. destruct f; [lia|]. intros _. cbn. destruct (v <? 128); cbn; lia. Qed.

Lemma venc_length_le f v : (length (venc f v) <= f)%nat.
Proof. revert v; induction f; intros v; cbn; [lia|]. destruct (v <? 128); cbn; [lia|]. specialize (IHf (v/128)). lia. Qed.

Lemma venc_bytes f v : 0 <= v -> all_bytes (venc f v) = true.
Proof.
  revert v; induction f as [|f IH]; intros v Hv; cbn; [reflexivity|].
  destruct (v <? 128) eqn:E; cbn.
  - unfold is_byte. lia.
  - rewrite IH by (apply Z.div_pos; lia). unfold is_byte.
    pose proof (Z.mod_pos_bound v 128). lia.
Qed.

(* What the decoder accepts: n is at least 1, at most the buffer, at most 10;
   the result only depends on the first n bytes. *)
Lemma vdec_n f : forall i buf v n,
  vdec f i buf = VOk v n -> (1 <= n <= f)%nat /\ (n <= length buf)%nat.
Proof.
  induction f as [|f IH]; intros i buf v n H; cbn [vdec] in H; [discriminate|].
  destruct buf as [|b rest]; [discriminate|].
  destruct (b <? 128).
  - destruct (Nat.eqb i 9 && (1 <? b)); inversion H; subst; cbn; lia.
  - destruct (vdec f (S i) rest) as [v' n'|] eqn:E; [|discriminate].
    inversion H; subst. apply IH in E. cbn. lia.
Qed.

Lemma vdec_prefix f : forall i buf v n y,
  vdec f i buf = VOk v n -> vdec f i (firstn n buf ++ y) = VOk v n.
Proof.
  induction f as [|f IH]; intros i buf v n y H; cbn [vdec] in H; [discriminate|].
  destruct buf as [|b rest]; [discriminate|].
  destruct (b <? 128) eqn:Eb.
  - destruct (Nat.eqb i 9 && (1 <? b)) eqn:E9; inversion H; subst.
    cbn. rewrite Eb, E9. reflexivity.
  - destruct (vdec f (S i) rest) as [v' n'|] eqn:E; [|discriminate].
    inversion H; subst. cbn [firstn app vdec]. rewrite Eb.
    rewrite (IH _ _ _ _ y E). reflexivity.
Qed.

Lemma vdec_value f : forall i buf v n,
  all_bytes buf = true -> vdec f i buf = VOk v n -> 0 <= v < 2 ^ (7 * Z.of_nat n).
Proof.
  induction f as [|f IH]; intros i buf v n Hb H; cbn [vdec] in H; [discriminate|].
  destruct buf as [|b rest]; [discriminate|].
  unfold all_bytes in Hb. cbn [forallb] in Hb. apply andb_true_iff in Hb as [Hb1 Hb2]. unfold is_byte in Hb1.
  fold (all_bytes rest) in Hb2.
  destruct (b <? 128) eqn:Eb.
  - destruct (Nat.eqb i 9 && (1 <? b)); [discriminate|]. injection H as <- <-.
    change (2 ^ (7 * Z.of_nat 1)) with 128. lia.
  - destruct (vdec f (S i) rest) as [v' n'|] eqn:E; [|discriminate].
    injection H as <- <-. specialize (IH _ _ _ _ Hb2 E).
    replace (7 * Z.of_nat (S n')) with (7 + 7 * Z.of_nat n') by lia.
    rewrite Z.pow_add_r by lia. change (2 ^ 7) with 128.
    set (X := 2 ^ (7 * Z.of_nat n')) in *. clearbody X. lia.
Qed.

(* same prefix, same decoding: two buffers that start with the same n bytes *)
Lemma varint_dec_app_inv a x c y v n v' n' :
  varint_dec (a ++ x) = VOk v n -> varint_dec (c ++ y) = VOk v' n' ->
  a ++ x = c ++ y -> v = v' /\ n = n'.
Proof. intros H1 H2 E. rewrite E in H1. rewrite H1 in H2. inversion H2; auto. Qed.
