(* Proofs about the generic wire decoder of Lib/Proto.v, for ANY descriptor:
     decode_no_panic   : never Panic (every index / slice operation in range)
     decode_fuel_ok    : the fuel (input length + 1) is never exhausted
     decode_alloc      : the byte strings produced sum to <= input length, and
                         the number of field values is <= input length
   The only premise is that the input is shorter than 2^63 bytes (a Go slice). *)
From Bifrost Require Import Lib.Base Lib.Varint Lib.Proto.

(* ---- specification combinator: no Panic, no fuel error, P on success ---- *)
Definition ospec {A} (P : A -> Prop) (o : outcome A) : Prop :=
  match o with Ok a => P a | Err k => k <> E_FUEL | Panic => False end.

Lemma ospec_bind {A B} (P : A -> Prop) (Q : B -> Prop) o (f : A -> outcome B) :
  ospec P o -> (forall a, P a -> ospec Q (f a)) -> ospec Q (obind o f).
Proof. destruct o; cbn; auto. Qed.

Lemma ospec_weaken {A} (P Q : A -> Prop) o : ospec P o -> (forall a, P a -> Q a) -> ospec Q o.
Proof. destruct o; cbn; auto. Qed.

Lemma ospec_err {A} (P : A -> Prop) k : k <> E_FUEL -> ospec P (@Err A k).
Proof. auto. Qed.

Lemma ospec_ok {A} (P : A -> Prop) a : P a -> ospec P (Ok a).
Proof. auto. Qed.

Ltac err := apply ospec_err; unfold E_EOF, E_OVERFLOW, E_INVLEN, E_ENDGROUP, E_OTHER, E_FUEL; lia.

(* ---- Go integers ---- *)
Lemma to_int64_range z : - two63 <= to_int64 z < two63.
Proof.
  unfold to_int64. cbv zeta.
  assert (H : 0 <= z mod two64 < two64) by (apply Z.mod_pos_bound; unfold two64; lia).
  destruct (Z.ltb_spec (z mod two64) two63); unfold two63, two64 in *; lia.
Qed.

Lemma to_int64_small z : 0 <= z < two63 -> to_int64 z = z.
Proof.
  intros H. unfold to_int64. cbv zeta.
  rewrite Z.mod_small by (unfold two63, two64 in *; lia).
  destruct (Z.ltb_spec z two63); lia.
Qed.

Lemma to_int64_big z : two63 <= z < two64 -> to_int64 z = z - two64.
Proof.
  intros H. unfold to_int64. cbv zeta.
  rewrite Z.mod_small by (unfold two63, two64 in *; lia).
  destruct (Z.ltb_spec z two63); lia.
Qed.

(* a sum of a valid index and a non-negative int, taken as an int: itself or negative *)
Lemma to_int64_sum a : 0 <= a < two64 -> 0 <= to_int64 a ->
  to_int64 a = a.
Proof.
  intros H H0. destruct (Z_lt_ge_dec a two63); [apply to_int64_small; lia|].
  rewrite to_int64_big in H0 by lia. unfold two63, two64 in *; lia.
Qed.

(* ---- slices ---- *)
Lemma len_nonneg b : 0 <= len b.
Proof. unfold len; lia. Qed.

Lemma len_skipn n (b : bytes) : (n <= length b)%nat -> len (skipn n b) = len b - Z.of_nat n.
Proof. intros H. unfold len. rewrite skipn_length. lia. Qed.

Lemma drop_z_spec buf i : 0 <= i <= len buf ->
  ospec (fun r => len r = len buf - i) (drop_z buf i).
Proof.
  intros H. unfold drop_z.
  destruct (Z.leb_spec 0 i); [|lia]. destruct (Z.leb_spec i (len buf)); [|lia].
  cbn. rewrite len_skipn by (unfold len in *; lia). lia.
Qed.

Lemma slice_z_spec buf i j : 0 <= i -> i <= j -> j <= len buf ->
  ospec (fun r => len r = j - i) (slice_z buf i j).
Proof.
  intros H1 H2 H3. unfold slice_z.
  destruct (Z.leb_spec 0 i); [|lia]. destruct (Z.leb_spec i j); [|lia].
  destruct (Z.leb_spec j (len buf)); [|lia].
  cbn. unfold len in *. rewrite firstn_length, skipn_length. lia.
Qed.

(* ---- strict varint ---- *)
Lemma decode_varint_spec buf i : 0 <= i <= len buf ->
  ospec (fun p => i < snd p <= len buf) (decode_varint buf i).
Proof.
  intros H. unfold decode_varint.
  eapply ospec_bind; [apply drop_z_spec; exact H|].
  intros rest Hr. cbv beta.
  destruct (varint_dec rest) as [v n|] eqn:E.
  - apply vdec_n in E. cbn [ospec snd]. unfold len in *. lia.
  - unfold varint_err_class. destruct (_ && _); err.
Qed.

Lemma decode_len_spec buf i : 0 <= i <= len buf -> len buf < two63 ->
  ospec (fun q => i < fst q /\ fst q <= snd q /\ snd q <= len buf) (decode_len buf i).
Proof.
  intros Hi Hl. unfold decode_len.
  eapply ospec_bind; [apply decode_varint_spec; exact Hi|].
  intros [v i2] H. cbn [fst snd] in H. cbv beta iota zeta.
  pose proof (to_int64_range v) as Hn.
  destruct (Z.ltb_spec (to_int64 v) 0); [err|].
  destruct (Z.ltb_spec (to_int64 (i2 + to_int64 v)) 0); [err|].
  destruct (Z.ltb_spec (len buf) (to_int64 (i2 + to_int64 v))); [err|].
  apply ospec_ok. cbn [fst snd].
  assert (E : to_int64 (i2 + to_int64 v) = i2 + to_int64 v)
    by (apply to_int64_sum; unfold two63, two64 in *; lia).
  rewrite E in *. lia.
Qed.

Lemma dec_packed_spec s buf post : post <= len buf ->
  forall fuel i, 0 <= i <= len buf -> Z.max 0 (post - i) < Z.of_nat fuel ->
  ospec (fun r => i <= snd r <= len buf /\ len (fst r) <= snd r - i) (dec_packed fuel s buf i post).
Proof.
  intros Hp. induction fuel as [|f IH]; intros i Hi Hf; [lia|].
  cbn [dec_packed]. destruct (Z.ltb_spec i post).
  - eapply ospec_bind; [apply decode_varint_spec; lia|].
    intros [v i'] H1. cbn [fst snd] in *.
    eapply ospec_bind; [apply IH; lia|].
    intros [vs i''] [H3 H4]. cbn [fst snd] in *.
    apply ospec_ok. cbn [fst snd]. unfold len in *. cbn [length]. lia.
  - apply ospec_ok. cbn [fst snd]. unfold len in *. cbn [length]. lia.
Qed.

Lemma packed_count_le sl : 0 <= packed_count sl <= len sl.
Proof.
  unfold packed_count, len. split; [lia|].
  induction sl as [|b sl IH]; cbn [filter length]; [lia|].
  destruct (b <? 128); cbn [length]; lia.
Qed.

(* ---- Skip ---- *)
Lemma get_z_in buf i : 0 <= i < len buf -> get_z buf i = Ok (nth (Z.to_nat i) buf 0).
Proof.
  intros H. unfold get_z.
  destruct (Z.leb_spec 0 i); [|lia]. destruct (Z.ltb_spec i (len buf)); [|lia]. reflexivity.
Qed.

Lemma lax_loop_spec buf : forall k i sh acc, 0 <= i ->
  ospec (fun p => i < snd p <= len buf) (lax_loop k buf i sh acc).
Proof.
  induction k as [|k IH]; intros i sh acc Hi; cbn [lax_loop]; [err|].
  destruct (Z.leb_spec (len buf) i); [err|].
  rewrite get_z_in by lia. cbn [obind]. cbv zeta.
  destruct (_ <? 128).
  - apply ospec_ok. cbn [snd]. lia.
  - eapply ospec_weaken; [apply IH; lia|]. intros [v i'] H'. cbn [snd] in *. lia.
Qed.

Lemma skip_step_spec buf i depth : 0 <= i -> len buf < two63 -> 0 <= depth ->
  ospec (fun r => (fst r < 0 \/ i < fst r) /\ (fst r < two63 \/ fst r <= len buf + 8) /\ 0 <= snd r)
        (skip_step buf i depth).
Proof.
  intros Hi Hl Hd. unfold skip_step, lax_varint.
  eapply ospec_bind; [apply lax_loop_spec; exact Hi|].
  intros [wire i1] H1. cbn [snd] in H1. cbv beta iota zeta.
  destruct (Z.eqb_spec (wire mod 8) 0).
  { eapply ospec_bind; [apply lax_loop_spec; lia|].
    intros [v i2] H2. cbn [snd] in *. apply ospec_ok. cbn [fst snd]. lia. }
  destruct (Z.eqb_spec (wire mod 8) 1).
  { apply ospec_ok. cbn [fst snd]. lia. }
  destruct (Z.eqb_spec (wire mod 8) 2).
  { eapply ospec_bind; [apply lax_loop_spec; lia|].
    intros [v i2] H2. cbn [fst snd] in *.
    pose proof (to_int64_range v) as Hn.
    destruct (Z.ltb_spec (to_int64 v) 0); [err|].
    apply ospec_ok. cbn [fst snd].
    pose proof (to_int64_range (i2 + to_int64 v)) as Hr.
    destruct (Z_lt_ge_dec (to_int64 (i2 + to_int64 v)) 0) as [L|G]; [lia|].
    assert (E : to_int64 (i2 + to_int64 v) = i2 + to_int64 v)
      by (apply to_int64_sum; unfold two63, two64 in *; lia).
    rewrite E in *. lia. }
  destruct (Z.eqb_spec (wire mod 8) 3).
  { apply ospec_ok. cbn [fst snd]. lia. }
  destruct (Z.eqb_spec (wire mod 8) 4).
  { destruct (Z.eqb_spec depth 0); [err|]. apply ospec_ok. cbn [fst snd]. lia. }
  destruct (Z.eqb_spec (wire mod 8) 5).
  { apply ospec_ok. cbn [fst snd]. lia. }
  err.
Qed.

Lemma skip_loop_spec buf : len buf < two63 ->
  forall fuel i depth, 0 <= i -> 0 <= depth -> Z.max 0 (len buf - i) < Z.of_nat fuel ->
  ospec (fun r => i < r /\ (r < two63 \/ r <= len buf + 8)) (skip_loop fuel buf i depth).
Proof.
  intros Hl. induction fuel as [|f IH]; intros i depth Hi Hd Hf; [lia|].
  cbn [skip_loop]. destruct (Z.leb_spec (len buf) i); [err|].
  eapply ospec_bind; [apply skip_step_spec; assumption|].
  intros [i' d'] [H1 [H2 H3]]. cbn [fst snd] in *. cbv beta iota.
  destruct (Z.ltb_spec i' 0); [err|].
  destruct (Z.eqb_spec d' 0).
  - apply ospec_ok. lia.
  - eapply ospec_weaken; [apply IH; lia|]. cbv beta. intros r Hr. lia.
Qed.

Lemma skip_spec buf : len buf < two63 ->
  ospec (fun r => 0 < r /\ (r < two63 \/ r <= len buf + 8)) (skip buf).
Proof.
  intros Hl. unfold skip. apply skip_loop_spec; try lia. unfold len. lia.
Qed.

(* ---- size measures ---- *)
Lemma fsize_msg fn r : fsize (FMsg fn r) = tsize r.
Proof. reflexivity. Qed.

Lemma fcount_msg fn r : fcount (FMsg fn r) = 1 + tcount r.
Proof. reflexivity. Qed.

Lemma tsize_app a b : tsize (a ++ b) = tsize a + tsize b.
Proof. induction a as [|x a IH]; cbn [app tsize]; [lia|]. rewrite IH. lia. Qed.

Lemma tcount_app a b : tcount (a ++ b) = tcount a + tcount b.
Proof. induction a as [|x a IH]; cbn [app tcount]; [lia|]. rewrite IH. lia. Qed.

Lemma tsize_map_var fn vs : tsize (map (FVar fn) vs) = 0.
Proof. induction vs as [|v vs IH]; cbn [map tsize fsize]; lia. Qed.

Lemma tcount_map_var fn vs : tcount (map (FVar fn) vs) = Z.of_nat (length vs).
Proof. induction vs as [|v vs IH]; cbn [map tcount fcount length]; lia. Qed.

Fixpoint fsize_nonneg (v : fval) : 0 <= fsize v.
Proof.
  destruct v as [fn v|fn b|fn sub|raw]; cbn [fsize]; try (unfold len; lia).
  induction sub as [|x sub IH]; [lia|]. pose proof (fsize_nonneg x). lia.
Qed.

Lemma tsize_nonneg l : 0 <= tsize l.
Proof. induction l as [|x l IH]; cbn [tsize]; [lia|]. pose proof (fsize_nonneg x). lia. Qed.

(* ---- one field ---- *)
Definition rec_ok (rec : desc -> bytes -> outcome (list fval)) (bound : Z) : Prop :=
  forall d' sub, len sub <= bound ->
    ospec (fun r => tsize r <= len sub /\ tcount r <= len sub) (rec d' sub).

Lemma field_step_spec fuel rec d buf i :
  0 <= i < len buf -> len buf < two63 -> len buf - i <= Z.of_nat fuel ->
  rec_ok rec (len buf - i - 2) ->
  ospec (fun r => i < snd r <= len buf /\ tsize (fst r) <= snd r - i /\ tcount (fst r) <= snd r - i)
        (field_step fuel rec d buf i).
Proof.
  intros Hi Hl Hf Hrec. unfold field_step.
  eapply ospec_bind; [apply decode_varint_spec; lia|].
  intros [wire i1] H1. cbn [snd] in H1. cbv beta iota zeta.
  destruct (wire mod 8 =? 4); [err|].
  destruct (to_int32 (wire / 8) <=? 0); [err|].
  set (fn := to_int32 (wire / 8)).
  destruct (find_field d fn) as [[lab [s| |d']]|].
  - (* scalar *)
    destruct (wire mod 8 =? 0).
    { eapply ospec_bind; [apply decode_varint_spec; lia|].
      intros [v i2] H2. cbn [fst snd] in *. cbv beta in *. apply ospec_ok. cbn [fst snd tsize tcount fsize fcount]. lia. }
    destruct ((wire mod 8 =? 2) && is_repeated lab); [|err].
    eapply ospec_bind; [apply decode_len_spec; lia|].
    intros [i2 post] [H2 [H3 H4]]. cbn [fst snd] in *. cbv beta iota.
    eapply ospec_bind; [apply slice_z_spec; lia|]. intros sl Hsl. cbv beta in *.
    eapply ospec_bind; [apply (dec_packed_spec s buf post H4 fuel i2); lia|].
    intros [vs i3] [H5 H6]. cbn [fst snd] in *.
    cbv beta in *. apply ospec_ok. cbn [fst snd]. rewrite tsize_map_var, tcount_map_var. unfold len in *. lia.
  - (* bytes / string *)
    destruct (wire mod 8 =? 2); [|err].
    eapply ospec_bind; [apply decode_len_spec; lia|].
    intros [i2 post] [H2 [H3 H4]]. cbn [fst snd] in *. cbv beta iota.
    eapply ospec_bind; [apply slice_z_spec; lia|]. intros b Hb. cbv beta in *.
    cbv beta in *. apply ospec_ok. cbn [fst snd tsize tcount fsize fcount]. lia.
  - (* nested message *)
    destruct (wire mod 8 =? 2); [|err].
    eapply ospec_bind; [apply decode_len_spec; lia|].
    intros [i2 post] [H2 [H3 H4]]. cbn [fst snd] in *. cbv beta iota.
    eapply ospec_bind; [apply slice_z_spec; lia|]. intros sub Hsub. cbv beta in *.
    eapply ospec_bind; [apply (Hrec d' sub); lia|]. intros r [Hr1 Hr2].
    cbv beta in *. apply ospec_ok. cbn [fst snd tsize tcount]. rewrite fsize_msg, fcount_msg. lia.
  - (* unknown field: Skip *)
    eapply ospec_bind; [apply drop_z_spec; lia|]. intros rest Hrest. cbv beta in *.
    eapply ospec_bind; [apply skip_spec; lia|]. intros skippy [Hs1 Hs2]. cbv beta.
    destruct (Z.ltb_spec skippy 0); cbn [orb]; [err|].
    destruct (Z.ltb_spec (to_int64 (i + skippy)) 0); [err|].
    destruct (Z.ltb_spec (len buf) (to_int64 (i + skippy))); [err|].
    assert (E : to_int64 (i + skippy) = i + skippy)
      by (apply to_int64_sum; unfold two63, two64 in *; lia).
    rewrite E in *.
    eapply ospec_bind; [apply slice_z_spec; lia|]. intros raw Hraw. cbv beta in *.
    cbv beta in *. apply ospec_ok. cbn [fst snd tsize tcount fsize fcount]. lia.
Qed.

(* ---- the field loop ---- *)
Lemma dec_fields_spec : forall fuel d buf i,
  0 <= i <= len buf -> len buf < two63 -> len buf - i < Z.of_nat fuel ->
  ospec (fun r => tsize r <= len buf - i /\ tcount r <= len buf - i) (dec_fields fuel d buf i).
Proof.
  induction fuel as [|f IH]; intros d buf i Hi Hl Hf; [lia|].
  cbn [dec_fields]. destruct (Z.leb_spec (len buf) i).
  - destruct (Z.ltb_spec (len buf) i); [lia|]. apply ospec_ok. cbn [tsize tcount]. lia.
  - eapply ospec_bind.
    { apply (field_step_spec f (fun d' sub => dec_fields f d' sub 0) d buf i); try lia.
      intros d' sub Hsub. eapply ospec_weaken; [apply IH; try lia; pose proof (len_nonneg sub); lia|].
      cbv beta. intros r Hr. lia. }
    intros [evs i'] [H1 [H2 H3]]. cbn [fst snd] in *.
    eapply ospec_bind; [apply IH; lia|]. intros rest [H4 H5].
    apply ospec_ok. rewrite tsize_app, tcount_app. lia.
Qed.

(* ---- theorems about UnmarshalVT for any descriptor ---- *)
Theorem decode_spec d buf : len buf < two63 ->
  ospec (fun r => tsize r <= len buf /\ tcount r <= len buf) (decode d buf).
Proof.
  intros Hl. unfold decode. eapply ospec_weaken.
  - apply dec_fields_spec; try lia. + pose proof (len_nonneg buf); lia. + unfold len; lia.
  - cbv beta. intros r Hr. lia.
Qed.

Theorem decode_no_panic d buf : len buf < two63 -> decode d buf <> Panic.
Proof. intros Hl E. pose proof (decode_spec d buf Hl) as H. rewrite E in H. exact H. Qed.

Theorem decode_fuel_ok d buf : len buf < two63 -> decode d buf <> Err E_FUEL.
Proof. intros Hl E. pose proof (decode_spec d buf Hl) as H. rewrite E in H. apply H. reflexivity. Qed.

Theorem decode_alloc d buf t : len buf < two63 -> decode d buf = Ok t ->
  0 <= tsize t <= len buf /\ tcount t <= len buf.
Proof.
  intros Hl E. pose proof (decode_spec d buf Hl) as H. rewrite E in H. cbn [ospec] in H.
  pose proof (tsize_nonneg t). lia.
Qed.
