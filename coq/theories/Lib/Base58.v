(* Base58 (bitcoin alphabet) at specification level: the leading zero bytes are
   kept one-for-one as leading '1' characters and the rest is the big-endian
   number re-written in the other base.  This is the specification of
   github.com/mr-tron/base58 (Encode = FastBase58Encoding, Decode =
   FastBase58Decoding); that third-party code is tied to this specification by
   the sampled correspondence only.

   Text is a byte string (list Z) of ASCII codes. *)
From Bifrost Require Import Lib.Base.

(* ---------- positional digits, least significant first ---------- *)

Fixpoint value_le (B : Z) (l : list Z) : Z :=
  match l with
  | [] => 0
  | d :: l' => d + value_le B l' * B
  end.

(* quotient and remainder with one traversal; base 256 by shifting (fast under vm_compute) *)
Definition divmod (B n : Z) : Z * Z :=
  if B =? 256 then (Z.shiftr n 8, Z.land n 255) else Z.div_eucl n B.

Fixpoint digits_le (B : Z) (fuel : nat) (n : Z) : list Z :=
  match fuel with
  | O => []
  | S f => if n <=? 0 then [] else let (q, r) := divmod B n in r :: digits_le B f q
  end.

Lemma divmod_spec B n : 0 <= n -> divmod B n = (n / B, n mod B).
Proof.
  intros Hn. unfold divmod. destruct (B =? 256) eqn:E.
  - apply Z.eqb_eq in E. subst B. f_equal.
    + rewrite Z.shiftr_div_pow2 by lia. reflexivity.
    + change 255 with (Z.ones 8). rewrite Z.land_ones by lia. reflexivity.
  - unfold Z.div, Z.modulo. destruct (Z.div_eucl n B). reflexivity.
Qed.

Lemma digits_le_S B f n : 0 < n -> digits_le B (S f) n = (n mod B) :: digits_le B f (n / B).
Proof.
  intros Hn. cbn [digits_le]. destruct (n <=? 0) eqn:E; [lia|].
  rewrite divmod_spec by lia. reflexivity.
Qed.

Lemma digits_le_S0 B f n : n <= 0 -> digits_le B (S f) n = [].
Proof. intros Hn. cbn [digits_le]. destruct (n <=? 0) eqn:E; [reflexivity|lia]. Qed.

(* enough fuel for any base >= 2: one more than the number of bits *)
Definition fuel_of (n : Z) : nat := S (Z.to_nat (Z.log2 n)).
Definition digits (B n : Z) : list Z := digits_le B (fuel_of n) n.

Definition digit_ok (B d : Z) : Prop := 0 <= d < B.

(* no leading zero in big-endian = last element non-zero in little-endian *)
Definition trimmed (l : list Z) : Prop := l = [] \/ last l 0 <> 0.

Lemma value_le_nonneg B l : 2 <= B -> Forall (digit_ok B) l -> 0 <= value_le B l.
Proof.
  intros HB H; induction H as [|d l Hd _ IH]; cbn [value_le]; [lia|].
  unfold digit_ok in Hd. nia.
Qed.

Lemma value_le_pos B l :
  2 <= B -> Forall (digit_ok B) l -> l <> [] -> last l 0 <> 0 -> 0 < value_le B l.
Proof.
  intros HB H; induction H as [|d l Hd Hl IH]; intros Hne Hlast; [congruence|].
  cbn [value_le]. unfold digit_ok in Hd.
  destruct l as [|e l'].
  - cbn in Hlast. cbn [value_le]. lia.
  - assert (0 < value_le B (e :: l')) by (apply IH; [discriminate|exact Hlast]). nia.
Qed.

Lemma digits_le_value B : 2 <= B -> forall f n,
  0 <= n < 2 ^ Z.of_nat f -> value_le B (digits_le B f n) = n.
Proof.
  intros HB; induction f as [|f IH]; intros n Hn.
  - cbn in Hn. cbn. lia.
  - destruct (Z_le_gt_dec n 0) as [L|G]; [rewrite digits_le_S0 by lia; cbn; lia|].
    rewrite digits_le_S by lia.
    cbn [value_le]. rewrite IH.
    + pose proof (Z.div_mod n B). lia.
    + split; [apply Z.div_pos; lia|].
      rewrite Nat2Z.inj_succ, Z.pow_succ_r in Hn by lia.
      apply Z.div_lt_upper_bound; [lia|].
      set (X := 2 ^ Z.of_nat f) in *. clearbody X. nia.
Qed.

Lemma digits_le_ok B : 2 <= B -> forall f n, 0 <= n -> Forall (digit_ok B) (digits_le B f n).
Proof.
  intros HB; induction f as [|f IH]; intros n Hn; [constructor|].
  destruct (Z_le_gt_dec n 0) as [L|G]; [rewrite digits_le_S0 by lia; constructor|].
  rewrite digits_le_S by lia. constructor.
  - unfold digit_ok. apply Z.mod_pos_bound. lia.
  - apply IH. apply Z.div_pos; lia.
Qed.

Lemma value_le_digits B : 2 <= B -> forall l f,
  Forall (digit_ok B) l -> trimmed l -> value_le B l < 2 ^ Z.of_nat f ->
  digits_le B f (value_le B l) = l.
Proof.
  intros HB; induction l as [|d l IH]; intros f Hok Htr Hv.
  - cbn. destruct f; reflexivity.
  - inversion Hok as [|? ? Hd Hl]; subst. unfold digit_ok in Hd.
    assert (Hpos : 0 < value_le B (d :: l)).
    { apply value_le_pos; auto; [discriminate|]. destruct Htr; [discriminate|assumption]. }
    destruct f as [|f]; [change (2 ^ Z.of_nat 0) with 1 in Hv; lia|].
    rewrite digits_le_S by lia.
    cbn [value_le] in *.
    pose proof (value_le_nonneg B l HB Hl) as Hnn.
    assert (Hm : (d + value_le B l * B) mod B = d).
    { rewrite Z.mod_add by lia. apply Z.mod_small; lia. }
    assert (Hq : (d + value_le B l * B) / B = value_le B l).
    { rewrite Z.div_add by lia. rewrite Z.div_small; lia. }
    rewrite Hm, Hq. f_equal. apply IH; auto.
    + destruct l as [|e l']; [left; reflexivity|right].
      destruct Htr as [?|Htr]; [discriminate|exact Htr].
    + rewrite Nat2Z.inj_succ, Z.pow_succ_r in Hv by lia.
      set (X := 2 ^ Z.of_nat f) in *. clearbody X. nia.
Qed.

Lemma fuel_of_enough n : 0 <= n -> n < 2 ^ Z.of_nat (fuel_of n).
Proof.
  intros Hn. unfold fuel_of. rewrite Nat2Z.inj_succ, Z2Nat.id by apply Z.log2_nonneg.
  destruct (Z.eq_dec n 0) as [->|Hne]; [cbn; lia|].
  apply Z.log2_spec. lia.
Qed.

Lemma digits_value B n : 2 <= B -> 0 <= n -> value_le B (digits B n) = n.
Proof. intros HB Hn. apply digits_le_value; auto. split; [lia|apply fuel_of_enough; lia]. Qed.

Lemma value_digits B l : 2 <= B -> Forall (digit_ok B) l -> trimmed l ->
  digits B (value_le B l) = l.
Proof.
  intros HB Hok Htr. apply value_le_digits; auto.
  apply fuel_of_enough. apply value_le_nonneg; auto.
Qed.

Lemma digits_ok B n : 2 <= B -> 0 <= n -> Forall (digit_ok B) (digits B n).
Proof. intros; apply digits_le_ok; auto. Qed.

Lemma digits_le_trimmed B : 2 <= B -> forall f n, 0 <= n < 2 ^ Z.of_nat f -> trimmed (digits_le B f n).
Proof.
  intros HB; induction f as [|f IH]; intros n Hn; [left; reflexivity|].
  destruct (Z_le_gt_dec n 0) as [L|G]; [rewrite digits_le_S0 by lia; left; reflexivity|].
  rewrite digits_le_S by lia. right.
  assert (Hq : 0 <= n / B < 2 ^ Z.of_nat f).
  { split; [apply Z.div_pos; lia|].
    rewrite Nat2Z.inj_succ, Z.pow_succ_r in Hn by lia.
    apply Z.div_lt_upper_bound; [lia|].
    set (X := 2 ^ Z.of_nat f) in *. clearbody X. nia. }
  destruct (digits_le B f (n / B)) as [|e l'] eqn:Ed.
  - (* quotient has no digits: quotient is 0, so the digit is n itself *)
    cbn. pose proof (digits_le_value B HB f (n / B) Hq) as Hv. rewrite Ed in Hv. cbn in Hv.
    pose proof (Z.div_mod n B). lia.
  - specialize (IH (n / B) Hq). rewrite Ed in IH. destruct IH as [?|IH]; [discriminate|].
    exact IH.
Qed.

Lemma digits_trimmed B n : 2 <= B -> 0 <= n -> trimmed (digits B n).
Proof. intros HB Hn. apply digits_le_trimmed; auto. split; [lia|apply fuel_of_enough; lia]. Qed.

(* ---------- leading zeros ---------- *)

Fixpoint lead0 (l : list Z) : nat :=
  match l with
  | 0 :: l' => S (lead0 l')
  | _ => O
  end.

Lemma lead0_split l : l = repeat 0 (lead0 l) ++ skipn (lead0 l) l.
Proof.
  induction l as [|x l IH]; [reflexivity|].
  destruct x; cbn; try reflexivity. f_equal. exact IH.
Qed.

Lemma lead0_rest l : match skipn (lead0 l) l with [] => True | x :: _ => x <> 0 end.
Proof.
  induction l as [|x l IH]; [exact I|].
  destruct x; cbn; try exact IH; discriminate.
Qed.

Lemma lead0_app z r : match r with [] => True | x :: _ => x <> 0 end ->
  lead0 (repeat 0 z ++ r) = z /\ skipn z (repeat 0 z ++ r) = r.
Proof.
  intros Hr. induction z as [|z IH]; cbn.
  - split; [|reflexivity]. destruct r as [|x r]; [reflexivity|]. destruct x; try reflexivity. congruence.
  - destruct IH as [-> ->]. split; reflexivity.
Qed.

(* big-endian trimmed list <-> little-endian trimmed *)
Lemma rev_trimmed r : match r with [] => True | x :: _ => x <> 0 end -> trimmed (rev r).
Proof.
  destruct r as [|x r]; intros H; [left; reflexivity|right].
  cbn [rev]. rewrite last_last. exact H.
Qed.

Lemma trimmed_rev l : trimmed l -> match rev l with [] => True | x :: _ => x <> 0 end.
Proof.
  intros [->|H]; [exact I|].
  destruct l as [|a l'] using rev_ind; [exact I|].
  rewrite rev_app_distr. cbn. rewrite last_last in H. exact H.
Qed.

(* ---------- generic re-basing with the leading-zero rule ---------- *)

Lemma in_skipn' {A} (x : A) n l : In x (skipn n l) -> In x l.
Proof.
  revert l; induction n as [|n IH]; intros l H; [exact H|].
  destruct l as [|y l]; [exact H|]. right. apply IH. exact H.
Qed.

(* from base A digits (big-endian) to base B digits (big-endian) *)
Definition rebase (A B : Z) (l : list Z) : list Z :=
  let z := lead0 l in
  repeat 0 z ++ rev (digits B (value_le A (rev (skipn z l)))).

Lemma rebase_roundtrip A B l : 2 <= A -> 2 <= B -> Forall (digit_ok A) l ->
  rebase B A (rebase A B l) = l.
Proof.
  intros HA HB Hok. unfold rebase at 2.
  set (z := lead0 l). set (r := skipn z l).
  assert (Hr : match r with [] => True | x :: _ => x <> 0 end) by apply lead0_rest.
  assert (Hokr : Forall (digit_ok A) (rev r)).
  { apply Forall_rev. unfold r. apply Forall_forall. intros x Hx.
    eapply Forall_forall in Hok; [exact Hok|]. eapply in_skipn'; eauto. }
  set (n := value_le A (rev r)).
  assert (Hn : 0 <= n) by (apply value_le_nonneg; auto).
  set (ds := rev (digits B n)).
  assert (Hds : match ds with [] => True | x :: _ => x <> 0 end).
  { apply trimmed_rev. apply digits_trimmed; auto. }
  unfold rebase. destruct (lead0_app z ds Hds) as [-> ->].
  unfold ds. rewrite rev_involutive. rewrite digits_value by auto.
  unfold n. rewrite value_digits; auto; [|apply rev_trimmed; exact Hr].
  rewrite rev_involutive. unfold r, z. symmetry. apply lead0_split.
Qed.

Lemma rebase_ok A B l : 2 <= A -> 2 <= B -> Forall (digit_ok A) l -> Forall (digit_ok B) (rebase A B l).
Proof.
  intros HA HB Hok. unfold rebase. apply Forall_app; split.
  - apply Forall_forall. intros x Hx. apply repeat_spec in Hx. subst. unfold digit_ok. lia.
  - apply Forall_rev. apply digits_ok; auto. apply value_le_nonneg; auto.
    apply Forall_rev. apply Forall_forall. intros x Hx.
    eapply Forall_forall in Hok; [exact Hok|]. eapply in_skipn'; eauto.
Qed.


(* ---------- alphabet ---------- *)

Definition b58_alphabet : list Z :=
  [49;50;51;52;53;54;55;56;57;
   65;66;67;68;69;70;71;72;74;75;76;77;78;80;81;82;83;84;85;86;87;88;89;90;
   97;98;99;100;101;102;103;104;105;106;107;109;110;111;112;113;114;115;116;117;118;119;120;121;122].

Definition b58_char (d : Z) : Z := nth (Z.to_nat d) b58_alphabet 0.

Fixpoint index_of (c : Z) (l : list Z) (i : Z) : option Z :=
  match l with
  | [] => None
  | x :: l' => if Z.eqb x c then Some i else index_of c l' (i + 1)
  end.

Definition b58_digit (c : Z) : option Z := index_of c b58_alphabet 0.

Fixpoint map_opt {A C} (f : A -> option C) (l : list A) : option (list C) :=
  match l with
  | [] => Some []
  | x :: l' =>
      match f x, map_opt f l' with
      | Some y, Some r => Some (y :: r)
      | _, _ => None
      end
  end.

Definition EB58 : nat := 58%nat.

Definition b58_encode (b : bytes) : bytes := map b58_char (rebase 256 58 b).

Definition b58_decode (s : bytes) : outcome bytes :=
  match s with
  | [] => Err EB58                      (* "zero length string" *)
  | _ =>
      match map_opt b58_digit s with
      | None => Err EB58                (* high bit set / invalid digit *)
      | Some ds => Ok (rebase 58 256 ds)
      end
  end.

(* ---------- alphabet lemmas (finite, by computation) ---------- *)

Lemma b58_digit_char_all :
  forallb (fun d => match b58_digit (b58_char d) with Some d' => Z.eqb d d' | None => false end)
          (map Z.of_nat (seq 0 58)) = true.
Proof. vm_compute. reflexivity. Qed.

Lemma b58_digit_char d : digit_ok 58 d -> b58_digit (b58_char d) = Some d.
Proof.
  intros Hd. unfold digit_ok in Hd.
  pose proof b58_digit_char_all as H. rewrite forallb_forall in H.
  specialize (H d). destruct (b58_digit (b58_char d)) as [d'|].
  - assert (Hin : In d (map Z.of_nat (seq 0 58))).
    { apply in_map_iff. exists (Z.to_nat d). split; [lia|]. apply in_seq. lia. }
    specialize (H Hin). apply Z.eqb_eq in H. congruence.
  - assert (Hin : In d (map Z.of_nat (seq 0 58))).
    { apply in_map_iff. exists (Z.to_nat d). split; [lia|]. apply in_seq. lia. }
    specialize (H Hin). discriminate.
Qed.

Lemma index_of_range c l i d : index_of c l i = Some d -> i <= d < i + Z.of_nat (length l) /\ nth (Z.to_nat (d - i)) l 0 = c.
Proof.
  revert i; induction l as [|x l IH]; intros i H; cbn in H; [discriminate|].
  destruct (Z.eqb x c) eqn:E.
  - inversion H; subst. apply Z.eqb_eq in E. cbn [length]. split; [lia|].
    replace (d - d) with 0 by lia. cbn. exact E.
  - apply IH in H as [H1 H2]. cbn [length]. split; [lia|].
    replace (Z.to_nat (d - i)) with (S (Z.to_nat (d - (i + 1)))) by lia. cbn. exact H2.
Qed.

Lemma b58_digit_ok c d : b58_digit c = Some d -> digit_ok 58 d /\ b58_char d = c.
Proof.
  intros H. apply index_of_range in H as [H1 H2]. cbn [length b58_alphabet] in H1.
  split; [unfold digit_ok; cbn in H1; lia|]. unfold b58_char. rewrite Z.sub_0_r in H2. exact H2.
Qed.

Lemma map_opt_map {A C} (f : A -> option C) (g : C -> A) l :
  (forall x, In x l -> f (g x) = Some x) -> map_opt f (map g l) = Some l.
Proof.
  induction l as [|x l IH]; intros H; [reflexivity|].
  cbn. rewrite H by (left; reflexivity). rewrite IH; [reflexivity|].
  intros y Hy. apply H. right. exact Hy.
Qed.

Lemma map_opt_inv {A C} (f : A -> option C) (g : C -> A) l r :
  (forall x y, f x = Some y -> g y = x) -> map_opt f l = Some r -> map g r = l.
Proof.
  intros Hfg. revert r; induction l as [|x l IH]; intros r H; cbn in H.
  - inversion H; reflexivity.
  - destruct (f x) as [y|] eqn:E; [|discriminate].
    destruct (map_opt f l) as [r'|]; [|discriminate]. inversion H; subst.
    cbn. f_equal; [eapply Hfg; eauto|apply IH; reflexivity].
Qed.

Lemma map_opt_forall {A C} (f : A -> option C) (P : C -> Prop) l r :
  (forall x y, f x = Some y -> P y) -> map_opt f l = Some r -> Forall P r.
Proof.
  intros Hf. revert r; induction l as [|x l IH]; intros r H; cbn in H.
  - inversion H; constructor.
  - destruct (f x) as [y|] eqn:E; [|discriminate].
    destruct (map_opt f l) as [r'|]; [|discriminate]. inversion H; subst.
    constructor; [eapply Hf; eauto|apply IH; reflexivity].
Qed.

Lemma map_opt_none {A C} (f : A -> option C) l x :
  In x l -> f x = None -> map_opt f l = None.
Proof.
  induction l as [|y l IH]; intros Hin Hx; [contradiction|].
  cbn. destruct Hin as [->|Hin].
  - rewrite Hx. reflexivity.
  - rewrite (IH Hin Hx). destruct (f y); reflexivity.
Qed.

(* ---------- the theorems used by the properties ---------- *)

Definition bytes_ok (b : bytes) : Prop := Forall (digit_ok 256) b.

Lemma all_bytes_ok b : all_bytes b = true <-> bytes_ok b.
Proof.
  unfold all_bytes, bytes_ok. rewrite forallb_forall, Forall_forall.
  unfold is_byte, digit_ok. split; intros H x Hx; specialize (H x Hx); lia.
Qed.


Theorem b58_roundtrip b : bytes_ok b -> b <> [] -> b58_decode (b58_encode b) = Ok b.
Proof.
  intros Hb Hne. unfold b58_decode, b58_encode.
  assert (Hok : Forall (digit_ok 58) (rebase 256 58 b)) by (apply rebase_ok; auto; lia).
  rewrite map_opt_map.
  2:{ intros x Hx. apply b58_digit_char. eapply Forall_forall in Hok; eauto. }
  rewrite rebase_roundtrip by (auto; lia).
  destruct (map b58_char (rebase 256 58 b)) eqn:E; [|reflexivity].
  apply map_eq_nil in E.
  (* an empty encoding re-bases back to the empty string *)
  pose proof (rebase_roundtrip 256 58 b ltac:(lia) ltac:(lia) Hb) as R. rewrite E in R.
  cbn in R. congruence.
Qed.

Theorem b58_encode_inj a b : bytes_ok a -> bytes_ok b -> b58_encode a = b58_encode b -> a = b.
Proof.
  intros Ha Hb H. unfold b58_encode in H.
  assert (E : rebase 256 58 a = rebase 256 58 b).
  { assert (Hoa : Forall (digit_ok 58) (rebase 256 58 a)) by (apply rebase_ok; auto; lia).
    assert (Hob : Forall (digit_ok 58) (rebase 256 58 b)) by (apply rebase_ok; auto; lia).
    pose proof (map_opt_map b58_digit b58_char (rebase 256 58 a)) as M1.
    pose proof (map_opt_map b58_digit b58_char (rebase 256 58 b)) as M2.
    rewrite H in M1. rewrite M1 in M2.
    - symmetry. injection M2; [auto|].
      intros x Hx. apply b58_digit_char. eapply Forall_forall in Hob; eauto.
    - intros x Hx. apply b58_digit_char. eapply Forall_forall in Hoa; eauto. }
  rewrite <- (rebase_roundtrip 256 58 a), <- (rebase_roundtrip 256 58 b) by (auto; lia).
  rewrite E. reflexivity.
Qed.

(* the text form is canonical: whatever decodes re-encodes to the same text *)
Theorem b58_decode_encode s b : b58_decode s = Ok b -> b58_encode b = s /\ bytes_ok b.
Proof.
  unfold b58_decode, b58_encode. destruct s as [|c s]; [discriminate|].
  destruct (map_opt b58_digit (c :: s)) as [ds|] eqn:E; [|discriminate].
  intros H; inversion H; subst.
  assert (Hok : Forall (digit_ok 58) ds).
  { eapply map_opt_forall; [|exact E]. intros x y Hxy. apply b58_digit_ok in Hxy. tauto. }
  split; [|apply rebase_ok; auto; lia].
  rewrite rebase_roundtrip by (auto; lia).
  eapply map_opt_inv; [|exact E]. intros x y Hxy. apply b58_digit_ok in Hxy. tauto.
Qed.

Theorem b58_decode_rejects_empty : b58_decode [] = Err EB58.
Proof. reflexivity. Qed.

Theorem b58_decode_rejects_nonalpha s c : In c s -> b58_digit c = None -> b58_decode s = Err EB58.
Proof.
  intros Hin Hc. unfold b58_decode. destruct s as [|x s]; [reflexivity|].
  rewrite (map_opt_none b58_digit (x :: s) c Hin Hc). reflexivity.
Qed.

Theorem b58_decode_total s : b58_decode s <> Panic.
Proof.
  unfold b58_decode. destruct s; [discriminate|]. destruct (map_opt b58_digit (z :: s)); discriminate.
Qed.

Lemma b58_encode_nil_iff b : bytes_ok b -> (b58_encode b = [] <-> b = []).
Proof.
  intros Hb. split; [|intros ->; reflexivity].
  unfold b58_encode. intros E. apply map_eq_nil in E.
  pose proof (rebase_roundtrip 256 58 b ltac:(lia) ltac:(lia) Hb) as R. rewrite E in R.
  cbn in R. congruence.
Qed.

(* characters outside the alphabet: every byte >= 128, '0', 'O', 'I', 'l', space *)
Example b58_nonalpha_examples :
  b58_digit 48 = None /\ b58_digit 79 = None /\ b58_digit 73 = None /\ b58_digit 108 = None /\
  b58_digit 32 = None /\ b58_digit 128 = None /\ b58_digit 255 = None.
Proof. vm_compute. repeat split. Qed.

Lemma b58_digit_high c : 123 <= c -> b58_digit c = None.
Proof.
  intros H. unfold b58_digit. destruct (index_of c b58_alphabet 0) as [d|] eqn:E; [|reflexivity].
  exfalso. apply index_of_range in E as [E1 E2]. rewrite Z.sub_0_r in E2.
  cbn [length b58_alphabet] in E1.
  assert (Hall : forallb (fun x => x <? 123) b58_alphabet = true) by (vm_compute; reflexivity).
  rewrite forallb_forall in Hall.
  assert (Hin : In c b58_alphabet).
  { rewrite <- E2. apply nth_In. cbn [length b58_alphabet]. lia. }
  specialize (Hall c Hin). lia.
Qed.

Example b58_examples :
  b58_encode [0;0;1] = [49;49;50] /\ b58_decode [49;49;50] = Ok [0;0;1] /\
  b58_encode [255;255] = [76;85;118] /\ b58_decode [49] = Ok [0].
Proof. vm_compute. repeat split. Qed.
