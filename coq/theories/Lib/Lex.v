(* Lexicographic order on byte strings: Go's bytes.Compare and string <, >. *)
From Bifrost Require Import Lib.Base.

Fixpoint lex_cmp (a b : bytes) : comparison :=
  match a, b with
  | [], [] => Eq
  | [], _ :: _ => Lt
  | _ :: _, [] => Gt
  | x :: a', y :: b' =>
      match Z.compare x y with
      | Eq => lex_cmp a' b'
      | c => c
      end
  end.

Definition lex_gt (a b : bytes) : bool := match lex_cmp a b with Gt => true | _ => false end.
Definition lex_lt (a b : bytes) : bool := match lex_cmp a b with Lt => true | _ => false end.
Definition lex_le (a b : bytes) : bool := negb (lex_gt a b).

Lemma lex_cmp_eq a b : lex_cmp a b = Eq <-> a = b.
Proof.
  revert b; induction a as [|x a IH]; intros [|y b]; cbn; split; intros H;
    try discriminate; try reflexivity.
  - destruct (Z.compare_spec x y); try discriminate. subst. f_equal. apply IH, H.
  - inversion H; subst. rewrite Z.compare_refl. apply IH. reflexivity.
Qed.

Lemma lex_cmp_refl a : lex_cmp a a = Eq.
Proof. apply lex_cmp_eq. reflexivity. Qed.

Lemma lex_cmp_antisym a b : lex_cmp b a = CompOpp (lex_cmp a b).
Proof.
  revert b; induction a as [|x a IH]; intros [|y b]; cbn; try reflexivity.
  rewrite (Z.compare_antisym x y). destruct (x ?= y); cbn; auto.
Qed.

Lemma lex_gt_lt a b : lex_gt a b = lex_lt b a.
Proof. unfold lex_gt, lex_lt. rewrite (lex_cmp_antisym a b). destruct (lex_cmp a b); reflexivity. Qed.

(* exactly one of a > b, b > a holds for distinct strings *)
Lemma lex_gt_total a b : a <> b -> xorb (lex_gt a b) (lex_gt b a) = true.
Proof.
  intros H. unfold lex_gt. rewrite (lex_cmp_antisym a b).
  destruct (lex_cmp a b) eqn:E; cbn; try reflexivity.
  apply lex_cmp_eq in E. contradiction.
Qed.

Lemma lex_gt_irrefl a : lex_gt a a = false.
Proof. unfold lex_gt. rewrite lex_cmp_refl. reflexivity. Qed.

Lemma lex_cmp_trans_lt a b c : lex_cmp a b = Lt -> lex_cmp b c = Lt -> lex_cmp a c = Lt.
Proof.
  revert b c; induction a as [|x a IH]; intros [|y b] [|z c]; cbn; intros H1 H2;
    try discriminate; try reflexivity.
  destruct (Z.compare_spec x y) as [E1|L1|G1]; try discriminate;
  destruct (Z.compare_spec y z) as [E2|L2|G2]; try discriminate; subst.
  - rewrite Z.compare_refl. eapply IH; eauto.
  - destruct (Z.compare_spec y z); try lia. reflexivity.
  - destruct (Z.compare_spec x z); try lia. reflexivity.
  - destruct (Z.compare_spec x z); try lia. reflexivity.
Qed.

Lemma lex_cmp_trans_le a b c :
  lex_cmp a b <> Gt -> lex_cmp b c <> Gt -> lex_cmp a c <> Gt.
Proof.
  intros H1 H2.
  destruct (lex_cmp a b) eqn:E1; [|clear H1|congruence].
  - apply lex_cmp_eq in E1; subst; exact H2.
  - destruct (lex_cmp b c) eqn:E2; [|clear H2|congruence].
    + apply lex_cmp_eq in E2; subst. rewrite E1. discriminate.
    + rewrite (lex_cmp_trans_lt _ _ _ E1 E2). discriminate.
Qed.

(* non-strictly sorted lists of byte strings *)
Fixpoint lex_sorted (l : list bytes) : Prop :=
  match l with
  | [] => True
  | x :: l' => (forall y, In y l' -> lex_cmp x y <> Gt) /\ lex_sorted l'
  end.

Fixpoint lex_sortedb (l : list bytes) : bool :=
  match l with
  | [] => true
  | x :: l' => forallb (fun y => lex_le x y) l' && lex_sortedb l'
  end.

Lemma lex_sortedb_spec l : lex_sortedb l = true <-> lex_sorted l.
Proof.
  induction l as [|x l IH]; cbn; [tauto|].
  rewrite andb_true_iff, forallb_forall, IH. unfold lex_le, lex_gt.
  split; intros [H1 H2]; split; auto; intros y Hy; specialize (H1 y Hy);
    destruct (lex_cmp x y); cbn in *; congruence.
Qed.
