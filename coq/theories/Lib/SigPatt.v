(* Compact notation for long patterned byte strings in correspondence cases
   (owner: sig).  The harness generates its long contexts / salts / bodies with
   the same formula (harness/cmd/*/sizes.go, patterned) and prints slices of
   them as  pslice n tag off len  instead of hundreds of literals. *)
From Bifrost Require Import Lib.Base.

Definition patt (n tag : nat) : bytes :=
  map (fun i => 97 + Z.of_nat ((i * 7 + tag * 11 + i / 26) mod 26)) (seq 0 n).

Definition pslice (n tag off len : nat) : bytes := firstn len (skipn off (patt n tag)).
