(* Compact notation for long patterned byte strings in correspondence cases
   (owner: sig).  The harness generates its long contexts / salts / bodies with
   the same formula (harness/cmd/*/sizes.go, patterned) and prints slices of
   them as  pslice n tag off len  instead of hundreds of literals. *)
From Bifrost Require Import Lib.Base.

(* binary arithmetic: unary nat multiplication / division would dominate the evaluation *)
Fixpoint patt_from (i : Z) (tag : Z) (n : nat) : bytes :=
  match n with
  | O => []
  | S n' => (97 + (i * 7 + tag * 11 + i / 26) mod 26) :: patt_from (i + 1) tag n'
  end.

Definition patt (n tag : nat) : bytes := patt_from 0 (Z.of_nat tag) n.

Definition pslice (n tag off len : nat) : bytes := firstn len (skipn off (patt n tag)).
