(* Additions to Lib/Sym.v used by Sig/ and Derive/ (owner: sig):
   - splitting a symbolic string into its concrete prefix and the rest,
   - a decidable total comparison on symbolic bytes, used only to put an
     unordered pair into a canonical order (symmetric free functions: DH),
   - a size measure (a term is never a strict subterm of itself). *)
From Bifrost Require Import Lib.Base Lib.Sym.

(* ---- concrete prefix ---- *)

Definition is_F (s : sym) : bool := match s with F _ _ _ => true | B _ => false end.

(* the string does not start with a concrete byte *)
Definition no_lead_B (x : sbytes) : Prop :=
  match x with B _ :: _ => False | _ => True end.

Lemma lift_app_inj a b x y :
  lift a ++ x = lift b ++ y -> no_lead_B x -> no_lead_B y -> a = b /\ x = y.
Proof.
  revert b; induction a as [|p a IH]; intros [|q b] H Hx Hy; cbn [lift map app] in H.
  - auto.
  - subst x. cbn in Hx. contradiction.
  - subst y. cbn in Hy. contradiction.
  - injection H as Hpq Hrest. apply IH in Hrest; auto. destruct Hrest. subst. auto.
Qed.

Lemma all_F_no_lead x : forallb is_F x = true -> no_lead_B x.
Proof. destruct x as [|[z|f a i] x]; cbn; auto. discriminate. Qed.

Lemma fout_all_F fn n arg : forallb is_F (fout fn n arg) = true.
Proof. unfold fout. apply forallb_forall. intros x Hx. apply in_map_iff in Hx as [i [<- _]]. reflexivity. Qed.

Lemma fout_no_lead fn n arg : no_lead_B (fout fn n arg).
Proof. apply all_F_no_lead, fout_all_F. Qed.

(* equal outputs of possibly different lengths *)
Lemma fout_inj2 fn n arg fn' n' arg' :
  (0 < n)%nat -> fout fn n arg = fout fn' n' arg' -> fn = fn' /\ n = n' /\ arg = arg'.
Proof.
  intros Hn H.
  assert (n = n') by (rewrite <- (fout_length fn n arg), H; apply fout_length).
  subst n'. apply fout_inj in H; tauto.
Qed.

(* ---- comparison ---- *)

Section ListCmp.
  Context {A : Type} (cmp : A -> A -> comparison).
  Fixpoint list_cmp (a b : list A) : comparison :=
    match a, b with
    | [], [] => Eq
    | [], _ :: _ => Lt
    | _ :: _, [] => Gt
    | x :: a', y :: b' => match cmp x y with Eq => list_cmp a' b' | c => c end
    end.
End ListCmp.

Fixpoint sym_cmp (a b : sym) : comparison :=
  match a, b with
  | B x, B y => Z.compare x y
  | B _, F _ _ _ => Lt
  | F _ _ _, B _ => Gt
  | F f xs i, F g ys j =>
      match Nat.compare f g with
      | Eq => match Nat.compare i j with
              | Eq => list_cmp sym_cmp xs ys
              | c => c
              end
      | c => c
      end
  end.

Lemma list_cmp_eq {A} (cmp : A -> A -> comparison) (l : list A) :
  Forall (fun x => forall y, cmp x y = Eq -> x = y) l ->
  forall m, list_cmp cmp l m = Eq -> l = m.
Proof.
  induction 1 as [|x l Hx Hl IH]; intros [|y m] H; cbn [list_cmp] in H; try discriminate; auto.
  destruct (cmp x y) eqn:E; try discriminate. apply Hx in E. apply IH in H. congruence.
Qed.

Lemma list_cmp_antisym {A} (cmp : A -> A -> comparison) (l : list A) :
  Forall (fun x => forall y, cmp y x = CompOpp (cmp x y)) l ->
  forall m, list_cmp cmp m l = CompOpp (list_cmp cmp l m).
Proof.
  induction 1 as [|x l Hx Hl IH]; intros [|y m]; cbn [list_cmp]; try reflexivity.
  rewrite Hx. destruct (cmp x y); cbn [CompOpp]; auto.
Qed.

Lemma sym_cmp_eq : forall a b, sym_cmp a b = Eq -> a = b.
Proof.
  induction a as [z|fn arg i IH] using sym_ind'; intros [y|g ys j] H; cbn [sym_cmp] in H;
    try discriminate.
  - apply Z.compare_eq in H. congruence.
  - destruct (Nat.compare_spec fn g); try discriminate.
    destruct (Nat.compare_spec i j); try discriminate.
    subst. f_equal. eapply list_cmp_eq; eauto.
Qed.

Lemma sym_cmp_antisym : forall a b, sym_cmp b a = CompOpp (sym_cmp a b).
Proof.
  induction a as [z|fn arg i IH] using sym_ind'; intros [y|g ys j]; cbn [sym_cmp]; try reflexivity.
  - apply Z.compare_antisym.
  - rewrite (Nat.compare_antisym fn g). destruct (Nat.compare fn g); cbn [CompOpp]; auto.
    rewrite (Nat.compare_antisym i j). destruct (Nat.compare i j); cbn [CompOpp]; auto.
    apply list_cmp_antisym; auto.
Qed.

(* canonical order of an unordered pair *)
Definition norm2 (a b : sym) : sbytes :=
  match sym_cmp a b with Gt => [b; a] | _ => [a; b] end.

Lemma norm2_sym a b : norm2 a b = norm2 b a.
Proof.
  unfold norm2. rewrite (sym_cmp_antisym a b).
  destruct (sym_cmp a b) eqn:E; cbn [CompOpp]; auto.
  apply sym_cmp_eq in E. subst. reflexivity.
Qed.

Lemma norm2_inj a b c d :
  norm2 a b = norm2 c d -> (a = c /\ b = d) \/ (a = d /\ b = c).
Proof.
  unfold norm2. destruct (sym_cmp a b), (sym_cmp c d); intros H; inversion H; auto.
Qed.

(* ---- size ---- *)

Fixpoint sym_size (s : sym) : nat :=
  match s with
  | B _ => 1%nat
  | F _ arg _ => S (list_sum (map sym_size arg))
  end.

Lemma sym_size_in x l : In x l -> (sym_size x <= list_sum (map sym_size l))%nat.
Proof.
  induction l as [|y l IH]; [intros []|].
  change (list_sum (map sym_size (y :: l))) with (sym_size y + list_sum (map sym_size l))%nat.
  intros [->|H]; [lia|]. apply IH in H. lia.
Qed.

Lemma sym_size_arg x fn arg i : In x arg -> (sym_size x < sym_size (F fn arg i))%nat.
Proof. intros H. apply sym_size_in in H. cbn [sym_size]. lia. Qed.
