(* UTF-8 validity as decided by Go's unicode/utf8.Valid / ValidString
   (Unicode Table 3-7: no overlongs, no surrogates, nothing above U+10FFFF),
   as a structurally recursive checker with a declarative specification.
   (owner: handlers; used by C38 protocol ids) *)
From Bifrost Require Import Lib.Base.

Definition inr (lo hi b : Z) : bool := (lo <=? b) && (b <=? hi).

Lemma inr_spec lo hi b : inr lo hi b = true <-> lo <= b <= hi.
Proof. unfold inr. rewrite andb_true_iff, !Z.leb_le. tauto. Qed.

Lemma inr_false lo hi b : inr lo hi b = false <-> ~ (lo <= b <= hi).
Proof. rewrite <- inr_spec. destruct (inr lo hi b); split; congruence. Qed.

Definition cont (b : Z) : bool := inr 128 191 b.

(* allowed second byte after a three-byte lead / a four-byte lead *)
Definition second3 (b0 b1 : Z) : bool :=
  if b0 =? 224 then inr 160 191 b1 else if b0 =? 237 then inr 128 159 b1 else inr 128 191 b1.
Definition second4 (b0 b1 : Z) : bool :=
  if b0 =? 240 then inr 144 191 b1 else if b0 =? 244 then inr 128 143 b1 else inr 128 191 b1.

Fixpoint utf8_valid (s : bytes) : bool :=
  match s with
  | [] => true
  | b0 :: r0 =>
      if inr 0 127 b0 then utf8_valid r0
      else
        match r0 with
        | [] => false
        | b1 :: r1 =>
            if inr 194 223 b0 then cont b1 && utf8_valid r1
            else
              match r1 with
              | [] => false
              | b2 :: r2 =>
                  if inr 224 239 b0 then second3 b0 b1 && cont b2 && utf8_valid r2
                  else
                    match r2 with
                    | [] => false
                    | b3 :: r3 =>
                        if inr 240 244 b0 then second4 b0 b1 && cont b2 && cont b3 && utf8_valid r3
                        else false
                    end
              end
        end
  end.

(* ---- declarative specification: a concatenation of well-formed byte sequences ---- *)
Definition wf2 (b0 b1 : Z) : Prop := 194 <= b0 <= 223 /\ 128 <= b1 <= 191.
Definition wf3 (b0 b1 b2 : Z) : Prop :=
  224 <= b0 <= 239 /\ 128 <= b1 <= 191 /\ (b0 = 224 -> 160 <= b1) /\ (b0 = 237 -> b1 <= 159) /\
  128 <= b2 <= 191.
Definition wf4 (b0 b1 b2 b3 : Z) : Prop :=
  240 <= b0 <= 244 /\ 128 <= b1 <= 191 /\ (b0 = 240 -> 144 <= b1) /\ (b0 = 244 -> b1 <= 143) /\
  128 <= b2 <= 191 /\ 128 <= b3 <= 191.

Inductive utf8 : bytes -> Prop :=
| U_nil : utf8 []
| U_1 b r : 0 <= b <= 127 -> utf8 r -> utf8 (b :: r)
| U_2 b0 b1 r : wf2 b0 b1 -> utf8 r -> utf8 (b0 :: b1 :: r)
| U_3 b0 b1 b2 r : wf3 b0 b1 b2 -> utf8 r -> utf8 (b0 :: b1 :: b2 :: r)
| U_4 b0 b1 b2 b3 r : wf4 b0 b1 b2 b3 -> utf8 r -> utf8 (b0 :: b1 :: b2 :: b3 :: r).

Lemma second3_spec b0 b1 :
  224 <= b0 <= 239 ->
  (second3 b0 b1 = true <-> 128 <= b1 <= 191 /\ (b0 = 224 -> 160 <= b1) /\ (b0 = 237 -> b1 <= 159)).
Proof.
  intros H. unfold second3.
  destruct (Z.eqb_spec b0 224); [rewrite inr_spec; lia|].
  destruct (Z.eqb_spec b0 237); rewrite inr_spec; lia.
Qed.

Lemma second4_spec b0 b1 :
  240 <= b0 <= 244 ->
  (second4 b0 b1 = true <-> 128 <= b1 <= 191 /\ (b0 = 240 -> 144 <= b1) /\ (b0 = 244 -> b1 <= 143)).
Proof.
  intros H. unfold second4.
  destruct (Z.eqb_spec b0 240); [rewrite inr_spec; lia|].
  destruct (Z.eqb_spec b0 244); rewrite inr_spec; lia.
Qed.

Lemma utf8_valid_complete s : utf8 s -> utf8_valid s = true.
Proof.
  induction 1 as [|b r Hb _ IH|b0 b1 r [H0 H1] _ IH|b0 b1 b2 r [H0 [H1 [Ha [Hb H2]]]] _ IH
                 |b0 b1 b2 b3 r [H0 [H1 [Ha [Hb [H2 H3]]]]] _ IH]; cbn [utf8_valid].
  - reflexivity.
  - rewrite (proj2 (inr_spec 0 127 b) Hb). exact IH.
  - rewrite (proj2 (inr_false 0 127 b0)) by lia.
    rewrite (proj2 (inr_spec 194 223 b0) H0). unfold cont. rewrite (proj2 (inr_spec 128 191 b1) H1). exact IH.
  - rewrite (proj2 (inr_false 0 127 b0)) by lia. rewrite (proj2 (inr_false 194 223 b0)) by lia.
    rewrite (proj2 (inr_spec 224 239 b0) H0).
    rewrite (proj2 (second3_spec b0 b1 H0)) by auto.
    unfold cont. rewrite (proj2 (inr_spec 128 191 b2) H2). exact IH.
  - rewrite (proj2 (inr_false 0 127 b0)) by lia. rewrite (proj2 (inr_false 194 223 b0)) by lia.
    rewrite (proj2 (inr_false 224 239 b0)) by lia. rewrite (proj2 (inr_spec 240 244 b0) H0).
    rewrite (proj2 (second4_spec b0 b1 H0)) by auto.
    unfold cont. rewrite (proj2 (inr_spec 128 191 b2) H2), (proj2 (inr_spec 128 191 b3) H3). exact IH.
Qed.

Lemma utf8_valid_sound_n n : forall s, (length s <= n)%nat -> utf8_valid s = true -> utf8 s.
Proof.
  induction n as [|n IH]; intros s L H.
  - destruct s; [constructor|cbn in L; lia].
  - destruct s as [|b0 r0]; [constructor|]. cbn [utf8_valid] in H. cbn [length] in L.
    destruct (inr 0 127 b0) eqn:E0.
    { apply inr_spec in E0. apply U_1; [exact E0|]. apply IH; [lia|exact H]. }
    destruct r0 as [|b1 r1]; [discriminate|]. cbn [length] in L.
    destruct (inr 194 223 b0) eqn:E1.
    { apply inr_spec in E1. apply andb_true_iff in H as [Hc H]. apply inr_spec in Hc.
      apply U_2; [split; assumption|]. apply IH; [lia|exact H]. }
    destruct r1 as [|b2 r2]; [discriminate|]. cbn [length] in L.
    destruct (inr 224 239 b0) eqn:E2.
    { apply inr_spec in E2. apply andb_true_iff in H as [H Hr]. apply andb_true_iff in H as [Hs Hc].
      apply inr_spec in Hc. apply (second3_spec b0 b1 E2) in Hs. destruct Hs as [S1 [S2 S3]].
      apply U_3; [repeat split; try assumption; try lia|]. apply IH; [lia|exact Hr]. }
    destruct r2 as [|b3 r3]; [discriminate|]. cbn [length] in L.
    destruct (inr 240 244 b0) eqn:E3; [|discriminate].
    apply inr_spec in E3. apply andb_true_iff in H as [H Hr]. apply andb_true_iff in H as [H Hc3].
    apply andb_true_iff in H as [Hs Hc2]. apply inr_spec in Hc2. apply inr_spec in Hc3.
    apply (second4_spec b0 b1 E3) in Hs. destruct Hs as [S1 [S2 S3]].
    apply U_4; [repeat split; try assumption; try lia|]. apply IH; [lia|exact Hr].
Qed.

Theorem utf8_valid_spec s : utf8_valid s = true <-> utf8 s.
Proof.
  split; [apply (utf8_valid_sound_n (length s)); lia|apply utf8_valid_complete].
Qed.

(* basic facts *)
Lemma utf8_app a b : utf8 a -> utf8 b -> utf8 (a ++ b).
Proof.
  induction 1 as [|c r Hc H IH|b0 b1 r W H IH|b0 b1 b2 r W H IH|b0 b1 b2 b3 r W H IH]; intros Hb; cbn [app].
  - exact Hb.
  - apply U_1; auto.
  - apply U_2; auto.
  - apply U_3; auto.
  - apply U_4; auto.
Qed.

Lemma utf8_valid_app a b : utf8_valid a = true -> utf8_valid b = true -> utf8_valid (a ++ b) = true.
Proof. rewrite !utf8_valid_spec. apply utf8_app. Qed.

Lemma utf8_ascii s : (forall b, In b s -> 0 <= b <= 127) -> utf8_valid s = true.
Proof.
  intros H. apply utf8_valid_spec. induction s as [|b s IH]; [constructor|].
  apply U_1; [apply H; left; reflexivity|apply IH; intros; apply H; right; assumption].
Qed.

(* a lone continuation byte, a truncated sequence, an overlong form, a surrogate
   and a code point above U+10FFFF are all rejected *)
Example utf8_rejects :
  utf8_valid [128] = false /\ utf8_valid [226; 130] = false /\ utf8_valid [192; 128] = false /\
  utf8_valid [224; 128; 128] = false /\ utf8_valid [237; 160; 128] = false /\
  utf8_valid [244; 144; 128; 128] = false /\ utf8_valid [245; 128; 128; 128] = false /\
  utf8_valid [226; 130; 172; 240; 159; 152; 128; 97] = true.
Proof. repeat split; reflexivity. Qed.
