(* C32: both ends of a link compute the same solicitation set and its exact intersection. *)
From Bifrost Require Import Lib.Base Lib.Lex Lib.Sym Solicit.Model Solicit.Proofs Id.Model Id.Proofs.

(* the session identifier is the same whichever side computes it *)
Theorem c32_session_id_symmetric : forall a b, session_id a b = session_id b a.
Proof. exact session_id_sym. Qed.
Print Assumptions c32_session_id_symmetric.

(* and differs for different peer pairs, for any self-delimiting (prefix-free)
   encoding of peer IDs; instantiated with well-formed multihashes in C10 *)
Theorem c32_session_id_injective :
  forall P : bytes -> Prop,
    (forall a c x y, P a -> P c -> a ++ x = c ++ y -> a = c) ->
    forall a b c d, P a -> P b -> P c -> P d ->
      session_id a b = session_id c d -> (a = c /\ b = d) \/ (a = d /\ b = c).
Proof. exact session_id_inj. Qed.
Print Assumptions c32_session_id_injective.

(* instantiated: peer IDs accepted by the implementation (well-formed identity
   multihashes, Id/Model.v wf_id, characterised in C10) are prefix-free, so the
   session identifier differs for different peer pairs *)
Theorem c32_session_id_injective_peer_ids :
  forall a b c d, wf_id a -> wf_id b -> wf_id c -> wf_id d ->
    session_id a b = session_id c d -> (a = c /\ b = d) \/ (a = d /\ b = c).
Proof. exact (session_id_inj wf_id wf_id_prefix_free). Qed.
Print Assumptions c32_session_id_injective_peer_ids.

(* the matched set is the sorted multiset intersection: each value appears
   min(multiplicity in l, multiplicity in r) times ... *)
Theorem c32_match_multiset : forall x l r,
  lex_sorted l -> lex_sorted r ->
  cnt x (find_matching l r) = Nat.min (cnt x l) (cnt x r).
Proof. exact find_matching_count. Qed.
Print Assumptions c32_match_multiset.

(* ... in the order of the inputs ... *)
Theorem c32_match_ordered : forall l r,
  lex_sorted l -> sublist (find_matching l r) l /\ lex_sorted (find_matching l r).
Proof. intros l r H; split; [apply find_matching_sublist|apply find_matching_sorted, H]. Qed.
Print Assumptions c32_match_ordered.

(* ... hence exactly the set intersection *)
Theorem c32_match_intersection : forall x l r,
  lex_sorted l -> lex_sorted r ->
  (In x (find_matching l r) <-> In x l /\ In x r).
Proof. exact find_matching_in. Qed.
Print Assumptions c32_match_intersection.

(* non-vacuity: a concrete sorted pair with duplicates and a shared element *)
Example c32_nonvacuous :
  lex_sorted [[1];[1];[2]] /\ lex_sorted [[1];[3]] /\ find_matching [[1];[1];[2]] [[1];[3]] = [[1]].
Proof. split; [|split]; try (apply lex_sortedb_spec); reflexivity. Qed.
