(* C08: packet framing over byte streams preserves packets exactly. *)
From Bifrost Require Import Lib.Base Lib.Chunk gen.Frame Frame.Model Frame.Proofs08.

(* the receive loops (PacketConn.rxPump, repeated Session.RecvMsg) compute a
   function of the bytes alone: transit chunking is irrelevant *)
Theorem c08_chunking_independent : forall zero_ok maxp ch1 ch2 D,
  rx_run 4 zero_ok maxp (ch1, D) = rx_run 4 zero_ok maxp (ch2, D).
Proof. intros. apply rx_run_chunking. Qed.
Print Assumptions c08_chunking_independent.

(* PacketConn: every sequence of packets of 1..max bytes written as
   prefix ++ payload is read exactly once, in order, with identical content and
   boundaries, then io.EOF - for every chunking *)
Theorem c08_pktconn_exact : forall maxp ps ch,
  maxp < two32 -> Forall (pkt_ok false maxp) ps ->
  pktconn_rx maxp (ch, stream_of ps) = (ps, E_EOF).
Proof. exact (rx_exact false). Qed.
Print Assumptions c08_pktconn_exact.

(* Session: the same with empty messages allowed *)
Theorem c08_session_exact : forall maxm ms ch,
  maxm < two32 -> Forall (pkt_ok true maxm) ms ->
  session_rx maxm (ch, stream_of ms) = (ms, E_EOF).
Proof. exact (rx_exact true). Qed.
Print Assumptions c08_session_exact.

(* a zero (PacketConn) or over-limit (both) length prefix after the packets ps,
   followed by anything: exactly ps is delivered, then the framing error *)
Theorem c08_pktconn_bad_prefix : forall maxp ps n k junk ch,
  maxp < two32 -> Forall (pkt_ok false maxp) ps -> 0 <= n < two32 ->
  bad_prefix false maxp n = Some k ->
  pktconn_rx maxp (ch, stream_of ps ++ le32_enc n ++ junk) = (ps, k) /\ (k = E_ZERO \/ k = E_OVER).
Proof.
  intros maxp ps n k junk ch Hm Hok Hn Hb. split; [exact (rx_bad_prefix false maxp ps n k junk ch Hm Hok Hn Hb)|].
  unfold bad_prefix in Hb. destruct (n =? 0); [|destruct (n >? maxp)]; inversion Hb; auto.
Qed.
Print Assumptions c08_pktconn_bad_prefix.

Theorem c08_session_over_limit : forall maxm ms n junk ch,
  0 <= maxm < two32 -> Forall (pkt_ok true maxm) ms -> maxm < n < two32 ->
  session_rx maxm (ch, stream_of ms ++ le32_enc n ++ junk) = (ms, E_OVER).
Proof.
  intros maxm ms n junk ch Hm Hok Hn. apply (rx_bad_prefix true); try assumption; try lia.
  unfold bad_prefix. destruct (Z.eqb_spec n 0); [|destruct (Z.gtb_spec n maxm); [reflexivity|]]; unfold two32 in *; lia.
Qed.
Print Assumptions c08_session_over_limit.

(* a stream that ends inside a frame: the complete packets, then an
   end-of-stream error - never a packet assembled from other bytes *)
Theorem c08_truncated : forall zero_ok maxp ps p cut ch,
  maxp < two32 -> Forall (pkt_ok zero_ok maxp) ps -> pkt_ok zero_ok maxp p ->
  (cut < length (frame p))%nat ->
  exists k, rx_run 4 zero_ok maxp (ch, stream_of ps ++ firstn cut (frame p)) = (ps, k) /\ (k = E_EOF \/ k = E_UNEXP).
Proof. exact rx_truncated. Qed.
Print Assumptions c08_truncated.

(* a reader with a too-small buffer is told so (and gets the first bytes) *)
Theorem c08_short_buffer : forall buflen pkt,
  ((length pkt <= buflen)%nat -> read_from buflen pkt = (pkt, false)) /\
  ((buflen < length pkt)%nat -> read_from buflen pkt = (firstn buflen pkt, true) /\ length (firstn buflen pkt) = buflen).
Proof. intros; split; [apply read_from_fits|apply read_from_short]. Qed.
Print Assumptions c08_short_buffer.

(* concurrent writers: under the one-Write-per-packet atomicity assumption the
   stream is an interleaving of whole frames, and every interleaving decodes
   to the interleaved packet sequence *)
Theorem c08_concurrent_writers : forall zero_ok maxp a b m ch,
  maxp < two32 -> Forall (pkt_ok zero_ok maxp) a -> Forall (pkt_ok zero_ok maxp) b -> merge a b m ->
  rx_run 4 zero_ok maxp (ch, stream_of m) = (m, E_EOF).
Proof. exact rx_interleaved. Qed.
Print Assumptions c08_concurrent_writers.

(* the prefix sizes the proofs are about are the ones the receivers in the
   source read; that the writers emit exactly `frame p` in one Write call is
   checked by the harness (Fr cases, frame-split-across-writes) *)
Theorem c08_prefix_sizes : plen = 4%nat /\ slen = 4%nat.
Proof. repeat split. Qed.
Print Assumptions c08_prefix_sizes.

(* non-vacuity *)
Example c08_example :
  Forall (pkt_ok false 3) [[7]; [1; 2; 3]] /\ 3 < two32 /\
  stream_of [[7]; [1; 2; 3]] = [1; 0; 0; 0; 7; 3; 0; 0; 0; 1; 2; 3] /\
  pktconn_rx 3 ([2; 1; 5]%nat, stream_of [[7]; [1; 2; 3]] ++ le32_enc 4 ++ [1; 2; 3; 4]) = ([[7]; [1; 2; 3]], E_OVER) /\
  merge [[7]] [[1; 2; 3]] [[1; 2; 3]; [7]].
Proof.
  repeat split; try (vm_compute; reflexivity).
  - repeat constructor; cbn; lia.
  - repeat constructor.
Qed.
