(* C18: envelopes resist tampering and are bound to their context. *)
From Bifrost Require Import Lib.Base Lib.Sym Enc.Prim Enc.Model Enc.Proofs Env.Model Env.Proofs.

(* unsealing with a different context string is rejected as a context mismatch *)
Theorem c18_context_mismatch : forall o r ctx payload kps cfg env ctx' privs,
  build o r ctx payload kps cfg = Ok env -> ctx' <> ctx ->
  unlock o ctx' env privs = Err E_CTX.
Proof. exact unlock_wrong_context. Qed.
Print Assumptions c18_context_mismatch.

(* ANY modification of a sealed envelope: env' is an arbitrary envelope (any
   threshold, grants, keypair indexes, grant ciphertexts, id, context hash,
   keypair list) whose payload-ciphertext field is built from arbitrary bytes
   and bytes of the original envelope (the attacker holds no AEAD key).  Under
   any context and any keys, if unsealing succeeds it returns exactly the
   sealed payload. *)
Theorem c18_tamper : forall o r ctx payload kps cfg env env' ctx' privs p res,
  build o r ctx payload kps cfg = Ok env ->
  (forall x, In x (r_nonce r) -> is_keyed_out x = false) ->
  keyed_from (env_bytes env) (e_ct env') ->
  unlock o ctx' env' privs = Ok (Some p, res) ->
  p = payload.
Proof. exact tamper_same_payload. Qed.
Print Assumptions c18_tamper.

(* ... and it opens ONLY under the sealing context and with the original
   envelope id: multi-field tampering (envelope id rewritten, context hash
   recomputed for another context, threshold/grants changed at the same time)
   cannot make it open under a different context *)
Theorem c18_tamper_binds_context : forall o r ctx payload kps cfg env env' ctx' privs p res,
  build o r ctx payload kps cfg = Ok env ->
  (forall x, In x (r_nonce r) -> is_keyed_out x = false) ->
  keyed_from (env_bytes env) (e_ct env') ->
  unlock o ctx' env' privs = Ok (Some p, res) ->
  p = payload /\ ctx' = ctx /\ e_id env' = e_id env.
Proof. exact tamper_binds_context. Qed.
Print Assumptions c18_tamper_binds_context.

(* because the key-derivation and grant-encryption context strings are injective
   in (envelope id, context[, grant index]): both fields are length-prefixed *)
Theorem c18_derivation_contexts_injective : forall id ctx gi id' ctx' gi',
  (kd_ctx id ctx = kd_ctx id' ctx' -> id = id' /\ ctx = ctx') /\
  (grant_ctx id ctx gi = grant_ctx id' ctx' gi' -> id = id' /\ ctx = ctx' /\ gi = gi').
Proof. intros. split; [apply kd_ctx_inj|apply grant_ctx_inj]. Qed.
Print Assumptions c18_derivation_contexts_injective.

(* unsealing an arbitrary envelope (arbitrary decoded fields, arbitrary keys,
   arbitrary oracle answers) never panics; the threshold field is a uint32 *)
Theorem c18_total : forall o ctx env privs, 0 <= e_threshold env -> unlock o ctx env privs <> Panic.
Proof. exact unlock_total. Qed.
Print Assumptions c18_total.

(* in particular secretsharing.Recover is never given two equal share ids *)
Theorem c18_recover_never_panics : forall t col,
  0 <= t -> nodupb (map fst col) = true -> recover t col <> Panic.
Proof. exact recover_total. Qed.
Print Assumptions c18_recover_never_panics.

(* non-vacuity: mutations of the payload ciphertext satisfy the premise, and
   the two share ids that alias the same scalar are de-duplicated *)
Example c18_premise_satisfiable : forall (env : envelope) n e b,
  keyed_from (env_bytes env) (firstn n (e_ct env)) /\
  keyed_from (env_bytes env) (e_ct env ++ lift e) /\
  keyed_from (env_bytes env) (lift b).
Proof.
  intros env n e b. repeat split.
  - intros x HI _. unfold env_bytes. apply in_or_app. left. eapply in_firstn, HI.
  - intros x HI HK. apply in_app_or in HI. destruct HI as [HI|HI]; [unfold env_bytes; apply in_or_app; auto|].
    unfold lift in HI. apply in_map_iff in HI. destruct HI as (z & <- & _). discriminate.
  - intros x HI HK. unfold lift in HI. apply in_map_iff in HI. destruct HI as (z & <- & _). discriminate.
Qed.

Example c18_alias_ids_deduplicated :
  let id1 := lift (1 :: repeat 0 31) in
  let id2 := lift (1 :: repeat 0 30 ++ [32]) in
  id1 <> id2 /\ canon id1 = canon id2 /\
  length (fst (collect [(id1, lift (repeat 0 32)); (id2, lift (repeat 0 32))] [] [])) = 1%nat.
Proof. cbv zeta. split; [discriminate|split; vm_compute; reflexivity]. Qed.
