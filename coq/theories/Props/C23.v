(* C23: signaling makes progress once both peers are stably attached.
   Client half (this part): on a stable suffix, i.e. with no relay response,
   no application call and no restart of execute, every enabled internal action
   of the client (loop pass, Send iteration, Recv iteration, taking the
   reader's error) strictly decreases a well-founded measure.  Hence every
   fair execution of the client between two environment events is finite. *)
From Bifrost Require Import Lib.Base SignalClient.Model SignalClient.Proofs SignalClient.ProofsProgress
  SignalClient.Run.

Theorem c23_measure_wf : well_founded lt4.
Proof. exact lt4_wf. Qed.
Print Assumptions c23_measure_wf.

(* in every reachable state, for every internal action that is enabled *)
Theorem c23_client_decrease : forall c acts s tr a s' o,
  run c c_init acts = (s, tr) ->
  internal a = true -> step c s a = Some (s', o) -> lt4 (mu s') (mu s).
Proof. exact reachable_internal_decreases. Qed.
Print Assumptions c23_client_decrease.

(* the send-slot flags are meaningful only while a message is pending: an
   invariant of every history, used by the measure *)
Theorem c23_flags_invariant : forall c acts s tr,
  run c c_init acts = (s, tr) -> flags_inv (tk s).
Proof. intros c acts s tr R. eapply run_flags; [apply flags_init|exact R]. Qed.
Print Assumptions c23_flags_invariant.

(* The re-open-during-send scenario repaired by the fix in Send ("keeps
   ownership of its message across a re-open"): the relay announces Opened 1,
   then Opened 2 while the Send is pending, the message is re-sent in epoch 2
   and acknowledged; the Send returns (with the old code it waited for ever
   for its own message to leave the slot). *)
Definition ex23 := mkCfg 0 1.
Example c23_reopen_during_send :
  let ops := [OpConn; OpResp (POpened 1); OpSend [120]; OpResp (POpened 2); OpResp (PAck 1)] in
  let r := fold_left (fun '(s, tr) o => let '(s', t, _) := script_step ex23 s o in (s', tr ++ t)) ops (c_init, []) in
  map send_code (sends (fst r)) = [1%nat] /\
  reqs_of (snd r) = [RInit; RSend 1 (sign_msg 0 [120] 1); RSend 2 (sign_msg 0 [120] 1)] /\
  quiescent ex23 (fst r) = true.
Proof. vm_compute. repeat split. Qed.

(* the same through a Closed / failed stream: the message is placed again *)
Example c23_reconnect_during_send :
  let ops := [OpConn; OpResp (POpened 1); OpSend [120]; OpResp PFail; OpConn; OpResp (POpened 3); OpResp (PAck 1)] in
  let r := fold_left (fun '(s, tr) o => let '(s', t, _) := script_step ex23 s o in (s', tr ++ t)) ops (c_init, []) in
  map send_code (sends (fst r)) = [1%nat] /\ quiescent ex23 (fst r) = true.
Proof. vm_compute. repeat split. Qed.

(* Composition (two clients, FIFO streams, the relay's Session RPC as modelled
   in SignalClient/Compose.v and tied to the real relay by the composition
   scripts): histories with a reconnect while a Send is in flight, followed by
   a stable suffix scheduled by [wsettle] (every enabled internal action of
   both clients and of the relay is eventually taken): the system comes to
   rest, the Send has succeeded and the partner has received the message. *)
Definition run_wscript (ops : list wop) : world * bool :=
  fold_left (fun '(w, q) o => let '(w', _, q') := wscript_step w o in (w', q && q')) ops (w_init, true).

Example c23_receiver_reconnects_during_send :
  let r := run_wscript [WoConn true; WoConn false; WoSend true [120;121]; WoFail false; WoConn false; WoRecv false] in
  snd r = true /\ wquiescent (fst r) = true /\
  map send_code (sends (s_cl (w_a (fst r)))) = [1%nat] /\
  map recv_code (recvs (s_cl (w_b (fst r)))) = [(1%nat, Some (sign_msg 0 [120;121] 1))].
Proof. vm_compute. repeat split. Qed.

Example c23_sender_reconnects_during_send :
  let r := run_wscript [WoConn true; WoConn false; WoSend true [120;121]; WoFail true; WoConn true; WoRecv false] in
  snd r = true /\ wquiescent (fst r) = true /\
  map send_code (sends (s_cl (w_a (fst r)))) = [1%nat] /\
  map recv_code (recvs (s_cl (w_b (fst r)))) = [(1%nat, Some (sign_msg 0 [120;121] 1))].
Proof. vm_compute. repeat split. Qed.

(* both directions at once, with both sides reconnecting *)
Example c23_both_directions :
  let r := run_wscript [WoConn true; WoConn false; WoSend true [1]; WoSend false [2]; WoFail false; WoFail true;
                        WoConn false; WoConn true; WoRecv false; WoRecv true] in
  snd r = true /\ wquiescent (fst r) = true /\
  map send_code (sends (s_cl (w_a (fst r)))) = [1%nat] /\
  map send_code (sends (s_cl (w_b (fst r)))) = [1%nat].
Proof. vm_compute. repeat split. Qed.
