(* C23: signaling makes progress once both peers are stably attached.
   Client half (this part): on a stable suffix, i.e. with no relay response,
   no application call and no restart of execute, every enabled internal action
   of the client (loop pass, Send iteration, Recv iteration, taking the
   reader's error) strictly decreases a well-founded measure.  Hence every
   fair execution of the client between two environment events is finite. *)
From Bifrost Require Import Lib.Base SignalClient.Model SignalClient.Proofs SignalClient.ProofsProgress
  SignalClient.Compose SignalClient.ProofsWait SignalClient.ProofsRelayProgress SignalClient.Run.

Theorem c23_measure_wf : well_founded lt4.
Proof. exact lt4_wf. Qed.
Print Assumptions c23_measure_wf.

(* in every reachable state, for every internal action that is enabled *)
Theorem c23_client_decrease : forall c acts s tr a s' o,
  run c c_init acts = (s, tr) ->
  internal a = true -> step c s a = Some (s', o) -> lt4 (mu s') (mu s).
Proof. exact reachable_internal_decreases. Qed.
Print Assumptions c23_client_decrease.

(* the send-slot flags are meaningful only while a message is pending: an
   invariant of every history, used by the measure *)
Theorem c23_flags_invariant : forall c acts s tr,
  run c c_init acts = (s, tr) -> flags_inv (tk s).
Proof. intros c acts s tr R. eapply run_flags; [apply flags_init|exact R]. Qed.
Print Assumptions c23_flags_invariant.

(* No lost wake-ups: in every reachable client state, a goroutine blocked on
   the wait channel would do nothing if it ran its lock region now (every
   change of the tracker broadcasts, and a region that ends waiting is
   idempotent). *)
Theorem c23_wait_stable : forall c acts s tr,
  run c c_init acts = (s, tr) -> WInv s.
Proof. intros c acts s tr R. eapply run_WInv; [apply flags_init|apply WInv_init|exact R]. Qed.
Print Assumptions c23_wait_stable.

(* Quiescence of the client: when execute runs, the session is open in epoch e
   and no internal action is enabled, then the loop has nothing to transmit;
   every pending Send finds the slot occupied by a message that is not
   cancelled and HAS BEEN TRANSMITTED IN THE CURRENT EPOCH; if that message is
   its own, the Send knows it (txed, session = e) and only the relay's ack is
   outstanding (with the Send code before the re-open fix exactly this clause
   fails: the Send waited for its own message to leave the slot); a pending
   Recv means nothing is held for the application; nothing received waits for
   its ack to be written.  So a quiescent client waits only for the relay. *)
Theorem c23_client_quiescent : forall c acts s tr cn e,
  run c c_init acts = (s, tr) ->
  quiescent c s = true -> conn s = Some cn -> t_open (tk s) = Some e ->
  snd (h_loop (tk s)) = LNone /\
  (forall i cl, nth_error (sends s) i = Some cl -> s_st cl = SRun ->
     exists o, t_out (tk s) = Some o /\ t_sent (tk s) = true /\ t_cancel (tk s) = false /\
               (m_seq o = m_seq (s_msg cl) -> t_acked (tk s) = false /\ s_txed cl = true /\ s_sess cl = Some e)) /\
  (forall j cl, nth_error (recvs s) j = Some cl -> r_st cl = RRun -> t_recv (tk s) = None) /\
  (forall r, t_recv (tk s) = Some r -> t_proc (tk s) = false).
Proof. exact client_quiescent_sends. Qed.
Print Assumptions c23_client_quiescent.

(* Relay part of the stable-suffix measure (composition, any state): a request
   handler pass and a write-loop pass strictly decrease
   (queued requests, mailbox contents, runnable write loops); the write loop
   never touches a client. *)
Theorem c23_relay_measure_wf : well_founded lt3.
Proof. exact lt3_wf. Qed.
Print Assumptions c23_relay_measure_wf.

Theorem c23_relay_req_decrease : forall x w w' o,
  wstep w (RReq x) = Some (w', o) -> lt3 (muR w') (muR w).
Proof. exact relay_req_decreases. Qed.
Print Assumptions c23_relay_req_decrease.

Theorem c23_relay_loop_decrease : forall x w w' o,
  wstep w (RLoop x) = Some (w', o) ->
  lt3 (muR w') (muR w) /\ (forall z, s_cl (gs z w') = s_cl (gs z w)) /\ o = [].
Proof. exact relay_loop_decreases. Qed.
Print Assumptions c23_relay_loop_decrease.

(* NOT PROVED (targets):
   c23_quiescent_composed : forall w H, reach_without_drop w H ->
     both calls linked -> all four queues empty -> wquiescent w = true ->
     forall x, (exists running Send of x) ->
       exists o, t_out (tk (s_cl (gs x w))) = Some o /\
                 t_recv (tk (s_cl (gs (negb x) w))) = Some o /\ t_proc ... = false /\
                 no Recv call of the partner is running.
   Missing: the "where is the message" invariant across client, request queue,
   mailbox, response queue and partner tracker (with the epoch bounds that make
   stale epochs vacuous), and the relay-side analogue of c23_wait_stable.
   c23_stable_decrease_composed : one lexicographic measure for ALL internal
   actions of the composition.  Proved per component only: c23_client_decrease
   (client actions, client measure), c23_relay_req/loop_decrease (relay actions,
   relay measure, clients untouched); the delivery action WDeliver (shrinks a
   response queue, may change the client measure arbitrarily) and the coupling
   terms (a client loop pass lengthens a request queue, a relay pass lengthens a
   response queue) are not combined into one order. *)

(* The re-open-during-send scenario repaired by the fix in Send ("keeps
   ownership of its message across a re-open"): the relay announces Opened 1,
   then Opened 2 while the Send is pending, the message is re-sent in epoch 2
   and acknowledged; the Send returns (with the old code it waited for ever
   for its own message to leave the slot). *)
Definition ex23 := mkCfg 0 1.
Example c23_reopen_during_send :
  let ops := [OpConn; OpResp (POpened 1); OpSend [120]; OpResp (POpened 2); OpResp (PAck 1)] in
  let r := fold_left (fun '(s, tr) o => let '(s', t, _) := script_step ex23 s o in (s', tr ++ t)) ops (c_init, []) in
  map send_code (sends (fst r)) = [1%nat] /\
  reqs_of (snd r) = [RInit; RSend 1 (sign_msg 0 [120] 1); RSend 2 (sign_msg 0 [120] 1)] /\
  quiescent ex23 (fst r) = true.
Proof. vm_compute. repeat split. Qed.

(* the same through a Closed / failed stream: the message is placed again *)
Example c23_reconnect_during_send :
  let ops := [OpConn; OpResp (POpened 1); OpSend [120]; OpResp PFail; OpConn; OpResp (POpened 3); OpResp (PAck 1)] in
  let r := fold_left (fun '(s, tr) o => let '(s', t, _) := script_step ex23 s o in (s', tr ++ t)) ops (c_init, []) in
  map send_code (sends (fst r)) = [1%nat] /\ quiescent ex23 (fst r) = true.
Proof. vm_compute. repeat split. Qed.

(* Composition (two clients, FIFO streams, the relay's Session RPC as modelled
   in SignalClient/Compose.v and tied to the real relay by the composition
   scripts): histories with a reconnect while a Send is in flight, followed by
   a stable suffix scheduled by [wsettle] (every enabled internal action of
   both clients and of the relay is eventually taken): the system comes to
   rest, the Send has succeeded and the partner has received the message. *)
Definition run_wscript (ops : list wop) : world * bool :=
  fold_left (fun '(w, q) o => let '(w', _, q') := wscript_step w o in (w', q && q')) ops (w_init, true).

Example c23_receiver_reconnects_during_send :
  let r := run_wscript [WoConn true; WoConn false; WoSend true [120;121]; WoFail false; WoConn false; WoRecv false] in
  snd r = true /\ wquiescent (fst r) = true /\
  map send_code (sends (s_cl (w_a (fst r)))) = [1%nat] /\
  map recv_code (recvs (s_cl (w_b (fst r)))) = [(1%nat, Some (sign_msg 0 [120;121] 1))].
Proof. vm_compute. repeat split. Qed.

Example c23_sender_reconnects_during_send :
  let r := run_wscript [WoConn true; WoConn false; WoSend true [120;121]; WoFail true; WoConn true; WoRecv false] in
  snd r = true /\ wquiescent (fst r) = true /\
  map send_code (sends (s_cl (w_a (fst r)))) = [1%nat] /\
  map recv_code (recvs (s_cl (w_b (fst r)))) = [(1%nat, Some (sign_msg 0 [120;121] 1))].
Proof. vm_compute. repeat split. Qed.

(* both directions at once, with both sides reconnecting *)
Example c23_both_directions :
  let r := run_wscript [WoConn true; WoConn false; WoSend true [1]; WoSend false [2]; WoFail false; WoFail true;
                        WoConn false; WoConn true; WoRecv false; WoRecv true] in
  snd r = true /\ wquiescent (fst r) = true /\
  map send_code (sends (s_cl (w_a (fst r)))) = [1%nat] /\
  map send_code (sends (s_cl (w_b (fst r)))) = [1%nat].
Proof. vm_compute. repeat split. Qed.
