(* C24: listeners learn of every peer that wants a session. *)
From Bifrost Require Import Lib.Base SignalRelay.Model SignalRelay.Inv SignalRelay.Proofs SignalRelay.Reach.
Local Open Scope nat_scope.

(* In every reachable state, a running Listen call whose loop is waiting (not
   woken: in particular at quiescence) is the call registered for its peer, on
   THE tracker stored in peers[p], and the set announced on its stream
   (SetPeer minus ClearPeer) is exactly the set of peers that have a Session
   call registered towards p *)
Theorem c24_listener_knows_wanting_peers : forall l c,
  lc_st (lcalls (run l) c) = Running -> lwoken (run l) c = false ->
  peers (run l) (lc_p (lcalls (run l) c)) = Some (lc_t (lcalls (run l) c)) /\
  t_nonce (trk (run l) (lc_t (lcalls (run l) c))) = lc_n (lcalls (run l) c) /\
  forall q, In q (announced (lc_out (lcalls (run l) c))) <-> cur_sess (run l) q (lc_p (lcalls (run l) c)) <> None.
Proof. exact listener_set_run. Qed.
Print Assumptions c24_listener_knows_wanting_peers.

(* the registered Listen call holds the tracker of the map and it is marked listening *)
Theorem c24_active_listen_holds_the_tracker : forall l c, listen_current (run l) c ->
  peers (run l) (lc_p (lcalls (run l) c)) = Some (lc_t (lcalls (run l) c)) /\
  t_listening (trk (run l) (lc_t (lcalls (run l) c))) = true.
Proof. exact listen_current_holds_tracker_run. Qed.
Print Assumptions c24_active_listen_holds_the_tracker.

(* non-vacuity: listen, open, close, open again (the history that lost the
   tracker before the fix), plus a second wanting peer *)
Definition c24_demo : list action :=
  [ListenStart 0 1; ListenIter 0 None None;
   SessStart 0 0 0 (RInit (Some 1)); ListenIter 0 (Some 0) None; ListenIter 0 None None;
   SessEnd 0 true; ListenIter 0 None (Some 0); ListenIter 0 None None;
   SessStart 1 0 0 (RInit (Some 1)); SessStart 2 2 0 (RInit (Some 1));
   ListenIter 0 (Some 2) None; ListenIter 0 (Some 0) None; ListenIter 0 None None].
Example c24_nonvacuous :
  lc_st (lcalls (run c24_demo) 0) = Running /\ lwoken (run c24_demo) 0 = false /\
  announced (lc_out (lcalls (run c24_demo) 0)) = [0; 2] /\
  cur_sess (run c24_demo) 0 1 = Some 1 /\ cur_sess (run c24_demo) 2 1 = Some 2.
Proof. repeat split; vm_compute; reflexivity. Qed.
