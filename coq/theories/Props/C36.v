(* C36: remote RPC lookups report service availability faithfully. *)
From Bifrost Require Import Lib.Base Lib.StrOps Lib.Varint Rpc.Access Rpc.AccessProofs.

(* per lock region: Exists is queued iff the provider set goes 0 -> 1, Removed iff 1 -> 0,
   Idle b iff the idle state changes to b (fresh_add: the bus reports a value id as added
   only while it is not present) *)
Theorem c36_exact : forall s a,
  NoDup (vals s) -> fresh_add s a ->
  let s' := fst (step s a) in let out := snd (step s a) in
  (In RExists out <-> length (vals s) = 0%nat /\ length (vals s') = 1%nat) /\
  (In RRemoved out <-> length (vals s) = 1%nat /\ length (vals s') = 0%nat) /\
  (forall b, In (RIdle b) out <-> idle s <> b /\ idle s' = b) /\
  NoDup (vals s').
Proof. exact step_exact. Qed.
Print Assumptions c36_exact.

(* over every callback history and every interleaving with the send loop: the
   Exists/Removed reports alternate, starting with Exists ... *)
Theorem c36_alt : forall l,
  wf_hist init l -> alt true (er_proj (snd (run init l))).
Proof. exact exists_removed_alternate. Qed.
Print Assumptions c36_alt.

(* ... hence never the same report twice in a row *)
Theorem c36_never_twice : forall l a x y b,
  wf_hist init l -> er_proj (snd (run init l)) = a ++ x :: y :: b -> x <> y.
Proof. intros l a x y b WF E. eapply alt_no_repeat; [apply exists_removed_alternate; exact WF|exact E]. Qed.
Print Assumptions c36_never_twice.

(* idle reports alternate starting with "idle": reported on change only (no hypothesis on the history) *)
Theorem c36_idle : forall l, alt true (idle_proj (snd (run init l))).
Proof. exact idle_reported_on_change. Qed.
Print Assumptions c36_idle.

(* what the stream carries is a prefix of the queued reports, in order, and all of
   them after a send-loop iteration unless the call ended with the resolver error *)
Theorem c36_sent : forall l,
  exists tail, snd (run init l) = sent (fst (run init l)) ++ tail /\
               (result (fst (run init l)) <> 1%nat -> tail = queue (fst (run init l))).
Proof. exact sent_is_prefix_of_reports. Qed.
Print Assumptions c36_sent.

(* QUIESCENCE (no lost wake-up): whenever the send loop is parked on an open wait channel and
   the call is running, nothing is left queued and everything reported has been sent - for every
   callback history and every interleaving with the send loop, including callbacks arriving
   between two Drain regions (= while strm.Send is running).  This holds because Drain takes the
   new wait channel in the same lock region that snapshots the queue (Rpc/Access.v step). *)
Theorem c36_quiescent_all_sent : forall l,
  let s' := fst (run init l) in
  result s' = 0%nat -> woken s' = false ->
  queue s' = [] /\ disposed s' = false /\ sent s' = snd (run init l).
Proof. exact quiescent_all_sent. Qed.
Print Assumptions c36_quiescent_all_sent.

(* ... so at quiescence the availability / idle state the remote side was told is the actual one *)
Theorem c36_quiescent_state : forall l,
  wf_hist init l ->
  let s' := fst (run init l) in
  result s' = 0%nat -> woken s' = false ->
  last_er false (sent s') = negb (Nat.eqb (length (vals s')) 0) /\
  last_idle false (sent s') = idle s'.
Proof. exact quiescent_reported_state. Qed.
Print Assumptions c36_quiescent_state.

(* ... and every send-loop iteration ends parked or returned *)
Theorem c36_drain_quiesces : forall s,
  woken (fst (step s Drain)) = false \/ result (fst (step s Drain)) <> 0%nat.
Proof. exact drain_quiesces. Qed.
Print Assumptions c36_drain_quiesces.

(* resolver errors: the stream ends with the resolver's error only when the directive is idle with
   a real (non-cancellation) first resolver error, and then the next send-loop iteration does end it;
   in every other case c36_quiescent_state applies (it has no hypothesis on errors): the idle flip
   that arrives together with the first resolver error is reported *)
Theorem c36_error_end : forall l,
  let s := fst (run init l) in
  result s = 1%nat -> idle s = true /\ res_err s = true /\ res_real s = true.
Proof. exact error_end_sound. Qed.
Print Assumptions c36_error_end.

Theorem c36_error_returned : forall s,
  result s = 0%nat -> woken s = true -> idle s = true -> res_err s = true -> res_real s = true ->
  result (fst (step s Drain)) = 1%nat.
Proof. exact drain_returns_error. Qed.
Print Assumptions c36_error_returned.

(* component ids of valid requests (non-empty service id) decode back to the same request;
   base58 as an encoding that decodes what it encoded, for non-empty data *)
Theorem c36_rt : forall (b58enc : bytes -> bytes) (b58dec : bytes -> option bytes),
  (forall x, x <> [] -> b58dec (b58enc x) = Some x) ->
  forall svc srv,
    svc <> [] ->
    Z.of_nat (length svc) < 9223372036854775808 ->
    Z.of_nat (length srv) < 9223372036854775808 ->
    unmarshal_component_id b58dec (marshal_component_id b58enc svc srv) = Ok (svc, srv).
Proof. exact component_id_roundtrip. Qed.
Print Assumptions c36_rt.

(* non-vacuity: a well-formed history with two providers, and what it reports;
   without the bus contract (same id added twice) Exists would be repeated *)
Example c36_nonvacuous :
  wf_hist init [Add 1 true; Add 2 true; IdleCb true false false; Remove 1; Remove 2; Add 3 true] /\
  snd (run init [Add 1 true; Add 2 true; IdleCb true false false; Remove 1; Remove 2; Add 3 true])
    = [RExists; RIdle true; RRemoved; RExists] /\
  snd (run init [Add 1 true; Add 1 true]) = [RExists; RExists] /\
  (* the last provider vanishes while Exists is being written (between two Drain regions) *)
  (let s := fst (run init [Add 1 true; Drain; Remove 1; Drain]) in
   woken s = false /\ sent s = [RExists; RRemoved]) /\
  (forall x : bytes, x <> [] -> (fun y => Some y) ((fun y : bytes => y) x) = Some x).
Proof.
  split; [apply wf_histb_spec; reflexivity|]. repeat split; reflexivity.
Qed.
