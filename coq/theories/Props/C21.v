(* C21: a signaling send is acknowledged only after the partner received it;
   acks and clears only affect the message they name.
   Part 1 (this file, client transition system, relay = arbitrary environment).
   Part 2 (composition with the relay model) is in the theorems c21_e2e_* below
   when SignalClient/Compose.v is present. *)
From Bifrost Require Import Lib.Base SignalClient.Model SignalClient.Proofs SignalClient.ProofsAck.

(* In every history and against every relay, a Send that reports success for
   message m while the session epoch is e was preceded, in the same epoch e, by
   the processing of an Ack response naming exactly m's sequence number while m
   was the pending message. *)
Theorem c21_send_ok_after_ack : forall c acts s tr pre post i m e,
  run c c_init acts = (s, tr) ->
  tr = pre ++ OSendDone i true m e :: post ->
  In (OAckProc (m_seq m) e) pre.
Proof. exact send_ok_after_ack. Qed.
Print Assumptions c21_send_ok_after_ack.

(* An Ack n that does not name the pending message changes nothing at all. *)
Theorem c21_ack_named : forall c s n,
  seq_is (t_out (tk s)) n = false ->
  step c s (AResp (PAck n)) = None \/ step c s (AResp (PAck n)) = Some (s, []).
Proof. exact ack_names_only_its_message. Qed.
Print Assumptions c21_ack_named.

(* An Ack n never touches the epoch, the receive slot, or the status of any call;
   the send slot either keeps its message or (cancelled message) is emptied. *)
Theorem c21_ack_frame : forall c s n s' o,
  step c s (AResp (PAck n)) = Some (s', o) ->
  t_open (tk s') = t_open (tk s) /\ t_recv (tk s') = t_recv (tk s) /\ t_proc (tk s') = t_proc (tk s) /\
  (t_out (tk s') = t_out (tk s) \/ (t_out (tk s') = None /\ t_cancel (tk s) = true)) /\
  map r_st (recvs s') = map r_st (recvs s) /\ map s_st (sends s') = map s_st (sends s).
Proof. exact ack_touches_only_send_slot. Qed.
Print Assumptions c21_ack_frame.

(* A Clear n that does not name the received message changes nothing at all. *)
Theorem c21_clear_named : forall c s n,
  seq_is (t_recv (tk s)) n = false ->
  step c s (AResp (PClear n)) = None \/ step c s (AResp (PClear n)) = Some (s, []).
Proof. exact clear_names_only_its_message. Qed.
Print Assumptions c21_clear_named.

(* A Clear n never touches the epoch, the send slot, or the status of any call. *)
Theorem c21_clear_frame : forall c s n s' o,
  step c s (AResp (PClear n)) = Some (s', o) ->
  t_open (tk s') = t_open (tk s) /\ t_out (tk s') = t_out (tk s) /\ t_sent (tk s') = t_sent (tk s) /\
  t_acked (tk s') = t_acked (tk s) /\ t_cancel (tk s') = t_cancel (tk s) /\
  map r_st (recvs s') = map r_st (recvs s) /\ map s_st (sends s') = map s_st (sends s).
Proof. exact clear_touches_only_recv_slot. Qed.
Print Assumptions c21_clear_frame.

(* non-vacuity: a Send that succeeds, a later ack for the old number that does
   nothing to the next message, and a clear that only removes the message it names *)
Definition ex21 := mkCfg 0 1.
Example c21_nonvacuous :
  let acts := [AConnStart; AResp (POpened 2); ASendStart [1]; ASendIter 0%nat; ALoop;
               AResp (PAck 1); ASendIter 0%nat;
               ASendStart [2]; ASendIter 1%nat; ALoop; AResp (PAck 1); ASendIter 1%nat] in
  snd (run ex21 c_init acts) =
    [OReq RInit; OReq (RSend 2 (sign_msg 0 [1] 1)); OAckProc 1 (Some 2);
     OSendDone 0%nat true (sign_msg 0 [1] 1) (Some 2); OReq (RSend 2 (sign_msg 0 [2] 2))]
  /\ map s_st (sends (fst (run ex21 c_init acts))) = [SOk; SRun].
Proof. vm_compute. split; reflexivity. Qed.
