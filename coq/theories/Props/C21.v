(* C21: a signaling send is acknowledged only after the partner received it;
   acks and clears only affect the message they name.
   Part 1: the composition of two clients (client/client.go), FIFO streams and
   the relay's Session RPC (server/session.go, with pending acks and clears
   dropped on every epoch change), honest or message-dropping: end to end.
   Part 2: the client transition system alone, the relay being an ARBITRARY
   environment: what an Ack / Clear can touch, and what a successful Send needs. *)
From Bifrost Require Import Lib.Base SignalClient.Model SignalClient.Proofs SignalClient.ProofsAck
  SignalClient.Compose SignalClient.ProofsE2E.

(* End to end, for ALL histories of the composed system (any interleaving of
   application calls Send / Recv / cancel on both sides, client goroutines,
   stream starts and failures, relay attach / request handling / write loop /
   detach, and loss of queued SendMsg / Ack / Clear / RecvMsg messages): if a
   Send of peer x reports success for message m while x's session epoch is eo,
   then earlier in the history a Recv of the partner returned exactly m while
   the partner's session epoch was the same eo. *)
Theorem c21_ack : forall acts w tr pre post x i m eo,
  wrun w_init acts = (w, tr) ->
  tr = pre ++ (x, OSendDone i true m eo) :: post ->
  exists j, In (negb x, ORecvDone j (Some m) eo) pre.
Proof. exact send_ok_after_partner_recv. Qed.
Print Assumptions c21_ack.

(* non-vacuity of c21_ack: a history in which A's Send succeeds in epoch 2 after
   B's Recv returned the message in epoch 2 ... *)
Definition pA := true.
Definition pB := false.
Definition ex_attach : list wact :=
  [WConn pA; RAttach pA; WConn pB; RAttach pB; RLoop pA; RLoop pB; WDeliver pA; WDeliver pB;
   WCli pA ALoop; WCli pB ALoop].
Definition ex_flow : list wact :=
  ex_attach ++
  [WCli pA (ASendStart [7]); WCli pA (ASendIter 0%nat); WCli pA ALoop; RReq pA; RLoop pB; WDeliver pB;
   WCli pB ARecvStart; WCli pB (ARecvIter 0%nat); WCli pB ALoop; RReq pB; RLoop pA; WDeliver pA;
   WCli pA (ASendIter 0%nat)].
Example c21_ack_nonvacuous :
  In (pA, OSendDone 0%nat true (sign_msg 0 [7] 1) (Some 2)) (snd (wrun w_init ex_flow)) /\
  In (pB, ORecvDone 0%nat (Some (sign_msg 0 [7] 1)) (Some 2)) (snd (wrun w_init ex_flow)).
Proof. vm_compute. split; tauto. Qed.

(* ... and the back-pressure history of the stale-ack defect (A's write loop at
   the relay does not run while B acks, detaches and re-attaches): with the
   relay as it is now A's Send does not report success on the strength of the
   old epoch's ack; the ack is gone and the message is re-sent in epoch 4. *)
Definition ex_stale : list wact :=
  ex_attach ++
  [WCli pA (ASendStart [7]); WCli pA (ASendIter 0%nat); WCli pA ALoop; RReq pA; RLoop pB; WDeliver pB;
   WCli pB ARecvStart; WCli pB (ARecvIter 0%nat); WCli pB ALoop; RReq pB;
   WFail pB; WCli pB ALoop; WCli pB ALoopErr; RDetach pB; WConn pB; RAttach pB;
   RLoop pA; WDeliver pA; WDeliver pA; WCli pA (ASendIter 0%nat); WCli pA ALoop].
Example c21_stale_ack_regression :
  let r := wrun w_init ex_stale in
  (forall i m e, ~ In (pA, OSendDone i true m e) (snd r)) /\
  t_open (tk (s_cl (w_a (fst r)))) = Some 4 /\ t_acked (tk (s_cl (w_a (fst r)))) = false /\
  In (pA, OReq (RSend 4 (sign_msg 0 [7] 1))) (snd r).
Proof.
  vm_compute. split; [|split; [reflexivity|split; [reflexivity|tauto]]].
  intros i m e H. repeat (destruct H as [H|H]; [discriminate|]). exact H.
Qed.

(* In every history and against every relay, a Send that reports success for
   message m while the session epoch is e was preceded, in the same epoch e, by
   the processing of an Ack response naming exactly m's sequence number while m
   was the pending message. *)
Theorem c21_send_ok_after_ack : forall c acts s tr pre post i m e,
  run c c_init acts = (s, tr) ->
  tr = pre ++ OSendDone i true m e :: post ->
  In (OAckProc (m_seq m) e) pre.
Proof. exact send_ok_after_ack. Qed.
Print Assumptions c21_send_ok_after_ack.

(* An Ack n that does not name the pending message changes nothing at all. *)
Theorem c21_ack_named : forall c s n,
  seq_is (t_out (tk s)) n = false ->
  step c s (AResp (PAck n)) = None \/ step c s (AResp (PAck n)) = Some (s, []).
Proof. exact ack_names_only_its_message. Qed.
Print Assumptions c21_ack_named.

(* An Ack n never touches the epoch, the receive slot, or the status of any call;
   the send slot either keeps its message or (cancelled message) is emptied. *)
Theorem c21_ack_frame : forall c s n s' o,
  step c s (AResp (PAck n)) = Some (s', o) ->
  t_open (tk s') = t_open (tk s) /\ t_recv (tk s') = t_recv (tk s) /\ t_proc (tk s') = t_proc (tk s) /\
  (t_out (tk s') = t_out (tk s) \/ (t_out (tk s') = None /\ t_cancel (tk s) = true)) /\
  map r_st (recvs s') = map r_st (recvs s) /\ map s_st (sends s') = map s_st (sends s).
Proof. exact ack_touches_only_send_slot. Qed.
Print Assumptions c21_ack_frame.

(* A Clear n that does not name the received message changes nothing at all. *)
Theorem c21_clear_named : forall c s n,
  seq_is (t_recv (tk s)) n = false ->
  step c s (AResp (PClear n)) = None \/ step c s (AResp (PClear n)) = Some (s, []).
Proof. exact clear_names_only_its_message. Qed.
Print Assumptions c21_clear_named.

(* A Clear n never touches the epoch, the send slot, or the status of any call. *)
Theorem c21_clear_frame : forall c s n s' o,
  step c s (AResp (PClear n)) = Some (s', o) ->
  t_open (tk s') = t_open (tk s) /\ t_out (tk s') = t_out (tk s) /\ t_sent (tk s') = t_sent (tk s) /\
  t_acked (tk s') = t_acked (tk s) /\ t_cancel (tk s') = t_cancel (tk s) /\
  map r_st (recvs s') = map r_st (recvs s) /\ map s_st (sends s') = map s_st (sends s).
Proof. exact clear_touches_only_recv_slot. Qed.
Print Assumptions c21_clear_frame.

(* "Handed to the application" means that Recv RETURNED the message.  A Recv
   call whose context is cancelled (before the call, while it waits, at any
   point) ends with an error WITHOUT touching the tracker, and an iteration
   that does not return a message changes nothing: only a Recv that returns m
   marks m as processed, so only then is m acknowledged (c21_ack counts
   exactly these returns). *)
Theorem c21_recv_cancel_frame : forall c s j s' o,
  step c s (ARecvCancel j) = Some (s', o) ->
  tk s' = tk s /\ sends s' = sends s /\ o = [ORecvDone j None (t_open (tk s))].
Proof. exact recv_cancel_frame. Qed.
Print Assumptions c21_recv_cancel_frame.

Theorem c21_recv_iter_frame : forall c s j s' o,
  step c s (ARecvIter j) = Some (s', o) ->
  (exists m, o = [ORecvDone j (Some m) (t_open (tk s))] /\ t_recv (tk s) = Some m) \/
  (o = [] /\ tk s' = tk s /\ sends s' = sends s).
Proof. exact recv_iter_frame. Qed.
Print Assumptions c21_recv_iter_frame.

(* non-vacuity: a Send that succeeds, a later ack for the old number that does
   nothing to the next message, and a clear that only removes the message it names *)
Definition ex21 := mkCfg 0 1.
Example c21_nonvacuous :
  let acts := [AConnStart; AResp (POpened 2); ASendStart [1]; ASendIter 0%nat; ALoop;
               AResp (PAck 1); ASendIter 0%nat;
               ASendStart [2]; ASendIter 1%nat; ALoop; AResp (PAck 1); ASendIter 1%nat] in
  snd (run ex21 c_init acts) =
    [OReq RInit; OReq (RSend 2 (sign_msg 0 [1] 1)); OAckProc 1 (Some 2);
     OSendDone 0%nat true (sign_msg 0 [1] 1) (Some 2); OReq (RSend 2 (sign_msg 0 [2] 2))]
  /\ map s_st (sends (fst (run ex21 c_init acts))) = [SOk; SRun].
Proof. vm_compute. split; reflexivity. Qed.
