(* C37: directive de-duplication never merges different requests.
   For every directive type: IsEquivalent (as regenerated from the Go source into
   gen/Equiv.v) implies equality of every resolution parameter (Dir/Model.v).
   `str` is the String() rendering used by some comparisons; it only needs to be injective. *)
From Bifrost Require Import Lib.Base gen.Equiv Dir.Model Dir.Proofs.

Theorem c37_solicit : forall str, injective str -> forall a b,
  solicitProtocol_is_equivalent str a b = true -> solicitProtocol_params a = solicitProtocol_params b.
Proof. intros str Hinj. first [exact (solicitProtocol_sound str Hinj)|exact (solicitProtocol_sound str)]. Qed.
Print Assumptions c37_solicit.

Theorem c37_establish_link : forall str, injective str -> forall a b,
  establishLinkWithPeer_is_equivalent str a b = true -> establishLinkWithPeer_params a = establishLinkWithPeer_params b.
Proof. intros str Hinj. first [exact (establishLinkWithPeer_sound str Hinj)|exact (establishLinkWithPeer_sound str)]. Qed.
Print Assumptions c37_establish_link.

Theorem c37_handle_mounted_stream : forall str, injective str -> forall a b,
  handleMountedStream_is_equivalent str a b = true -> handleMountedStream_params a = handleMountedStream_params b.
Proof. intros str Hinj. first [exact (handleMountedStream_sound str Hinj)|exact (handleMountedStream_sound str)]. Qed.
Print Assumptions c37_handle_mounted_stream.

Theorem c37_dial_tpt_addr : forall str, injective str -> forall a b,
  dialTptAddr_is_equivalent str a b = true -> dialTptAddr_params a = dialTptAddr_params b.
Proof. intros str Hinj. first [exact (dialTptAddr_sound str Hinj)|exact (dialTptAddr_sound str)]. Qed.
Print Assumptions c37_dial_tpt_addr.

Theorem c37_lookup_tpt_addr : forall str, injective str -> forall a b,
  lookupTptAddr_is_equivalent str a b = true -> lookupTptAddr_params a = lookupTptAddr_params b.
Proof. intros str Hinj. first [exact (lookupTptAddr_sound str Hinj)|exact (lookupTptAddr_sound str)]. Qed.
Print Assumptions c37_lookup_tpt_addr.

Theorem c37_lookup_transport : forall str, injective str -> forall a b,
  lookupTransport_is_equivalent str a b = true -> lookupTransport_params a = lookupTransport_params b.
Proof. intros str Hinj. first [exact (lookupTransport_sound str Hinj)|exact (lookupTransport_sound str)]. Qed.
Print Assumptions c37_lookup_transport.

Theorem c37_lookup_rpc_service : forall str, injective str -> forall a b,
  lookupRpcService_is_equivalent str a b = true -> lookupRpcService_params a = lookupRpcService_params b.
Proof. intros str Hinj. first [exact (lookupRpcService_sound str Hinj)|exact (lookupRpcService_sound str)]. Qed.
Print Assumptions c37_lookup_rpc_service.

Theorem c37_lookup_rpc_client : forall str, injective str -> forall a b,
  lookupRpcClient_is_equivalent str a b = true -> lookupRpcClient_params a = lookupRpcClient_params b.
Proof. intros str Hinj. first [exact (lookupRpcClient_sound str Hinj)|exact (lookupRpcClient_sound str)]. Qed.
Print Assumptions c37_lookup_rpc_client.

(* HTTP lookup: full for the URL taken as its String() form (what the code compares) ... *)
Theorem c37_lookup_http_handler : forall str, injective str -> forall a b,
  lookupHTTPHandler_is_equivalent str a b = true -> lookupHTTPHandler_params a = lookupHTTPHandler_params b.
Proof. intros str Hinj. first [exact (lookupHTTPHandler_sound str Hinj)|exact (lookupHTTPHandler_sound str)]. Qed.
Print Assumptions c37_lookup_http_handler.

(* ... but REFUTED for the parameter the resolvers read (URL.Path): url.URL{Host:"x"} and
   url.URL{Path:"//x"} render the same text.  KNOWN FINDING
   equiv-merges-lookupHTTPHandler-handlerURL-path; the witness records are tied to the real
   url.URL values by the correspondence case HttpWitness. *)
Theorem c37_lookup_http_handler_refuted :
  exists a b, lookupHTTPHandler_is_equivalent (fun x => x) a b = true /\
              lookupHTTPHandler_resolution_params a <> lookupHTTPHandler_resolution_params b.
Proof. exact lookupHTTPHandler_refuted. Qed.
Print Assumptions c37_lookup_http_handler_refuted.

Theorem c37_signal_peer : forall str, injective str -> forall a b,
  signalPeer_is_equivalent str a b = true -> signalPeer_params a = signalPeer_params b.
Proof. intros str Hinj. first [exact (signalPeer_sound str Hinj)|exact (signalPeer_sound str)]. Qed.
Print Assumptions c37_signal_peer.

Theorem c37_get_peer : forall str, injective str -> forall a b,
  getPeer_is_equivalent str a b = true -> getPeer_params a = getPeer_params b.
Proof. intros str Hinj. first [exact (getPeer_sound str Hinj)|exact (getPeer_sound str)]. Qed.
Print Assumptions c37_get_peer.

(* the struct shapes the hand-written parameter lists were reviewed against *)
Theorem c37_field_counts_reviewed :
  (solicitProtocol_field_count, establishLinkWithPeer_field_count, handleMountedStream_field_count,
   dialTptAddr_field_count, lookupTptAddr_field_count, lookupTransport_field_count,
   lookupRpcService_field_count, lookupRpcClient_field_count, lookupHTTPHandler_field_count,
   signalPeer_field_count, getPeer_field_count)
  = (4, 2, 3, 3, 1, 2, 2, 2, 3, 3, 1)%nat.
Proof. exact field_counts_reviewed. Qed.
Print Assumptions c37_field_counts_reviewed.

(* non-vacuity: the premise is satisfiable (identity is injective), equivalence holds for a
   non-trivial pair, and a request with an extra transport constraint is NOT equivalent *)
Example c37_nonvacuous :
  injective (fun x => x) /\
  solicitProtocol_is_equivalent (fun x => x)
    (mk_solicitProtocol [1] [2] [3] 7) (mk_solicitProtocol [1] [2] [3] 7) = true /\
  solicitProtocol_is_equivalent (fun x => x)
    (mk_solicitProtocol [1] [2] [3] 0) (mk_solicitProtocol [1] [2] [3] 7) = false /\
  dialTptAddr_is_equivalent (fun x => x)
    (mk_dialTptAddr (mk_dialer_opts [9] [1]) [4] [5]) (mk_dialTptAddr (mk_dialer_opts [9] [2]) [4] [5]) = true.
Proof. split; [intros x y H; exact H|]. repeat split; reflexivity. Qed.
