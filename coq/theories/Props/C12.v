(* C12: public-key encryption round-trips and is bound to key and context. *)
From Bifrost Require Import Lib.Base Lib.Sym Enc.Prim Enc.PrimFacts Enc.Model Enc.Proofs.

(* decrypting with the matching private key and the same context returns
   exactly the message, for every key pair, context and message *)
Theorem c12_roundtrip : forall o sk ctx m,
  honest_orc o ->
  exists c, encrypt o (edpub sk) ctx m = Ok c /\ decrypt o sk ctx c = Ok m.
Proof.
  intros o sk ctx m HO. exists (enc_ct o (edpub sk) ctx m).
  split; [apply encrypt_honest, HO|apply decrypt_encrypt, HO].
Qed.
Print Assumptions c12_roundtrip.

(* a different private key or a different context: an error, never a plaintext *)
Theorem c12_wrong_key_or_context : forall o sk sk' ctx ctx' m c,
  encrypt o (edpub sk) ctx m = Ok c ->
  sk' <> sk \/ ctx' <> ctx ->
  exists k, decrypt o sk' ctx' c = Err k.
Proof.
  intros o sk sk' ctx ctx' m c HE HN. apply encrypt_ok_inv in HE. destruct HE as (_ & _ & ->).
  apply decrypt_wrong, HN.
Qed.
Print Assumptions c12_wrong_key_or_context.

(* ANY modified ciphertext (mutation, truncation, extension, splice, arbitrary
   bytes: every AEAD/AES output byte it contains is a byte of the original) is
   rejected with an error, whatever key and context are used to decrypt *)
Theorem c12_modified_rejected : forall o tpub ctx m c c' sk' ctx',
  encrypt o tpub ctx m = Ok c ->
  keyed_from c c' -> c' <> c ->
  exists k, decrypt o sk' ctx' c' = Err k.
Proof.
  intros o tpub ctx m c c' sk' ctx' HE HF HN. apply encrypt_ok_inv in HE. destruct HE as (HL & _ & ->).
  eapply mutation_err; eauto.
Qed.
Print Assumptions c12_modified_rejected.

(* hence decryption never yields a plaintext other than the encrypted one *)
Theorem c12_no_other_plaintext : forall o tpub ctx m c c' sk' ctx' m',
  encrypt o tpub ctx m = Ok c ->
  keyed_from c c' ->
  decrypt o sk' ctx' c' = Ok m' -> c' = c.
Proof.
  intros o tpub ctx m c c' sk' ctx' m' HE HF HD. apply encrypt_ok_inv in HE. destruct HE as (HL & _ & ->).
  eapply mutation_rejected; eauto.
Qed.
Print Assumptions c12_no_other_plaintext.

(* arbitrary ciphertext bytes, keys, contexts and oracle answers never panic *)
Theorem c12_total : forall o sk ctx c, decrypt o sk ctx c <> Panic.
Proof. exact decrypt_total. Qed.
Print Assumptions c12_total.

Theorem c12_short_rejected : forall o sk ctx c, (length c < 36)%nat -> decrypt o sk ctx c = Err E_SHORT.
Proof. exact decrypt_short. Qed.
Print Assumptions c12_short_rejected.

Theorem c12_encrypt_total : forall o tpub ctx m, encrypt o tpub ctx m <> Panic.
Proof. exact encrypt_total. Qed.
Print Assumptions c12_encrypt_total.

(* interface used by the envelope and WebRTC models *)
Theorem c12_dec_enc_spec : forall o, honest_orc o -> forall sk sk' ctx ctx' m c,
  encrypt o (edpub sk) ctx m = Ok c ->
  (sk' = sk -> ctx' = ctx -> decrypt o sk' ctx' c = Ok m) /\
  (sk' <> sk \/ ctx' <> ctx -> exists k, decrypt o sk' ctx' c = Err k).
Proof. exact dec_enc_spec. Qed.
Print Assumptions c12_dec_enc_spec.

(* non-vacuity: an oracle that accepts honest keys exists, and a truncated,
   an extended and a bit-flipped ciphertext satisfy the premise of
   c12_modified_rejected *)
Definition orc0 : orc := {| o_valid := fun _ => true; o_s2raw := fun _ => None; o_s2len := fun _ => 3%nat |}.
Example c12_honest_orc_exists : honest_orc orc0.
Proof. intros s. reflexivity. Qed.

Example c12_mutations_are_keyed_from : forall c : sbytes,
  (forall n, keyed_from c (firstn n c)) /\
  (forall e, keyed_from c (c ++ lift e)) /\
  (forall b, keyed_from c (lift b)).
Proof.
  intros c. repeat split.
  - intros n x HI _. eapply in_firstn, HI.
  - intros e x HI HK. apply in_app_or in HI. destruct HI as [HI|HI]; [exact HI|].
    unfold lift in HI. apply in_map_iff in HI. destruct HI as (z & <- & _). discriminate.
  - intros b x HI HK. unfold lift in HI. apply in_map_iff in HI. destruct HI as (z & <- & _). discriminate.
Qed.
