(* C09: the buffered connection never silently loses or reorders bytes. *)
From Bifrost Require Import Lib.Base Lib.Chunk gen.Frame Frame.Model Frame.Proofs09.

(* For EVERY schedule of pump iterations and Read calls (any buffer sizes), on
   every chunking of the underlying stream: the bytes returned by the reads,
   each followed by the tail that read discarded, then what is still queued
   and what is still in transit, are exactly the bytes of the stream in order;
   a tail is discarded only by a read that reported io.ErrShortBuffer. *)
Theorem c09_order : forall acts s e c' obs,
  crun (cinit s e) acts = (c', obs) ->
  concat (map consumed obs) ++ concat (cq c') ++ sdata (und c') = sdata s /\ Forall obs_wf obs.
Proof. exact conn_order. Qed.
Print Assumptions c09_order.

(* the end is reported only once every byte was returned (or explicitly
   discarded), and it is the error of the underlying stream (io.EOF or other) *)
Theorem c09_end : forall acts s e c' pre k post,
  crun (cinit s e) acts = (c', pre ++ OEnd k :: post) ->
  k = e /\ concat (map consumed pre) = sdata s.
Proof. exact conn_end. Qed.
Print Assumptions c09_end.

(* buffers of at least connPktSize: no read is short and the returned bytes
   alone are the stream *)
Theorem c09_big_buffers : forall acts s e c' obs,
  big_reads acts -> crun (cinit s e) acts = (c', obs) ->
  concat (map returned obs) ++ concat (cq c') ++ sdata (und c') = sdata s /\ Forall lossless obs.
Proof. exact conn_big_buffers. Qed.
Print Assumptions c09_big_buffers.

(* the pump terminates and has then queued everything; reads on the drained,
   ended connection report the end *)
Theorem c09_pump_ends : forall n c c' obs,
  cwf c -> (length (sdata (und c)) < n)%nat -> crun c (repeat APump n) = (c', obs) ->
  ended c' = true /\ obs = [] /\ sdata (und c') = [] /\ concat (cq c') = pending c.
Proof. exact pump_ends. Qed.
Print Assumptions c09_pump_ends.

Theorem c09_read_after_end : forall c b,
  cq c = [] -> ended c = true -> cstep c (ARead b) = (c, [OEnd (uerr c)]).
Proof. exact read_after_end. Qed.
Print Assumptions c09_read_after_end.

(* Write loops until everything is written or reports the count written *)
Theorem c09_write : forall fuel acc pkt ws n err,
  (length pkt < fuel)%nat -> conn_write fuel acc pkt = (ws, n, err) ->
  concat ws = firstn n pkt /\ (n <= length pkt)%nat /\ (err = false -> n = length pkt).
Proof. exact conn_write_spec. Qed.
Print Assumptions c09_write.

(* non-vacuity: a run with a short read, a discarded tail and the end *)
Example c09_example :
  crun (cinit ([2; 3]%nat, [1; 2; 3; 4; 5]) 20%nat) [APump; ARead 1; APump; APump; ARead 9; ARead 9; APump; ARead 0] =
  (mkconn ([], []) 20%nat [] true,
   [OData [1] true [2]; OData [3; 4; 5] false []; OEnd 20%nat; OEnd 20%nat])
  /\ big_reads [APump; ARead 2048; ARead 4096].
Proof. split; [vm_compute; reflexivity|repeat constructor; vm_compute; discriminate]. Qed.
