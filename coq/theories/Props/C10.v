(* C10: peer IDs faithfully encode public keys. *)
From Bifrost Require Import Lib.Base Lib.Varint Lib.Base58 Id.Pb Id.Model Id.Proofs.
From Bifrost Require Import gen.Ident.

(* the peer ID of a public key decodes back to exactly that key *)
Theorem c10_extract : forall pk, wf_pub pk -> extract_pub (id_from_pub pk) = Ok pk.
Proof. exact extract_id_from_pub. Qed.
Print Assumptions c10_extract.

(* the text form round-trips to the same ID: for every ID IDFromBytes accepts ... *)
Theorem c10_text_roundtrip : forall id, all_bytes id = true -> id_from_bytes id = Ok id ->
  idb58_decode (idb58_encode id) = Ok id.
Proof. exact id_text_roundtrip. Qed.
Print Assumptions c10_text_roundtrip.

(* ... in particular for the ID of every key *)
Theorem c10_text_roundtrip_pub : forall pk, wf_pub pk ->
  idb58_decode (idb58_encode (id_from_pub pk)) = Ok (id_from_pub pk).
Proof. exact id_text_roundtrip_pub. Qed.
Print Assumptions c10_text_roundtrip_pub.

(* and the other way round: accepted text is the canonical text of the ID it yields,
   and two IDs never share a text form *)
Theorem c10_text_canonical : forall s id, idb58_decode s = Ok id -> idb58_encode id = s /\ wf_id id.
Proof. exact id_text_canonical. Qed.
Print Assumptions c10_text_canonical.

Theorem c10_text_injective : forall a b, all_bytes a = true -> all_bytes b = true ->
  idb58_encode a = idb58_encode b -> a = b.
Proof. exact id_text_inj. Qed.
Print Assumptions c10_text_injective.

(* two different keys never have the same ID *)
Theorem c10_injective : forall a b, wf_pub a -> wf_pub b -> id_from_pub a = id_from_pub b -> a = b.
Proof. exact id_from_pub_inj. Qed.
Print Assumptions c10_injective.

(* an ID matches a key exactly when it was derived from it (and so matches at most one key) *)
Theorem c10_matches : forall id pk, matches_pub id pk = true <-> id = id_from_pub pk.
Proof. exact matches_iff_derived. Qed.
Print Assumptions c10_matches.

Theorem c10_matches_unique : forall id a b, wf_pub a -> wf_pub b ->
  matches_pub id a = true -> matches_pub id b = true -> a = b.
Proof. exact matches_unique. Qed.
Print Assumptions c10_matches_unique.

(* IDFromBytes returns its argument and accepts exactly the identity multihashes
     c ++ l ++ d,  c any Uvarint-accepted encoding of mhIdentity (non-minimal ones included),
                   l any Uvarint-accepted encoding of |d| *)
Theorem c10_accepts_exactly : forall b r, id_from_bytes b = Ok r <-> r = b /\ wf_id b.
Proof. exact id_from_bytes_exact. Qed.
Print Assumptions c10_accepts_exactly.

Theorem c10_derived_accepted : forall pk, wf_pub pk -> id_from_bytes (id_from_pub pk) = Ok (id_from_pub pk).
Proof. exact id_from_bytes_accepts_derived. Qed.
Print Assumptions c10_derived_accepted.

(* ExtractPublicKey succeeds exactly on the ID derived from the key it returns *)
Theorem c10_extract_sound : forall id pk, extract_pub id = Ok pk ->
  id = id_from_pub pk /\ zlen pk = ed25519_pub_size /\ id_from_bytes id = Ok id.
Proof. exact extract_pub_sound. Qed.
Print Assumptions c10_extract_sound.

Theorem c10_extract_iff : forall pk, wf_pub pk -> forall id, extract_pub id = Ok pk <-> id = id_from_pub pk.
Proof. exact extract_pub_iff. Qed.
Print Assumptions c10_extract_iff.

(* the accepted IDs are self-delimiting (used by C32: session id injectivity) *)
Theorem c10_wf_prefix_free : forall a c x y, wf_id a -> wf_id c -> a ++ x = c ++ y -> a = c.
Proof. exact wf_id_prefix_free. Qed.
Print Assumptions c10_wf_prefix_free.

(* parsing arbitrary bytes or text never panics *)
Theorem c10_total_bytes : forall b, id_from_bytes b <> Panic.
Proof. exact id_from_bytes_total. Qed.
Print Assumptions c10_total_bytes.

Theorem c10_total_text : forall s, idb58_decode s <> Panic.
Proof. exact idb58_decode_total. Qed.
Print Assumptions c10_total_text.

Theorem c10_total_extract : forall id, all_bytes id = true -> extract_pub id <> Panic.
Proof. exact extract_pub_total. Qed.
Print Assumptions c10_total_extract.

(* text with a character outside the alphabet, and the empty text, are rejected *)
Theorem c10_text_rejects_nonalphabet : forall s c, In c s -> b58_digit c = None -> idb58_decode s = Err EB58.
Proof. intros s c H1 H2. unfold idb58_decode. rewrite (b58_decode_rejects_nonalpha s c H1 H2). reflexivity. Qed.
Print Assumptions c10_text_rejects_nonalphabet.

(* recorded limit: IDFromBytes accepts non-minimal varints (Go's Uvarint), so an
   accepted byte string need not be a derived ID; ExtractPublicKey refuses those *)
Theorem c10_noncanonical_no_key :
  id_from_bytes noncanonical_example = Ok noncanonical_example /\
  extract_pub noncanonical_example = Err ENotCanonical.
Proof. exact id_noncanonical_no_key. Qed.
Print Assumptions c10_noncanonical_no_key.

(* non-vacuity *)
Example c10_nonvacuous_key : wf_pub (repeat 255 32) /\ wf_pub (repeat 0 32) /\
  id_from_pub (repeat 0 32) <> id_from_pub (repeat 255 32).
Proof. repeat split; vm_compute; discriminate. Qed.

Example c10_nonvacuous_id :
  wf_id [0; 2; 170; 187] /\ id_from_bytes [0; 2; 170; 187] = Ok [0; 2; 170; 187] /\
  id_from_bytes [18; 1; 170] = Err ENotIdentity /\ id_from_bytes [0; 2; 170] = Err EMismatch /\
  id_from_bytes [128; 0; 1; 7] = Ok [128; 0; 1; 7].
Proof.
  split; [exists [0], [2], [170; 187]; repeat split|]. repeat split.
Qed.
