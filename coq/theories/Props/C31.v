(* C31: a solicited stream has at most one owner. *)
From Bifrost Require Import Lib.Base Lib.Sym Solicit2.Model Solicit2.ProofsOwner.

(* one value, ALL lists of Accept / Close / IsAccepted calls (one call = one
   mutex region, so every interleaving of concurrent callers is such a list),
   from any initial state: at most one Accept returns the stream *)
Theorem c31_value_at_most_one_accept : forall ops w,
  (rcount RStream (snd (wrun w ops)) <= 1)%nat.
Proof. exact at_most_one_accept. Qed.
Print Assumptions c31_value_at_most_one_accept.

(* once Close has returned true, every later Accept returns the error and no
   later call returns the stream (b: what the stream's own Close returned) *)
Theorem c31_closed_then_accept_fails : forall pre post w b i,
  snd (wstep (fst (wrun w pre)) (Close b)) = RBool true ->
  nth_error post i = Some Accept ->
  nth_error (snd (wrun w (pre ++ Close b :: post))) (length pre + 1 + i) = Some RErr
  /\ ~ In RStream (snd (wrun (fst (wstep (fst (wrun w pre)) (Close b))) post)).
Proof. exact closed_then_accept_fails. Qed.
Print Assumptions c31_closed_then_accept_fails.

(* fault injection: a Close call that reaches the underlying stream closes the
   value whether the stream's Close returned nil or an error *)
Theorem c31_close_reaching_stream_closes_value : forall w b post,
  w_acc w = false -> w_ms w = true ->
  snd (wstep w (Close b)) = RBool true
  /\ w_closes (fst (wstep w (Close b))) = S (w_closes w)
  /\ ~ In RStream (snd (wrun (fst (wstep w (Close b))) post))
  /\ forall i, nth_error post i = Some Accept ->
               nth_error (snd (wrun (fst (wstep w (Close b))) post)) i = Some RErr.
Proof. exact close_reaching_stream_closes_value. Qed.
Print Assumptions c31_close_reaching_stream_closes_value.

(* a stream that was handed out is never closed by the value *)
Theorem c31_accepted_never_closed : forall ops w,
  wgood w -> w_acc w = false ->
  wgood (fst (wrun w ops)) /\
  (In RStream (snd (wrun w ops)) -> w_closes (fst (wrun w ops)) = 0%nat).
Proof. exact accepted_never_closed. Qed.
Print Assumptions c31_accepted_never_closed.

(* resolveMatch hands one and the same value to every matching solicitation *)
Theorem c31_resolve_shares_one_value : forall l sols s h st s',
  sys_step l sols s (Resolve h st) = Some s' ->
  exists v, forall i w, In (i, w) (emitted s') ->
    In (i, w) (emitted s) \/ (w = v /\ In i (resolve_match l sols h)).
Proof. exact resolve_shares_one_value. Qed.
Print Assumptions c31_resolve_shares_one_value.

(* the controller and all its values together: for ANY set of local
   solicitations, any link, any list of resolveMatch calls (each stream once)
   and Accept/Close calls by any holder of any value, every stream is returned
   by at most one AcceptMountedStream call ... *)
Theorem c31_one_owner : forall l sols acts s st,
  sys_run l sols sys_init acts = Some s -> (count_nat st (got s) <= 1)%nat.
Proof. exact one_owner. Qed.
Print Assumptions c31_one_owner.

(* ... and no stream is both handed out and closed by a solicitation value *)
Theorem c31_owned_not_closed : forall l sols acts s st,
  sys_run l sols sys_init acts = Some s -> ~ (In st (got s) /\ In st (closed s)).
Proof. exact owned_not_closed. Qed.
Print Assumptions c31_owned_not_closed.

(* non-vacuity: two local solicitations with different constraints match one
   incoming stream; both hold the value, the second Accept is refused *)
Example c31_nonvacuous :
  let l := mk_side [1] [2] 5 in
  let sols := [mk_sol [97] [98] [] 0; mk_sol [97] [98] [2] 5; mk_sol [97] [99] [] 0] in
  let h := sol_hash (side_sid l) (mk_sol [97] [98] [] 0) in
  exists s, sys_run l sols sys_init [Resolve h 7; Op 0 Accept; Op 0 Accept; Op 0 (Close false)]%nat = Some s /\
            emitted s = [(0, 0); (1, 0)]%nat /\ got s = [7%nat] /\ closed s = [].
Proof. cbn zeta. eexists. split; [vm_compute; reflexivity|]. repeat split. Qed.

Example c31_nonvacuous_good : wgood w_new /\ wgood w_nil /\ wgood w_errv.
Proof. unfold wgood; cbn; repeat split; congruence. Qed.
