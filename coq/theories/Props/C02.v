(* C02: signatures bind key, context, hash type and data. *)
From Bifrost Require Import Lib.Base Lib.Sym Lib.SigSym gen.Sig gen.SigHash Sig.Model Sig.Proofs.

(* facts about the regenerated tables the proofs rest on (digest lengths
   positive, decimal hash-type fields distinct and made of digits, separator
   not ending in a digit, UNKNOWN has no digest function, every other validated
   type has one, Validate accepts every type with a digest function) *)
Theorem c02_tables : table_ok = true.
Proof. exact table_ok_true. Qed.
Print Assumptions c02_tables.

(* exact characterisation of (true, nil) *)
Theorem c02_verify_iff : forall ctx pk data s,
  verify_with_public ctx pk data s = Ok true <->
  exists len, s_ht s <> hash_unknown /\ ht_validate (s_ht s) = true /\
              ht_lookup (s_ht s) hash_sum_table = Some len /\
              s_data s = SigOf pk (sign_body ctx (s_ht s) (digest (s_ht s) len data)).
Proof. exact verify_with_public_true. Qed.
Print Assumptions c02_verify_iff.

(* the bytes of a signature created by NewSignature verify exactly under the
   matching key, the same context, the same hash type and the same data *)
Theorem c02_signature_binds : forall ctx k ht data incl s0 ctx' pk ht' data' pub',
  new_signature ctx k ht data incl = Ok s0 ->
  (verify_with_public ctx' pk data' {| s_pub := pub'; s_ht := ht'; s_data := s_data s0 |} = Ok true
   <-> pk = k /\ ctx' = ctx /\ ht' = ht /\ data' = data).
Proof. exact signature_binds. Qed.
Print Assumptions c02_signature_binds.

(* NewSignature succeeds exactly for the hash types that have a digest function *)
Theorem c02_new_signature : forall ctx k ht data incl s,
  new_signature ctx k ht data incl = Ok s <->
  exists len, ht_lookup ht hash_sum_table = Some len /\
    s = {| s_pub := if incl then PubOf k else PubNone; s_ht := ht;
           s_data := SigOf k (sign_body ctx ht (digest ht len data)) |}.
Proof. exact new_signature_ok. Qed.
Print Assumptions c02_new_signature.

(* unknown hash type (zero value or not validated) and empty signature bytes are errors *)
Theorem c02_rejects : forall ctx pk data s,
  s_ht s = hash_unknown \/ ht_validate (s_ht s) = false \/ s_data s = SigEmpty ->
  exists e, verify_with_public ctx pk data s = Err e.
Proof. exact verify_with_public_rejects. Qed.
Print Assumptions c02_rejects.

(* bytes that are not a signature by that key never verify *)
Theorem c02_forged : forall ctx pk data s,
  (forall body, s_data s <> SigOf pk body) -> verify_with_public ctx pk data s <> Ok true.
Proof. exact verify_with_public_forged. Qed.
Print Assumptions c02_forged.

(* Validate: hash type in the accept set of HashType.Validate (which contains
   the zero value: the code's documented choice, see DESIGN C02), signature
   bytes present, embedded public key absent or parsable *)
Theorem c02_validate : forall s,
  signature_validate s = Ok tt <->
  ht_validate (s_ht s) = true /\ s_data s <> SigEmpty /\ s_pub s <> PubBad.
Proof. exact signature_validate_ok. Qed.
Print Assumptions c02_validate.

Theorem c02_total : forall ctx pk data s k ht incl,
  verify_with_public ctx pk data s <> Panic /\ signature_validate s <> Panic /\
  new_signature ctx k ht data incl <> Panic.
Proof.
  intros. split; [apply verify_with_public_total|split; [apply signature_validate_total|apply new_signature_total]].
Qed.
Print Assumptions c02_total.

(* non-vacuity *)
Example c02_nonvacuous :
  match new_signature [1] 2%nat 3 [4] true with
  | Ok s => verify_cls_ok (verify_with_public [1] 2%nat [4] s) &&
            negb (verify_cls_ok (verify_with_public [1] 3%nat [4] s)) &&
            negb (verify_cls_ok (verify_with_public [1] 2%nat [5] s))
  | _ => false
  end = true.
Proof. vm_compute. reflexivity. Qed.
