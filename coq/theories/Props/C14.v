(* C14: the Ed25519 -> X25519 conversion refuses exactly the small-order
   encodings (ignoring the sign bit) and the non-points. *)
From Bifrost Require Import Lib.Base Lib.Sym Lib.SigSym gen.LowOrder Derive.Model Derive.ProofsLow.

(* the classifier transcribed from IsEdLowOrder answers true exactly on the
   strings that equal a row of the table regenerated from lo25519.go once the
   sign bit is cleared: ALL 32-byte strings, no sampling *)
Theorem c14_classifier : forall ge, (length ge = 32)%nat -> all_bytes ge = true ->
  (is_ed_low_order ge = Ok true <-> exists row, In row ed_blacklist /\ clear_top ge = row).
Proof. exact low_order_spec. Qed.
Print Assumptions c14_classifier.

(* ... it always answers on 32-byte input, reads nothing beyond byte 31, and
   panics (index out of range) on anything shorter *)
Theorem c14_classifier_total : forall ge, (length ge = 32)%nat -> exists b, is_ed_low_order ge = Ok b.
Proof. exact low_order_total. Qed.
Print Assumptions c14_classifier_total.

Theorem c14_classifier_prefix : forall ge, (32 <= length ge)%nat ->
  is_ed_low_order ge = is_ed_low_order (firstn 32 ge).
Proof. exact (classifier_prefix ed_blacklist). Qed.
Print Assumptions c14_classifier_prefix.

Theorem c14_classifier_short_panics : forall ge, (length ge < 32)%nat -> is_ed_low_order ge = Panic.
Proof. exact (classifier_short ed_blacklist). Qed.
Print Assumptions c14_classifier_short_panics.

(* "compared ignoring the sign bit": flipping the top bit of the last byte never changes the answer *)
Theorem c14_sign_bit_ignored : forall ge, (length ge = 32)%nat -> all_bytes ge = true ->
  is_ed_low_order (firstn 31 ge ++ [Z.lxor (nth 31 ge 0) 128]) = is_ed_low_order ge.
Proof. exact low_order_sign_blind. Qed.
Print Assumptions c14_sign_bit_ignored.

(* the regenerated table: declared shape, bytes, sign bit clear in every row, mask = 0x7f *)
Theorem c14_table_closed :
  lo_table_wf ed_blacklist = true /\ lo_table_top_clear ed_blacklist = true /\ lo_mask = 127.
Proof. exact (conj ed_blacklist_wf (conj ed_blacklist_top_clear eq_refl)). Qed.
Print Assumptions c14_table_closed.

(* Soundness of the table itself (every row decodes over GF(2^255-19) to a point
   with 8P = O; the rows are exactly the 255-bit encodings of the y-coordinates
   0, 1, -1, +-y8) is proved in Derive/Curve.v (table_small_order,
   small_order_ys_sound, table_complete).  That file is compiled on every
   check (extra_vo of the registry) but is kept out of this file because coqchk
   re-evaluates its vm_compute proofs with a slow reduction machine (> 20 min). *)

(* PublicKeyToCurve25519 refuses iff low order or not a point (is_point = the
   answer of edwards25519 SetBytes, an oracle carried by the case) *)
Theorem c14_convert : forall is_point ge, (length ge = 32)%nat -> all_bytes ge = true ->
  (pk_to_curve is_point ge = Err E_REFUSED <->
   (exists row, In row ed_blacklist /\ clear_top ge = row) \/ is_point = false).
Proof. exact pk_to_curve_spec. Qed.
Print Assumptions c14_convert.

Theorem c14_convert_total : forall is_point ge, (length ge = 32)%nat -> pk_to_curve is_point ge <> Panic.
Proof. exact pk_to_curve_total. Qed.
Print Assumptions c14_convert_total.

(* second sentence, MODEL LEVEL ONLY (partial): the shared secret is a free
   symmetric function of the two key pairs.  That the real X25519 of the
   converted keys satisfies this equation is curve arithmetic in crypto/ecdh and
   filippo.io/edwards25519; it is sampled by the harness, not proved. *)
Theorem c14_shared_secret_symmetric_partial : forall a b, dh a b = dh b a.
Proof. exact dh_symmetric. Qed.
Print Assumptions c14_shared_secret_symmetric_partial.

Theorem c14_shared_secret_binds_pair_partial : forall a b c d,
  dh a b = dh c d -> (a = c /\ b = d) \/ (a = d /\ b = c).
Proof. exact dh_injective. Qed.
Print Assumptions c14_shared_secret_binds_pair_partial.

(* non-vacuity: the identity encoding with the sign bit set is classified low
   order, a string one bit away from it is not *)
Example c14_nonvacuous :
  is_ed_low_order (1 :: repeat 0 30 ++ [128]) = Ok true /\
  is_ed_low_order (3 :: repeat 0 30 ++ [128]) = Ok false /\
  pk_to_curve true (3 :: repeat 0 31) = Ok tt.
Proof. vm_compute. auto. Qed.
