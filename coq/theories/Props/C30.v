(* C30: solicitations match only on identical protocol ID and context. *)
From Bifrost Require Import Lib.Base Lib.Lex Lib.Sym Lib.Varint Solicit.Model Solicit2.Model Solicit2.ProofsMatch.

(* the protocol hash binds the session, the protocol ID and the context: for
   ALL byte strings (protocol IDs shorter than 2^64 bytes, i.e. every Go
   string), however the bytes are split between the two fields *)
Theorem c30_hash_binds_both_fields : forall sid sid' pid ctx pid' ctx',
  length sid = length sid' ->
  Z.of_nat (length pid) < two64 -> Z.of_nat (length pid') < two64 ->
  (protocol_hash sid pid ctx = protocol_hash sid' pid' ctx' <->
   sid = sid' /\ pid = pid' /\ ctx = ctx').
Proof. exact protocol_hash_inj. Qed.
Print Assumptions c30_hash_binds_both_fields.

(* the two filters of getSolicitEntries / resolveMatch, read as constraints *)
Theorem c30_allows_meaning : forall l s,
  allows l s = true <->
  (s_peer s = [] \/ s_peer s = l_remote l) /\ (s_tpt s = 0 \/ s_tpt s = l_tpt l).
Proof. exact allows_spec. Qed.
Print Assumptions c30_allows_meaning.

(* two solicitations at the two ends of one link are matched exactly when they
   name the same protocol ID and the same context and each side's peer and
   transport constraints allow the link: all protocol IDs, contexts, peer IDs,
   constraints *)
Theorem c30_matched_iff : forall la lb a b,
  ends_of_one_link la lb -> wf_sol a -> wf_sol b ->
  (matched la a lb b = true <->
   s_pid a = s_pid b /\ s_ctx a = s_ctx b /\ allows la a = true /\ allows lb b = true).
Proof. exact matched_iff. Qed.
Print Assumptions c30_matched_iff.

(* in particular a different split of the same bytes never matches *)
Theorem c30_shifted_boundary_never_matches : forall la lb a b,
  ends_of_one_link la lb -> wf_sol a -> wf_sol b ->
  s_pid a ++ s_ctx a = s_pid b ++ s_ctx b -> s_pid a <> s_pid b ->
  matched la a lb b = false.
Proof. exact split_never_matches. Qed.
Print Assumptions c30_shifted_boundary_never_matches.

(* the controller's operational path (announced hash sets, their intersection,
   resolveMatch on each stream) delivers a stream to directive i of one side
   exactly when some solicitation of the other side is matched with it *)
Theorem c30_receivers_are_the_matched : forall la sa lb sb i,
  In i (receivers la sa lb sb) <->
  exists a b, nth_error sa i = Some a /\ In b sb /\ matched la a lb b = true.
Proof. exact receivers_iff. Qed.
Print Assumptions c30_receivers_are_the_matched.

(* non-vacuity: ("ab","c") and ("a","bc") on one link, unconstrained: no match;
   identical pairs with constraints that allow the link: match *)
Example c30_nonvacuous :
  let la := mk_side [1] [2] 5 in let lb := mk_side [2] [1] 6 in
  ends_of_one_link la lb /\
  matched la (mk_sol [97;98] [99] [] 0) lb (mk_sol [97] [98;99] [] 0) = false /\
  matched la (mk_sol [97;98] [99] [2] 5) lb (mk_sol [97;98] [99] [] 6) = true /\
  matched la (mk_sol [97;98] [99] [3] 0) lb (mk_sol [97;98] [99] [] 0) = false /\
  receivers la [mk_sol [97;98] [99] [2] 5; mk_sol [97] [98;99] [] 0] lb [mk_sol [97;98] [99] [] 6] = [0%nat].
Proof. cbn zeta. split; [split; reflexivity|]. repeat split; vm_compute; reflexivity. Qed.

(* link lifecycle: the set of already matched hashes belongs to the link state.
   After ANY history of links coming up, settling and going down (matches on
   the same uuid before, parallel links, ...), a link whose uuid is not tracked
   comes up and is matched afresh: side a's directives that receive a stream
   are exactly `receivers` (= the matched ones, c30_receivers_are_the_matched),
   side b's likewise *)
Theorem c30_link_up_after_any_history : forall sa sb hist id la lb,
  let ls := lrun sa sb [] hist in
  is_up id ls = false ->
  let ls1 := fst (lstep sa sb ls (LinkUp id la lb)) in
  In (id, (receivers la sa lb sb, flat_map (resolve_match lb sb) (matched_hashes la sa lb sb)))
     (snd (lstep sa sb ls1 Settle)).
Proof. exact link_up_after_any_history. Qed.
Print Assumptions c30_link_up_after_any_history.

Theorem c30_link_up_side_b : forall la sa lb sb j,
  ends_of_one_link la lb ->
  (In j (flat_map (resolve_match lb sb) (matched_hashes la sa lb sb)) <->
   exists b a, nth_error sb j = Some b /\ In a sa /\ matched lb b la a = true).
Proof. exact deliveries_b_iff. Qed.
Print Assumptions c30_link_up_side_b.

(* a lost link is forgotten (its uuid can come up again) and a settled link
   opens no second stream for the same hash *)
Theorem c30_link_down_forgets : forall sa sb ls id,
  is_up id (fst (lstep sa sb ls (LinkDown id))) = false.
Proof. exact link_down_forgets. Qed.
Print Assumptions c30_link_down_forgets.

Theorem c30_settle_twice_nothing_new : forall sa sb p,
  new_hashes sa sb (snd (settle_link sa sb p)) = [].
Proof. exact settle_twice_nothing_new. Qed.
Print Assumptions c30_settle_twice_nothing_new.

Example c30_relink_nonvacuous :
  let la := mk_side [1] [2] 5 in let lb := mk_side [2] [1] 6 in
  let sa := [mk_sol [97] [98] [] 0] in let sb := [mk_sol [97] [98] [] 0; mk_sol [97;98] [] [] 0] in
  snd (lstep sa sb (lrun sa sb [] [LinkUp 7 la lb; Settle; LinkDown 7; LinkUp 7 la lb]%nat) Settle)
  = [(7%nat, ([0%nat], [0%nat]))].
Proof. vm_compute. reflexivity. Qed.
