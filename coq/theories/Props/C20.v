(* C20: the relay server forwards only authentic messages to the session partner. *)
From Bifrost Require Import Lib.Base SignalRelay.Model SignalRelay.Inv SignalRelay.Proofs SignalRelay.Reach.
Local Open Scope nat_scope.

(* In every reachable state of the relay (any sequence of Listen/Session actions
   by any number of clients, honest or not): whatever a Session stream has
   received as RecvMsg was verified by ExtractAndVerify and is signed by the
   peer this stream's session is with *)
Theorem c20_forwarded_is_authentic : forall l q m,
  In (SRecv m) (sc_out (scalls (run l) q)) ->
  m_ver m = true /\ m_from m = sc_dst (scalls (run l) q).
Proof. exact forwarded_authentic_run. Qed.
Print Assumptions c20_forwarded_is_authentic.

(* a SendMsg reaches a mailbox only if it verifies, is signed by the identity of
   the stream that submitted it, carries the relay's current session epoch and
   comes from the call currently registered for its side; the mailbox is then
   the one of the call on the other side of the sender's session, whose
   identity is the sender's destination and whose destination is the sender *)
Theorem c20_only_to_the_session_partner : forall l c seq m d,
  alive (sc_st (scalls (run l) c)) = true ->
  sbox (step (run l) (SessReq c seq (RSend m))) d <> sbox (run l) d ->
  m_ver m = true /\ m_from m = sc_src (scalls (run l) c) /\ seq = epoch_of (run l) c /\
  side (ses (run l) (sc_s (scalls (run l) c))) (sc_isA (scalls (run l) c)) = Some c /\
  side (ses (run l) (sc_s (scalls (run l) c))) (negb (sc_isA (scalls (run l) c))) = Some d /\
  sc_src (scalls (run l) d) = sc_dst (scalls (run l) c) /\ sc_dst (scalls (run l) d) = sc_src (scalls (run l) c) /\
  mb_recv (sbox (step (run l) (SessReq c seq (RSend m))) d) = Some m /\
  mb_gep (sbox (step (run l) (SessReq c seq (RSend m))) d) = seq.
Proof. exact send_routing_run. Qed.
Print Assumptions c20_only_to_the_session_partner.

(* an unsigned/tampered message or one signed by another key has no effect but
   the pending error of the submitting call, in any state and any epoch *)
Theorem c20_unauthentic_rejected : forall st c seq m,
  (m_ver m = false \/ m_from m <> sc_src (scalls st c)) ->
  alive (sc_st (scalls st c)) = true -> sc_perr (scalls st c) = None ->
  sess_req c seq (RSend m) st = fail c ERejected st.
Proof. exact unauthentic_rejected. Qed.
Print Assumptions c20_unauthentic_rejected.

(* ... in particular after any history (no per-stream memory of earlier accepted
   messages: the decision reads only the submitted message and the stream identity) *)
Theorem c20_verification_has_no_memory : forall l c seq m,
  (m_ver m = false \/ m_from m <> sc_src (scalls (run l) c)) ->
  alive (sc_st (scalls (run l) c)) = true -> sc_perr (scalls (run l) c) = None ->
  step (run l) (SessReq c seq (RSend m)) = fail c ERejected (run l).
Proof. exact unauthentic_rejected_run. Qed.
Print Assumptions c20_verification_has_no_memory.

(* the optional signature.pub_key a client may attach is carried as data only: two
   messages that differ in nothing but the attached key are treated alike *)
Theorem c20_attached_key_ignored : forall st c seq m k,
  let s1 := sess_req c seq (RSend m) st in
  let s2 := sess_req c seq (RSend (with_pk m k)) st in
  scalls s1 = scalls s2 /\ swoken s1 = swoken s2 /\ ses s1 = ses s2 /\ sessions s1 = sessions s2 /\
  peers s1 = peers s2 /\ trk s1 = trk s2 /\
  forall d, option_map m_tag (mb_recv (sbox s1 d)) = option_map m_tag (mb_recv (sbox s2 d)) /\
            mb_recvSent (sbox s1 d) = mb_recvSent (sbox s2 d) /\ mb_gep (sbox s1 d) = mb_gep (sbox s2 d).
Proof. exact attached_key_ignored. Qed.
Print Assumptions c20_attached_key_ignored.

(* messages (and acks/clears) for a session epoch newer than the server's are rejected *)
Theorem c20_future_epoch_rejected : forall st c seq r,
  admissible st c r -> epoch_of st c < seq ->
  alive (sc_st (scalls st c)) = true -> sc_perr (scalls st c) = None ->
  sess_req c seq r st = fail c ERejected st.
Proof. exact future_rejected. Qed.
Print Assumptions c20_future_epoch_rejected.

(* ... the rejection only records the error (no map, session, mailbox or wake-up changes) ... *)
Theorem c20_rejection_changes_nothing_else : forall c e st,
  peers (fail c e st) = peers st /\ trk (fail c e st) = trk st /\ sessions (fail c e st) = sessions st /\
  ses (fail c e st) = ses st /\ sbox (fail c e st) = sbox st /\ swoken (fail c e st) = swoken st /\
  sc_perr (scalls (fail c e st) c) = Some e /\ sc_out (scalls (fail c e st) c) = sc_out (scalls st c) /\
  forall c', c' <> c -> scalls (fail c e st) c' = scalls st c'.
Proof. exact fail_only_perr. Qed.
Print Assumptions c20_rejection_changes_nothing_else.

(* ... and ends the call with that error; no later request of the call is handled *)
Theorem c20_rejected_call_ends : forall st c e,
  sc_st (scalls st c) = Running -> sc_perr (scalls st c) = Some e ->
  sc_st (scalls (sess_end c false st) c) = Ended e /\
  forall seq r, sess_req c seq r st = st.
Proof. exact pending_error_ends. Qed.
Print Assumptions c20_rejected_call_ends.

(* messages (acks, clears) for an older epoch are not forwarded: no state change at all *)
Theorem c20_stale_epoch_no_effect : forall st c seq r,
  admissible st c r -> seq < epoch_of st c -> sess_req c seq r st = st.
Proof. exact stale_no_effect. Qed.
Print Assumptions c20_stale_epoch_no_effect.

(* the first request must be Init with session seqno 0 and a destination other
   than the caller; anything else ends the call and registers nothing *)
Theorem c20_first_request_must_be_init : forall st c src seq r,
  sc_st (scalls st c) = Fresh -> ~ valid_init src seq r ->
  let st' := sess_start c src seq r st in
  (exists e, sc_st (scalls st' c) = Ended e /\ (e = ERejected \/ e = EStream)) /\
  peers st' = peers st /\ trk st' = trk st /\ sessions st' = sessions st /\ ses st' = ses st /\
  sbox st' = sbox st /\ swoken st' = swoken st /\ lwoken st' = lwoken st /\
  forall c', c' <> c -> scalls st' c' = scalls st c'.
Proof. exact bad_first_request. Qed.
Print Assumptions c20_first_request_must_be_init.

(* non-vacuity: two peers attach, peer 0 sends an authentic message with the
   current epoch, the partner's write loop delivers it *)
Definition c20_demo : list action :=
  [SessStart 0 0 0 (RInit (Some 1)); SessStart 1 1 0 (RInit (Some 0));
   SessReq 0 2 (RSend {| m_seqno := 7; m_tag := 1; m_ver := true; m_from := 0; m_pk := 0 |}); SessIter 1].
Example c20_nonvacuous :
  sc_out (scalls (run c20_demo) 1) =
    [SOpened 2; SRecv {| m_seqno := 7; m_tag := 1; m_ver := true; m_from := 0; m_pk := 0 |}] /\
  sc_dst (scalls (run c20_demo) 1) = 0.
Proof. split; vm_compute; reflexivity. Qed.
(* ... and the same message signed by peer 2 is not delivered but ends the call *)
Example c20_nonvacuous_forged :
  let st := run [SessStart 0 0 0 (RInit (Some 1)); SessStart 1 1 0 (RInit (Some 0));
                 SessReq 0 2 (RSend {| m_seqno := 7; m_tag := 1; m_ver := true; m_from := 2; m_pk := 0 |});
                 SessIter 1; SessEnd 0 false] in
  sc_out (scalls st 1) = [SOpened 2] /\ sc_st (scalls st 0) = Ended ERejected.
Proof. split; vm_compute; reflexivity. Qed.
