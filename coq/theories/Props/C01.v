(* C01: signed messages are accepted only when the signature is authentic. *)
From Bifrost Require Import Lib.Base Lib.Sym Lib.SigSym gen.Sig gen.SigHash Sig.Model Sig.Proofs.
From Bifrost Require Import Lib.Proto gen.Descs Sig.Wire Sig.WireProofs.

(* the sign body bytes.Join([ctx, itoa(ht), digest], sep) determines context,
   hash type and data (separator, hash types and digest lengths regenerated
   from the source; digests are outputs of one free function per hash type) *)
Theorem c01_sign_body_injective : forall ctx ht len data ctx' ht' len' data',
  ht_lookup ht hash_sum_table = Some len -> ht_lookup ht' hash_sum_table = Some len' ->
  sign_body ctx ht (digest ht len data) = sign_body ctx' ht' (digest ht' len' data') ->
  ctx = ctx' /\ ht = ht' /\ data = data'.
Proof. exact sign_body_inj. Qed.
Print Assumptions c01_sign_body_injective.

(* soundness: acceptance means the signature bytes are the signature made with
   the private key of the claimed sender over exactly the body, the hash type
   in the message and the verifier's context *)
Theorem c01_sound : forall ctx m k,
  extract_and_verify ctx m = Ok k ->
  m_from m = SenderOf k /\ m_data m <> [] /\
  exists len, ht_lookup (s_ht (m_sig m)) hash_sum_table = Some len /\
    s_data (m_sig m) =
      SigOf k (sign_body ctx (s_ht (m_sig m)) (digest (s_ht (m_sig m)) len (m_data m))).
Proof. exact extract_and_verify_sound. Qed.
Print Assumptions c01_sound.

(* non-vacuity of acceptance: every honestly signed message is accepted under
   its context and the signer's key is returned *)
Theorem c01_honest_accepted : forall ctx k ht data m,
  new_signed_msg ctx k ht data = Ok m -> extract_and_verify ctx m = Ok k.
Proof. exact honest_accepted. Qed.
Print Assumptions c01_honest_accepted.

(* closure under every combination of changes of body, sender, hash type and
   context around the signature bytes of an honest message *)
Theorem c01_tamper_closure : forall ctx k ht data m ctx' m' k',
  new_signed_msg ctx k ht data = Ok m ->
  s_data (m_sig m') = s_data (m_sig m) ->
  extract_and_verify ctx' m' = Ok k' ->
  ctx' = ctx /\ m_from m' = SenderOf k /\ k' = k /\ m_data m' = data /\ s_ht (m_sig m') = ht.
Proof. exact tamper_closure. Qed.
Print Assumptions c01_tamper_closure.

(* ... so any such change makes verification report an error (not a panic) *)
Theorem c01_tamper_rejected : forall ctx k ht data m ctx' m',
  new_signed_msg ctx k ht data = Ok m ->
  s_data (m_sig m') = s_data (m_sig m) ->
  (ctx', m_from m', m_data m', s_ht (m_sig m')) <> (ctx, SenderOf k, data, ht) ->
  exists e, extract_and_verify ctx' m' = Err e.
Proof. exact tamper_rejected. Qed.
Print Assumptions c01_tamper_rejected.

(* the single-field cases, spelled out *)
Theorem c01_body_changed : forall ctx k ht data m data',
  new_signed_msg ctx k ht data = Ok m -> data' <> data ->
  exists e, extract_and_verify ctx {| m_from := m_from m; m_sig := m_sig m; m_data := data' |} = Err e.
Proof.
  intros ctx k ht data m data' H Hne. eapply tamper_rejected; [exact H|reflexivity|].
  cbn. intros E. apply Hne. congruence.
Qed.
Print Assumptions c01_body_changed.

Theorem c01_context_changed : forall ctx k ht data m ctx',
  new_signed_msg ctx k ht data = Ok m -> ctx' <> ctx ->
  exists e, extract_and_verify ctx' m = Err e.
Proof.
  intros ctx k ht data m ctx' H Hne. eapply tamper_rejected; [exact H|reflexivity|].
  intros E. apply Hne. congruence.
Qed.
Print Assumptions c01_context_changed.

Theorem c01_sender_changed : forall ctx k ht data m from',
  new_signed_msg ctx k ht data = Ok m -> from' <> SenderOf k ->
  exists e, extract_and_verify ctx {| m_from := from'; m_sig := m_sig m; m_data := m_data m |} = Err e.
Proof.
  intros ctx k ht data m from' H Hne. eapply tamper_rejected; [exact H|reflexivity|].
  cbn. intros E. apply Hne. congruence.
Qed.
Print Assumptions c01_sender_changed.

(* signature replaced: by bytes that are no signature of anything (garbage,
   truncation, extension, bit flips, empty) ... *)
Theorem c01_signature_forged : forall ctx m,
  (forall k body, s_data (m_sig m) <> SigOf k body) -> exists e, extract_and_verify ctx m = Err e.
Proof. exact forged_rejected. Qed.
Print Assumptions c01_signature_forged.

(* ... or by the signature of a different honest message (other key, context,
   hash type or body) *)
Theorem c01_signature_transplanted : forall ctx k ht data m ctx2 k2 ht2 data2 m2 pub,
  new_signed_msg ctx k ht data = Ok m ->
  new_signed_msg ctx2 k2 ht2 data2 = Ok m2 ->
  (ctx2, k2, ht2, data2) <> (ctx, k, ht, data) ->
  exists e, extract_and_verify ctx
    {| m_from := m_from m;
       m_sig := {| s_pub := pub; s_ht := s_ht (m_sig m); s_data := s_data (m_sig m2) |};
       m_data := m_data m |} = Err e.
Proof. exact transplant_rejected. Qed.
Print Assumptions c01_signature_transplanted.

(* totality: ExtractAndVerify never panics ... *)
Theorem c01_total : forall ctx m, extract_and_verify ctx m <> Panic.
Proof. exact extract_and_verify_total. Qed.
Print Assumptions c01_total.

(* ... and neither does UnmarshalSignedMsg followed by ExtractAndVerify on ANY
   wire bytes (every Go slice is shorter than 2^63), whatever the symbolic
   reading R of the decoded field values: unconditional, from the totality of
   the generic wire decoder (Lib/ProtoProofs.v, property C40) at the descriptor
   of peer.SignedMsg regenerated from peer/peer.proto *)
Theorem c01_wire_total : forall R ctx wire,
  len wire < two63 -> decode_and_verify_wire R ctx wire <> Panic.
Proof. exact decode_and_verify_wire_total. Qed.
Print Assumptions c01_wire_total.

(* acceptance of wire bytes is acceptance of the decoded message, so c01_sound
   and the tamper theorems apply to what was decoded *)
Theorem c01_wire_sound : forall R ctx wire k,
  decode_and_verify_wire R ctx wire = Ok k ->
  exists w, unmarshal_signed_msg wire = Ok w /\ extract_and_verify ctx (smsg_of R w) = Ok k.
Proof. exact decode_and_verify_wire_sound. Qed.
Print Assumptions c01_wire_sound.

(* the descriptor has the fields the conversion reads, with the expected kinds *)
Theorem c01_wire_schema : schema_ok = true.
Proof. exact schema_ok_true. Qed.
Print Assumptions c01_wire_schema.

(* non-vacuity: an honest message exists for every supported hash type, is
   accepted, and is rejected under another context *)
Example c01_nonvacuous :
  forallb (fun p =>
    match new_signed_msg [99] 1%nat (fst p) [7;8] with
    | Ok m => match extract_and_verify [99] m, extract_and_verify [100] m with
              | Ok 1%nat, Err 9%nat => true
              | _, _ => false
              end
    | _ => false
    end) hash_sum_table = true /\ (0 < length hash_sum_table)%nat.
Proof. vm_compute. split; [reflexivity|lia]. Qed.
