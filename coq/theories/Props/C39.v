(* C39: key files yield a usable key or an error. *)
From Bifrost Require Import Lib.Base Id.Pb Id.Model Keys.Model Keys.Proofs KeyFile.Model KeyFile.Proofs.
From Bifrost Require Import gen.Ident.

(* in every file state the call returns (never panics), never returns (nil, nil),
   and a result without error carries a key whose public key and peer id are defined *)
Theorem c39_key_or_error : forall pd st gen wok,
  pem_bytes pd -> (forall k, gen = Some k -> zlen k = 64) ->
  exists k e, fst (open_or_write pd st gen wok) = Ok (k, e) /\
    (e = None -> exists key id, k = Some key /\ id_of_priv key = Ok id) /\
    (k = None -> e <> None).
Proof. exact open_key_or_error. Qed.
Print Assumptions c39_key_or_error.

(* a missing file gets the new key, the key is written, and reloading the
   written file gives the same key and peer identity (pem law as premise) *)
Theorem c39_missing_then_reload : forall pe pd, (forall t b, pd (pe t b) = Some (t, b)) ->
  forall k gen' wok', wf_priv k ->
  exists blk id,
    open_or_write pd FMissing (Some k) true = (Ok (Some k, None), Some blk) /\
    open_or_write pd (next_state pe FMissing (Some blk)) gen' wok' = (Ok (Some k, None), None) /\
    id_of_priv k = Ok id.
Proof. exact open_missing_then_reload. Qed.
Print Assumptions c39_missing_then_reload.

(* unreadable, empty and non-key files are errors, not absent keys *)
Theorem c39_bad_is_error : forall pd gen wok,
  (fst (open_or_write pd FStatErr gen wok) = Ok (None, Some EStat)) /\
  (fst (open_or_write pd FReadErr gen wok) = Ok (None, Some ERead)) /\
  (forall dat, pd dat = None -> fst (open_or_write pd (FFile dat) gen wok) = Ok (None, Some ENoKey)) /\
  (forall dat t b, pd dat = Some (t, b) -> bytes_eqb t pem_priv_type = false ->
     fst (open_or_write pd (FFile dat) gen wok) = Ok (None, Some EPemType)) /\
  (forall dat t b e, pd dat = Some (t, b) -> unmarshal_priv b = Err e ->
     exists e', fst (open_or_write pd (FFile dat) gen wok) = Ok (None, Some e')).
Proof. exact open_bad_is_error. Qed.
Print Assumptions c39_bad_is_error.

(* a valid key file yields that key and is not rewritten; nothing but a missing path is ever written *)
Theorem c39_valid : forall pe pd, (forall t b, pd (pe t b) = Some (t, b)) ->
  forall k gen wok, wf_priv k ->
  open_or_write pd (FFile (marshal_priv_pem pe k)) gen wok = (Ok (Some k, None), None).
Proof. exact open_valid. Qed.
Print Assumptions c39_valid.

Theorem c39_writes_only_missing : forall pd st gen wok blk,
  snd (open_or_write pd st gen wok) = Some blk ->
  st = FMissing /\ wok = true /\ exists k, gen = Some k /\ blk = (pem_priv_type, marshal_priv k).
Proof. exact open_writes_only_missing. Qed.
Print Assumptions c39_writes_only_missing.

(* a failed write is reported (the generated key accompanies the error) *)
Theorem c39_write_failure_reported : forall pd k,
  open_or_write pd FMissing (Some k) false = (Ok (Some k, Some EWrite), None).
Proof. exact open_missing_write_fails. Qed.
Print Assumptions c39_write_failure_reported.

(* non-vacuity: the toy PEM codec satisfies the premise; concrete states *)
Example c39_nonvacuous :
  (forall t b, toy_pd (toy_pe t b) = Some (t, b)) /\
  wf_priv (repeat 5 64) /\
  open_or_write toy_pd (FFile []) None false = (Ok (None, Some ENoKey), None) /\
  open_or_write toy_pd (FFile (toy_pe pem_pub_type [1])) None false = (Ok (None, Some EPemType), None) /\
  open_or_write toy_pd (FFile (marshal_priv_pem toy_pe (repeat 5 64))) None false = (Ok (Some (repeat 5 64), None), None).
Proof. split; [exact toy_law|]. repeat split; vm_compute; reflexivity. Qed.

(* ---- cli/envelope.go loadPrivKeys / loadPubKeys over any list of key paths ---- *)

(* the result is an error or one usable key per path (same length, none nil); never a panic *)
Theorem c39_load_priv_keys : forall pd ps, pem_bytes pd -> Forall gen_ok ps ->
  load_priv_keys pd ps <> Panic /\
  forall ks, load_priv_keys pd ps = Ok ks ->
    length ks = length ps /\ Forall (fun k => exists key id, k = Some key /\ id_of_priv key = Ok id) ks.
Proof. exact load_priv_keys_sound. Qed.
Print Assumptions c39_load_priv_keys.

(* a path that is empty / garbage / of the wrong PEM type / unreadable / a directory / missing and
   not writable, anywhere in the list, makes the whole call an error (no keys are silently dropped) *)
Theorem c39_load_priv_keys_bad : forall pd ps, pem_bytes pd -> Forall gen_ok ps -> Exists (bad_path pd) ps ->
  exists e, load_priv_keys pd ps = Err e.
Proof. exact load_priv_keys_bad. Qed.
Print Assumptions c39_load_priv_keys_bad.

Theorem c39_load_pub_keys : forall pd ps, pem_bytes pd -> Forall gen_ok ps ->
  load_pub_keys pd ps <> Panic /\ forall ks, load_pub_keys pd ps = Ok ks -> length ks = length ps.
Proof. exact load_pub_keys_sound. Qed.
Print Assumptions c39_load_pub_keys.

Example c39_load_nonvacuous :
  bad_path toy_pd (FFile [], None, false) /\ gen_ok (FFile [], None, false) /\
  load_priv_keys toy_pd [(FFile (marshal_priv_pem toy_pe (repeat 5 64)), None, false); (FFile [32; 10], None, false)] = Err ELoad /\
  load_priv_keys toy_pd [(FFile (marshal_priv_pem toy_pe (repeat 5 64)), None, false); (FMissing, Some (repeat 6 64), true)]
    = Ok [Some (repeat 5 64); Some (repeat 6 64)].
Proof.
  split; [intros k; vm_compute; discriminate|]. split; [intros k H; discriminate|]. split; vm_compute; reflexivity.
Qed.
