(* C27: subscribers receive only authentic messages for their channel. *)
From Bifrost Require Import Lib.Base gen.Pubsub Pubsub.Model Pubsub.Proofs27 Pubsub.Sub Pubsub.Proofs27Churn.

(* the signing context binds the channel: prefix ++ channel is injective *)
Theorem c27_context_binds_channel : forall a b, pub_ctx a = pub_ctx b -> a = b.
Proof. exact pub_ctx_inj. Qed.
Print Assumptions c27_context_binds_channel.

(* ExtractAndVerify accepts exactly the messages signed by the claimed sender
   over the very body, under the context of the body's (non-empty) channel *)
Theorem c27_verify_exact : forall m v,
  extract_and_verify m = Ok v <->
  authentic m (v_key v) (v_data v) (v_chan v) /\ (exists vr, s_body m = Enc (v_data v) (v_chan v) true vr) /\
  att_ok (s_att m) = true.
Proof. exact extract_ok. Qed.
Print Assumptions c27_verify_exact.

(* for ANY initial node state and ANY sequence of received publishes,
   subscription packets and local subscription changes: every handler
   invocation and every forwarded packet is caused by a received packet that is
   authentic for the channel of the subscription, which the node had a key for
   at that moment (obs_ok spells this out for both kinds of observation) *)
Theorem c27_authentic : forall st l o,
  In o (snd (run st l)) ->
  exists pre a post, l = pre ++ a :: post /\ obs_ok (fst (run st pre)) a o.
Proof. exact c27_all. Qed.
Print Assumptions c27_authentic.

Theorem c27_handler_only_authentic : forall st l ch k d n,
  In (Deliver ch k d n) (snd (run st l)) ->
  exists prev m, In (RecvPublish prev m) l /\
    ch <> [] /\ s_from m = Peer k /\ (exists ts v, s_body m = Enc d ch ts v) /\
    s_sig m = Sig k (pubsub_ctx_prefix ++ ch) (s_body m).
Proof. exact c27_deliver. Qed.
Print Assumptions c27_handler_only_authentic.

Theorem c27_forward_only_authentic : forall st l p m,
  In (Forward p m) (snd (run st l)) ->
  exists prev k d ch, In (RecvPublish prev m) l /\ authentic m k d ch /\ p <> prev /\ p <> k.
Proof. exact c27_forward. Qed.
Print Assumptions c27_forward_only_authentic.

(* everything else is dropped: nothing delivered, nothing forwarded, state unchanged *)
Theorem c27_drop_all : forall st prev m,
  (forall k d ch, authentic m k d ch -> has_chan ch (n_chans st) = false) ->
  step st (RecvPublish prev m) = (st, []).
Proof. exact c27_drop. Qed.
Print Assumptions c27_drop_all.

(* the forgery classes named in the property *)
Theorem c27_drop_tampered : forall st prev f b b' k ctx a,
  b' <> b -> step st (RecvPublish prev (SMsg f b' (Sig k ctx b) a)) = (st, []).
Proof. exact c27_tampered. Qed.
Print Assumptions c27_drop_tampered.

Theorem c27_drop_retargeted : forall st prev k d ch ch' ts v ts' v' a,
  ch' <> ch ->
  step st (RecvPublish prev (SMsg (Peer k) (Enc d ch' ts' v') (Sig k (pub_ctx ch) (Enc d ch ts v)) a)) = (st, []).
Proof. exact c27_retargeted. Qed.
Print Assumptions c27_drop_retargeted.

(* whatever public key is attached to the signature object *)
Theorem c27_drop_foreign_signature : forall st prev k k' ctx b b' a,
  k <> k' -> step st (RecvPublish prev (SMsg (Peer k) b (Sig k' ctx b') a)) = (st, []).
Proof. exact c27_foreign. Qed.
Print Assumptions c27_drop_foreign_signature.

Theorem c27_drop_wrong_context : forall st prev f d ch ts v k ctx b a,
  ctx <> pub_ctx ch -> step st (RecvPublish prev (SMsg f (Enc d ch ts v) (Sig k ctx b) a)) = (st, []).
Proof. exact c27_wrong_context. Qed.
Print Assumptions c27_drop_wrong_context.

Theorem c27_drop_other_channel_signature : forall st prev f d ch ch' ts v k b a,
  ch' <> ch -> step st (RecvPublish prev (SMsg f (Enc d ch ts v) (Sig k (pub_ctx ch') b) a)) = (st, []).
Proof. exact c27_other_channel_context. Qed.
Print Assumptions c27_drop_other_channel_signature.

Theorem c27_drop_empty_channel : forall st prev f d ts v s a,
  step st (RecvPublish prev (SMsg f (Enc d [] ts v) s a)) = (st, []).
Proof. exact c27_empty_channel. Qed.
Print Assumptions c27_drop_empty_channel.

Theorem c27_drop_malformed : forall st prev m,
  (exists n, s_sig m = NoSig n) \/ (exists n, s_from m = NoPeer n) \/ (exists n, s_body m = Junk n) ->
  step st (RecvPublish prev m) = (st, []).
Proof. exact c27_malformed. Qed.
Print Assumptions c27_drop_malformed.

Theorem c27_drop_unsubscribed : forall st prev m k d ch,
  authentic m k d ch -> has_chan ch (n_chans st) = false ->
  step st (RecvPublish prev m) = (st, []).
Proof. exact c27_unsubscribed. Qed.
Print Assumptions c27_drop_unsubscribed.

(* subscribe-release churn.  The subscribed check of handlePublish is the key of
   m.channels; the loop body of Execute (model Pubsub/Sub.v) deletes EVERY key
   without subscription, announced or not: after a loop body every key of
   m.channels has a subscription ... *)
Theorem c27_pass_leaves_no_empty_key : forall s ch n,
  l_phase s = PArmed -> In (ch, n) (l_ch (lstep s LPass)) -> n <> 0%nat.
Proof. exact pass_leaves_no_empty_key. Qed.
Print Assumptions c27_pass_leaves_no_empty_key.

(* ... so a channel that was subscribed and released (LocalSubscribe, then the
   LocalSweep of the next loop body) is unsubscribed for the receiving node: an
   authentic publish for it is neither delivered nor forwarded, whoever announced it *)
Theorem c27_drop_after_churn : forall st ch h prev m k d,
  authentic m k d ch ->
  let st1 := fst (step (fst (step st (LocalSubscribe ch h))) (LocalSweep ch)) in
  step st1 (RecvPublish prev m) = (st1, []).
Proof. exact churn_then_publish_dropped. Qed.
Print Assumptions c27_drop_after_churn.

(* non-vacuity: an honest fresh message for a subscribed channel IS delivered to
   the handlers, and a replay of it is dropped *)
Theorem c27_honest_delivered : forall st prev k d ch v a,
  att_ok a = true ->
  ch <> [] -> has_chan ch (n_chans st) = true ->
  let m := SMsg (Peer k) (Enc d ch true v) (Sig k (pub_ctx ch) (Enc d ch true v)) a in
  seen_mem (msg_id m) (n_seen st) = false ->
  exists st' os, step st (RecvPublish prev m) = (st', Deliver ch k d (chan_handlers ch (n_chans st)) :: os).
Proof. exact c27_accepts. Qed.
Print Assumptions c27_honest_delivered.

Theorem c27_replay_is_dropped : forall st prev prev' m st1 os,
  step st (RecvPublish prev m) = (st1, os) -> os <> [] ->
  step st1 (RecvPublish prev' m) = (st1, []).
Proof. exact c27_replay_dropped. Qed.
Print Assumptions c27_replay_is_dropped.

Example c27_nonvacuous :
  let ch := [99; 104] in
  let m := SMsg (Peer 1) (Enc [1; 2] ch true 0) (Sig 1 (pub_ctx ch) (Enc [1; 2] ch true 0)) NoKey in
  let st := Node [(ch, 2%nat)] [] [(2%nat, ch); (1%nat, ch); (0%nat, ch)] in
  snd (run st [RecvPublish 0 m; RecvPublish 0 m;
               RecvPublish 0 (SMsg (Peer 1) (Enc [1; 3] ch true 0) (Sig 1 (pub_ctx ch) (Enc [1; 2] ch true 0)) NoKey);
               RecvPublish 0 (SMsg (Peer 1) (Enc [7] ch true 0) (Sig 2 (pub_ctx ch) (Enc [7] ch true 0)) (KeyOf 2))])
  = [Deliver ch 1 [1; 2] 2; Forward 2 m].
Proof. vm_compute. reflexivity. Qed.
