(* C38: configuration parsers are total and round-trip. *)
From Bifrost Require Import Lib.Base Lib.Lex Lib.StrOps Lib.Utf8 gen.Conf Conf.Model Conf.Proofs.

(* protocol ids are accepted exactly when non-empty valid UTF-8 (utf8 = the declarative
   Unicode well-formedness of Lib/Utf8, equivalent to the checker tied to Go's utf8.Valid) *)
Theorem c38_pid : forall s s',
  parse_protocol_id s false = Ok s' <-> s' = s /\ s <> [] /\ utf8 s.
Proof. exact parse_protocol_id_spec. Qed.
Print Assumptions c38_pid.

Theorem c38_pid_allow_empty : forall s s',
  parse_protocol_id s true = Ok s' <-> s' = s /\ (s = [] \/ utf8 s).
Proof. exact parse_protocol_id_allow_empty. Qed.
Print Assumptions c38_pid_allow_empty.

Theorem c38_pid_total_roundtrip : forall s ae,
  parse_protocol_id s ae <> Panic /\
  forall p, parse_protocol_id s ae = Ok p -> parse_protocol_id p ae = Ok p.
Proof. intros; split; [apply parse_protocol_id_total|intros; eapply parse_protocol_id_roundtrip; eauto]. Qed.
Print Assumptions c38_pid_total_roundtrip.

Theorem c38_pids : forall l r,
  parse_protocol_ids l false = Ok r <-> r = l /\ forall s, In s l -> s <> [] /\ utf8 s.
Proof. exact parse_protocol_ids_spec. Qed.
Print Assumptions c38_pids.

(* the de-duplicating list form: duplicate free, exactly the ids given *)
Theorem c38_pids_unique : forall l ae r,
  parse_protocol_ids_unique l ae = Ok r -> NoDup r /\ forall x, In x r <-> In x l.
Proof. exact parse_protocol_ids_unique_spec. Qed.
Print Assumptions c38_pids_unique.

Theorem c38_utf8 : forall s, utf8_valid s = true <-> utf8 s.
Proof. exact utf8_valid_spec. Qed.
Print Assumptions c38_utf8.

(* transport addresses: accepted exactly as  id | address  with both parts non-empty, cut at
   the first delimiter; never panics; formatting the parts gives back the string *)
Theorem c38_tpt : forall s t a,
  parse_tpt_addr s = Ok (t, a) <-> s = t ++ tpt_sep :: a /\ ~ In tpt_sep t /\ t <> [] /\ a <> [].
Proof. exact parse_tpt_addr_spec. Qed.
Print Assumptions c38_tpt.

Theorem c38_tpt_total_roundtrip : forall s,
  parse_tpt_addr s <> Panic /\
  forall t a, parse_tpt_addr s = Ok (t, a) ->
              parse_tpt_addr (format_tpt_addr t a) = Ok (t, a) /\ format_tpt_addr t a = s.
Proof. intros; split; [apply parse_tpt_addr_total|intros; apply parse_tpt_addr_roundtrip; auto]. Qed.
Print Assumptions c38_tpt_total_roundtrip.

(* which entries contribute an address for which peer (decode_peer = peer-id decoding oracle) *)
Theorem c38_entry : forall decode_peer e pid addr,
  parse_entry decode_peer e = Some (pid, addr) <->
  exists a b, e = a ++ static_sep :: b /\ ~ In static_sep a /\ addr = trim_space b /\
              In static_inner_sep addr /\ decode_peer (trim_space a) = Some pid.
Proof. exact parse_entry_spec. Qed.
Print Assumptions c38_entry.

(* the static address list maps each peer to sort+compact of the addresses given for it,
   has a key exactly for the peers that were given an address, and counts the bad entries *)
Theorem c38_map : forall decode_peer es,
  let m := fst (parse_peer_address_map decode_peer es) in
  let errs := snd (parse_peer_address_map decode_peer es) in
  (forall k, map_get m k = compact (isort (given decode_peer es k))) /\
  (forall k, In k (map fst m) <-> given decode_peer es k <> []) /\
  NoDup (map fst m) /\
  errs = bad_entries decode_peer es.
Proof. exact parse_peer_address_map_spec. Qed.
Print Assumptions c38_map.

(* ... and sort+compact is: strictly sorted, duplicate free, exactly the given elements *)
Theorem c38_sorted_set : forall l,
  lex_strict (compact (isort l)) /\ NoDup (compact (isort l)) /\
  forall a, In a (compact (isort l)) <-> In a l.
Proof. exact sort_compact_spec. Qed.
Print Assumptions c38_sorted_set.

(* wrappers of the form  "" -> zero value, else the stdlib parser  (ParseURL, ParseRegexp,
   ParsePeerID, ParseDuration): total, and round-trip GIVEN the stdlib law as a premise *)
Theorem c38_wrapper : forall (T : Type) (std_parse : bytes -> outcome T) (fmt : T -> bytes)
                             (zero : T) (is_zero : T -> bool),
  (forall t, is_zero t = true <-> t = zero) ->
  (forall s t, std_parse s = Ok t -> is_zero t = false -> fmt t <> [] /\ std_parse (fmt t) = Ok t) ->
  (forall s, std_parse s <> Panic) ->
  forall s,
    parse_or_zero std_parse zero s <> Panic /\
    forall t, parse_or_zero std_parse zero s = Ok t ->
              parse_or_zero std_parse zero (if is_zero t then [] else fmt t) = Ok t.
Proof.
  intros T sp fmt zero iz H1 H2 H3 s. split; [apply wrapper_total; auto|].
  intros t Ht. eapply wrapper_roundtrip; eauto.
Qed.
Print Assumptions c38_wrapper.

Theorem c38_duration : forall (std_parse : bytes -> outcome Z) (fmt : Z -> bytes),
  (forall d, fmt d <> [] /\ std_parse (fmt d) = Ok d) ->
  forall s d ignore_empty,
    parse_or_zero std_parse 0 s = Ok d ->
    parse_or_zero std_parse 0 (marshal_duration fmt d ignore_empty) = Ok d.
Proof. exact duration_roundtrip. Qed.
Print Assumptions c38_duration.

(* timestamps: only values in years 0001..9999 with normalised nanos are returned (CheckValid), and
   for those, given the law of the layout in use; the layout regenerated from source is the
   nanosecond one (with the seconds-only layout the law is false for sub-second values) *)
Theorem c38_timestamp : forall (quote : bytes -> bytes) (ujson : bytes -> option ts) (fmt : ts -> bytes),
  (forall s t, ujson s = Some t -> ts_check_valid t = true -> fmt t <> [] /\ ujson (quote (fmt t)) = Some t) ->
  forall s,
    parse_timestamp quote ujson s <> Panic /\
    (forall t, parse_timestamp quote ujson s = Ok (Some t) -> ts_check_valid t = true) /\
    forall ot, parse_timestamp quote ujson s = Ok ot ->
               parse_timestamp quote ujson (marshal_timestamp fmt ot) = Ok ot.
Proof.
  intros q u f H s. split; [apply timestamp_total|]. split; [intros t Ht; eapply timestamp_valid; eauto|].
  intros ot Hot. eapply timestamp_roundtrip; eauto.
Qed.
Print Assumptions c38_timestamp.

Theorem c38_timestamp_layout : layout_keeps_nanos = true.
Proof. exact layout_keeps_nanos_now. Qed.
Print Assumptions c38_timestamp_layout.

(* non-vacuity *)
Example c38_nonvacuous :
  parse_protocol_id [226; 130; 172; 47; 97] false = Ok [226; 130; 172; 47; 97] /\
  parse_protocol_id [97; 237; 160; 128] false = Err E_INVALID /\
  parse_protocol_id [] false = Err E_EMPTY /\
  parse_tpt_addr [117; 100; 112; 124; 49; 124; 50] = Ok ([117; 100; 112], [49; 124; 50]) /\
  (* two peers, duplicates, surrounding white space, one malformed entry *)
  parse_peer_address_map (fun t => match t with [80; _] => Some t | _ => None end)
    [[80;49;124;32;116;124;98;32]; [32;80;50;32;124;116;124;97]; [80;49;124;116;124;97]; [80;49;124;116;124;98]; [80;49;124;120]]
  = ([([80;49], [[116;124;97]; [116;124;98]]); ([80;50], [[116;124;97]])], 1%nat) /\
  (* the hypotheses of the oracle theorems are satisfiable by a toy instance *)
  (forall d : Z, [1] <> [] /\ (fun _ : bytes => Ok d) [1] = Ok d).
Proof. repeat split; try reflexivity; discriminate. Qed.
