(* C11: key encodings round-trip and parsers are total. *)
From Bifrost Require Import Lib.Base Lib.Base58 Id.Pb Id.Model Id.Proofs Keys.Model Keys.Proofs.
From Bifrost Require Import gen.Ident.

(* ---- protobuf ---- *)
Theorem c11_rt_proto_priv : forall k, wf_priv k -> unmarshal_priv (marshal_priv k) = Ok k.
Proof. exact unmarshal_marshal_priv. Qed.
Print Assumptions c11_rt_proto_priv.

Theorem c11_rt_proto_pub : forall pk, wf_pub pk -> unmarshal_pub (marshal_pub pk) = Ok pk.
Proof. exact unmarshal_marshal_pub. Qed.
Print Assumptions c11_rt_proto_pub.

(* the libp2p form with the redundant public key appended decodes to the same key *)
Theorem c11_rt_proto_96 : forall k, wf_priv k ->
  unmarshal_priv (pb2_marshal key_type_ed25519 (k ++ skipn 32 k)) = Ok k.
Proof. exact unmarshal_priv_96_form. Qed.
Print Assumptions c11_rt_proto_96.

(* ---- base58 configuration strings (for any behaviour of the PEM library) ---- *)
Theorem c11_rt_b58_priv : forall pd k, wf_priv k ->
  conf_parse_private_key pd (conf_marshal_private_key k) = Ok (Some k).
Proof. exact conf_roundtrip_priv. Qed.
Print Assumptions c11_rt_b58_priv.

Theorem c11_rt_b58_pub : forall pd pk, wf_pub pk ->
  conf_parse_public_key pd (conf_marshal_public_key pk) = Ok (Some pk).
Proof. exact conf_roundtrip_pub. Qed.
Print Assumptions c11_rt_b58_pub.

(* ---- PEM: encoding/pem is an oracle (pe, pd) with the law  pd (pe t b) = Some (t, b)  as a premise ---- *)
Theorem c11_rt_pem_priv : forall pe pd, (forall t b, pd (pe t b) = Some (t, b)) ->
  forall k, wf_priv k -> parse_priv_key_pem pd (marshal_priv_pem pe k) = Ok (Some k).
Proof. exact pem_roundtrip_priv. Qed.
Print Assumptions c11_rt_pem_priv.

Theorem c11_rt_pem_key : forall pe pd, (forall t b, pd (pe t b) = Some (t, b)) ->
  forall k, wf_priv k -> parse_key_pem pd (marshal_priv_pem pe k) = Ok (Some k, Some (skipn 32 k)).
Proof. exact pem_roundtrip_key. Qed.
Print Assumptions c11_rt_pem_key.

Theorem c11_rt_pem_pub : forall pe pd, (forall t b, pd (pe t b) = Some (t, b)) ->
  forall pk, wf_pub pk -> parse_pub_key_pem pd (marshal_pub_pem pe pk) = Ok (Some pk).
Proof. exact pem_roundtrip_pub. Qed.
Print Assumptions c11_rt_pem_pub.

(* wrong PEM block types are errors *)
Theorem c11_pem_wrong_type : forall pe pd, (forall t b, pd (pe t b) = Some (t, b)) ->
  (forall pk, parse_priv_key_pem pd (marshal_pub_pem pe pk) = Err EPemType) /\
  (forall t b, bytes_eqb t pem_priv_type = false -> bytes_eqb t pem_pub_type = false ->
     parse_key_pem pd (pe t b) = Err EPemType /\ parse_priv_key_pem pd (pe t b) = Err EPemType).
Proof. intros pe pd L. split; [exact (pem_wrong_type pe pd L)|exact (pem_unknown_type pe pd L)]. Qed.
Print Assumptions c11_pem_wrong_type.

(* PEM inside a configuration string (white space trimmed first): two more laws of the library *)
Theorem c11_rt_conf_pem : forall pe pd,
  (forall t b, pd (trim_space (pe t b)) = Some (t, b)) ->
  (forall t b, has_prefix pem_begin_prefix (trim_space (pe t b)) = true) ->
  (forall k, wf_priv k -> conf_parse_private_key pd (marshal_priv_pem pe k) = Ok (Some k)) /\
  (forall pk, wf_pub pk -> conf_parse_public_key pd (marshal_pub_pem pe pk) = Ok (Some pk)).
Proof.
  intros pe pd L2 L3. split; [exact (conf_string_pem_roundtrip_priv pe pd L2 L3)|exact (conf_string_pem_roundtrip_pub pe pd L2 L3)].
Qed.
Print Assumptions c11_rt_conf_pem.

(* the premises about the PEM library are satisfiable *)
Theorem c11_pem_laws_satisfiable : exists (pe : bytes -> bytes -> bytes) (pd : pem_oracle),
  (forall t b, pd (pe t b) = Some (t, b)) /\
  (forall t b, pd (trim_space (pe t b)) = Some (t, b)) /\
  (forall t b, has_prefix pem_begin_prefix (trim_space (pe t b)) = true).
Proof. exists toy_pe, toy_pd. exact toy_pem_laws. Qed.
Print Assumptions c11_pem_laws_satisfiable.

(* ---- a decoded private key yields the same public key and peer id ---- *)
Theorem c11_same_identity : forall k k', wf_priv k ->
  unmarshal_priv (marshal_priv k) = Ok k' \/ unmarshal_priv (pb2_marshal key_type_ed25519 (k ++ skipn 32 k)) = Ok k' ->
  priv_get_public k' = priv_get_public k /\ priv_id k' = priv_id k /\ exists id, priv_id k = Ok id.
Proof. exact decoded_same_identity. Qed.
Print Assumptions c11_same_identity.

(* for every accepted raw form the key is the first 64 bytes and its public key is bytes 32..64 *)
Theorem c11_decoded_public : forall d k, unmarshal_ed25519_priv d = Ok k ->
  k = firstn 64 d /\ priv_get_public k = Ok (pub_half d).
Proof. intros d k H. split; [apply (ed_unmarshal_sound d k H)|apply ed_unmarshal_public, H]. Qed.
Print Assumptions c11_decoded_public.

(* ---- the 96-byte form is accepted iff the redundant key matches ---- *)
Theorem c11_96_iff : forall d, zlen d = 96 ->
  (is_ok (unmarshal_ed25519_priv d) = true <-> pub_half d = skipn 64 d).
Proof. exact ed_96_accept_iff. Qed.
Print Assumptions c11_96_iff.

Theorem c11_raw_lengths : forall d k, unmarshal_ed25519_priv d = Ok k ->
  k = firstn 64 d /\ zlen k = 64 /\ (zlen d = 64 \/ (zlen d = 96 /\ pub_half d = skipn 64 d)).
Proof. exact ed_unmarshal_sound. Qed.
Print Assumptions c11_raw_lengths.

(* ---- no parser panics, whatever the PEM library returns ---- *)
Theorem c11_total_proto : forall d, all_bytes d = true ->
  unmarshal_priv d <> Panic /\ unmarshal_pub d <> Panic /\ unmarshal_ed25519_priv d <> Panic.
Proof. intros d H. repeat split; [apply unmarshal_priv_total, H|apply unmarshal_pub_total, H|apply ed_unmarshal_total]. Qed.
Print Assumptions c11_total_proto.

Theorem c11_total_pem : forall pd dat, pem_bytes pd ->
  parse_key_pem pd dat <> Panic /\ parse_priv_key_pem pd dat <> Panic /\ parse_pub_key_pem pd dat <> Panic.
Proof. intros pd dat H. repeat split; [apply parse_key_pem_total, H|apply parse_priv_key_pem_total, H|apply parse_pub_key_pem_total, H]. Qed.
Print Assumptions c11_total_pem.

Theorem c11_total_conf : forall pd s, pem_bytes pd ->
  conf_parse_private_key pd s <> Panic /\ conf_parse_public_key pd s <> Panic.
Proof. intros pd s H. split; [apply conf_parse_private_key_total, H|apply conf_parse_public_key_total, H]. Qed.
Print Assumptions c11_total_conf.

(* ---- "either a key or an error" ----
   Full statement: no parser returns Ok None.  Holds for the configuration
   parsers on every non-blank field (a blank field is the documented "absent"),
   and for keypem whenever the input contains a PEM block: *)
Theorem c11_key_or_error_partial : forall pd s,
  (trim_space s <> [] -> conf_parse_private_key pd s <> Ok None /\ conf_parse_public_key pd s <> Ok None) /\
  (pd s <> None -> parse_priv_key_pem pd s <> Ok None /\ parse_pub_key_pem pd s <> Ok None).
Proof. intros pd s. split; [apply conf_key_or_error|apply keypem_key_or_error]. Qed.
Print Assumptions c11_key_or_error_partial.

(* refuted for keypem on input without a PEM block (KNOWN FINDING keypem-no-key-no-error) *)
Theorem c11_key_or_error_refuted : forall pd dat, pd dat = None ->
  parse_priv_key_pem pd dat = Ok None /\ parse_key_pem pd dat = Ok (None, None) /\ parse_pub_key_pem pd dat = Ok None.
Proof. exact keypem_nil_nil_refuted. Qed.
Print Assumptions c11_key_or_error_refuted.

(* non-vacuity *)
Example c11_nonvacuous :
  wf_priv (repeat 1 32 ++ repeat 2 32) /\
  unmarshal_ed25519_priv (repeat 1 32 ++ repeat 2 32 ++ repeat 2 32) = Ok (repeat 1 32 ++ repeat 2 32) /\
  unmarshal_ed25519_priv (repeat 1 32 ++ repeat 2 32 ++ repeat 3 32) = Err ERedundant /\
  unmarshal_ed25519_priv (repeat 1 63) = Err EPrivLen /\
  conf_parse_private_key toy_pd [32; 10] = Ok None /\
  conf_parse_private_key toy_pd [48; 79] = Err EConfB58.
Proof. repeat split; vm_compute; reflexivity. Qed.
