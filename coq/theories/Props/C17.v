(* C17: an accepted envelope configuration can be opened by its recipients. *)
From Bifrost Require Import Lib.Base Lib.Sym Enc.Prim Enc.Model Enc.Proofs Env.Model Env.Proofs Env.Reach.

(* if sealing accepts, any key list containing the private keys of all
   recipients unseals the envelope and returns the payload *)
Theorem c17_all_recipients_unlock : forall o r ctx payload kps cf env K,
  honest_orc o -> cfg_wf cf -> length (r_nonce r) = 24%nat ->
  build o r ctx payload kps (Some cf) = Ok env ->
  (forall pub, In pub kps -> knows K pub = true) ->
  unlock o ctx env K = Ok (Some payload, spec_result kps K cf true) /\
  cf_threshold cf + 1 <= Z.of_nat (length (reach kps K cf)).
Proof. exact all_recipients_unlock. Qed.
Print Assumptions c17_all_recipients_unlock.

(* a configuration in which the shares placed in grants that name a key are
   fewer than threshold+1 is rejected at seal time ... *)
Theorem c17_unreachable_rejected : forall o r ctx payload kps cf,
  reachable (cf_grants cf) (build_total cf) < cf_threshold cf + 1 ->
  is_ok (build o r ctx payload kps (Some cf)) = false.
Proof. exact unreachable_rejected. Qed.
Print Assumptions c17_unreachable_rejected.

(* ... and that number bounds what ANY set of keys can reach, so exactly the
   configurations no key set could ever open are the ones refused for it *)
Theorem c17_reach_bounded : forall kps K cf,
  cfg_wf cf -> Z.of_nat (length (reach kps K cf)) <= reachable (cf_grants cf) (build_total cf).
Proof. exact reach_bounded. Qed.
Print Assumptions c17_reach_bounded.

(* an accepted envelope carries the recipients and the threshold it was configured with *)
Theorem c17_build_fields : forall o r ctx payload kps cf env,
  build o r ctx payload kps (Some cf) = Ok env -> e_keypairs env = kps /\ e_threshold env = cf_threshold cf.
Proof.
  intros o r ctx payload kps cf env HB. apply build_inv in HB.
  destruct HB as (cf' & gs & Hcf & _ & _ & _ & _ & _ & _ & ->). inversion Hcf; subst. split; reflexivity.
Qed.
Print Assumptions c17_build_fields.

(* the keypair list may repeat a key: [A;B;A] with one single-share grant per
   index and threshold 2 is accepted, and the keys {A,B} reach all 3 shares *)
Example c17_repeated_recipient :
  let kps := [edpub (lift [10]); edpub (lift [11]); edpub (lift [10])] in
  let cf := {| cf_id := lift [7]; cf_threshold := 2; cf_total := 0;
               cf_grants := [ {| gc_count := 1; gc_idx := [0] |}; {| gc_count := 1; gc_idx := [1] |};
                              {| gc_count := 1; gc_idx := [2] |} ] |} in
  (forall pub, In pub kps -> knows [lift [10]; lift [11]] pub = true) /\
  reach kps [lift [10]; lift [11]] cf = [1;2;3]%nat /\ reach kps [lift [11]; lift [11]] cf = [2]%nat /\
  is_ok (build {| o_valid := fun _ => true; o_s2raw := fun _ => None; o_s2len := fun _ => 0%nat |}
           {| r_secret := lift [1]; r_poly := lift [2]; r_nonce := lift (repeat 3 24) |}
           (lift [99]) (lift [5]) kps (Some cf)) = true.
Proof.
  cbv zeta. split.
  - intros pub [<-|[<-|[<-|[]]]]; vm_compute; reflexivity.
  - repeat split; vm_compute; reflexivity.
Qed.

(* non-vacuity: the historical counter-examples are rejected by the model of the repaired code *)
Definition ex_orc : orc := {| o_valid := fun _ => true; o_s2raw := fun _ => None; o_s2len := fun _ => 0%nat |}.
Definition ex_rnd : rnd := {| r_secret := lift [1]; r_poly := lift [2]; r_nonce := lift (repeat 3 24) |}.
Example c17_counterexamples_rejected :
  build ex_orc ex_rnd (lift [99]) (lift [5]) [edpub (lift [10])]
    (Some {| cf_id := []; cf_threshold := 2; cf_total := 5; cf_grants := [ {| gc_count := 1; gc_idx := [0] |} ] |}) = Err E_THRESH /\
  build ex_orc ex_rnd (lift [99]) (lift [5]) [edpub (lift [10])]
    (Some {| cf_id := []; cf_threshold := 0; cf_total := 0; cf_grants := [ {| gc_count := 1; gc_idx := [] |} ] |}) = Err E_THRESH /\
  is_ok (build ex_orc ex_rnd (lift [99]) (lift [5]) [edpub (lift [10])]
    (Some {| cf_id := []; cf_threshold := 0; cf_total := 0; cf_grants := [ {| gc_count := 1; gc_idx := [0] |} ] |})) = true.
Proof. repeat split; vm_compute; reflexivity. Qed.
