(* C35: RPC and HTTP lookups reach only matching services, with exact prefix stripping. *)
From Bifrost Require Import Lib.Base Lib.StrOps gen.Rpc Rpc.Model Rpc.Proofs.

(* the RPC service controller answers exactly when the service id passes one of the
   configured filters (or none is configured) and the server id passes the server filter *)
Theorem c35_rpc_answers : forall prefixes re lst srv_re service server,
  rpc_service_matches prefixes re lst srv_re service server = true <->
  ((prefixes = [] /\ re = None /\ lst = [])
   \/ (exists p, In p prefixes /\ exists r, service = p ++ r)
   \/ (exists f, re = Some f /\ f service = true)
   \/ In service lst)
  /\ (forall g, srv_re = Some g -> g server = true).
Proof. exact rpc_service_matches_spec. Qed.
Print Assumptions c35_rpc_answers.

(* strip enabled, request matched by the non-empty prefix p that is first in list
   order: the wrapped invoker is called with exactly p removed *)
Theorem c35_rpc_strip : forall P1 p P2 rest,
  p <> [] -> (forall q, In q P1 -> has_prefix (p ++ rest) q = false) ->
  rpc_service_sees (P1 ++ p :: P2) true (p ++ rest) = Ok (Some rest).
Proof. exact rpc_service_strip. Qed.
Print Assumptions c35_rpc_strip.

(* conversely, whatever the invoker is called with is the request minus the first matching prefix *)
Theorem c35_rpc_strip_sound : forall P s s',
  P <> [] -> rpc_service_sees P true s = Ok (Some s') ->
  exists p, In p P /\ p <> [] /\ s = p ++ s' /\ first_match (has_prefix s) P = Some p.
Proof. intros P s s' HP H. apply prefix_invoker_sound; auto. Qed.
Print Assumptions c35_rpc_strip_sound.

(* strip disabled or no prefixes configured: the request is passed unchanged *)
Theorem c35_rpc_nostrip : forall P s,
  rpc_service_sees P false s = Ok (Some s) /\ rpc_service_sees [] true s = Ok (Some s).
Proof. intros; split; reflexivity. Qed.
Print Assumptions c35_rpc_nostrip.

(* as the code has it (not demanded by the property): matched by regex/list only
   while stripping with prefixes configured -> the invoker is not called *)
Theorem c35_rpc_strip_none : forall P s,
  P <> [] -> (forall q, In q P -> has_prefix s q = false) -> rpc_service_sees P true s = Ok None.
Proof. exact rpc_service_strip_none. Qed.
Print Assumptions c35_rpc_strip_none.

(* the slice after the matched prefix never panics *)
Theorem c35_strip_total : forall P s,
  (exists o, prefix_invoker_sees P s = Ok o) /\ (forall strip re, exists o, http_sees P strip re s = Ok o).
Proof. intros; split; [apply prefix_invoker_total|intros; apply http_sees_total]. Qed.
Print Assumptions c35_strip_total.

(* invoker controller, non-empty prefixes *)
Theorem c35_invoker_answers : forall P s,
  (forall q, In q P -> q <> []) ->
  (invoker_matches P s = Ok true <-> (P = [] \/ exists p, In p P /\ exists r, s = p ++ r)) /\
  (invoker_matches P s = Ok true \/ invoker_matches P s = Ok false).
Proof. exact invoker_matches_spec. Qed.
Print Assumptions c35_invoker_answers.

Theorem c35_invoker_strip : forall P1 p P2 rest,
  p <> [] -> (forall q, In q P1 -> has_prefix (p ++ rest) q = false) ->
  invoker_sees (P1 ++ p :: P2) (p ++ rest) = Ok (Some rest).
Proof. exact prefix_invoker_strips. Qed.
Print Assumptions c35_invoker_strip.

(* HTTP handler controller *)
Theorem c35_http_answers : forall P re path,
  http_matches P re path = true <->
  (P = [] /\ re = None)
  \/ (exists p, In p P /\ exists r, path = p ++ r)
  \/ (exists f, re = Some f /\ f path = true).
Proof. exact http_matches_spec. Qed.
Print Assumptions c35_http_answers.

Theorem c35_http_strip : forall P1 p P2 rest re,
  p <> [] -> (forall q, In q P1 -> has_prefix (p ++ rest) q = false) ->
  http_matches (P1 ++ p :: P2) re (p ++ rest) = true /\
  http_sees (P1 ++ p :: P2) true re (p ++ rest) = Ok (Some rest).
Proof. exact http_strip. Qed.
Print Assumptions c35_http_strip.

(* MatchServeMuxPattern passes a non-empty method through unchanged *)
Theorem c35_mux_method : forall m, m <> [] -> mux_method m = m.
Proof. exact mux_method_nonempty. Qed.
Print Assumptions c35_mux_method.

(* non-vacuity: second prefix matches, first does not; "ab" is stripped, not "a" *)
Example c35_nonvacuous :
  rpc_service_sees [[98]; [97;98]; [97]] true [97;98;47] = Ok (Some [47]) /\
  rpc_service_matches [[98]; [97;98]] None [] (Some (fun s => bytes_eqb s [115])) [97;98;47] [115] = true /\
  rpc_service_matches [[98]; [97;98]] None [] (Some (fun s => bytes_eqb s [115])) [97;98;47] [116] = false /\
  http_sees [[47;97]] true None [47;97;47;98] = Ok (Some [47;98]).
Proof. repeat split; reflexivity. Qed.
