(* C03: links are authenticated to the peer that holds the key. *)
From Bifrost Require Import Lib.Base Lib.Sym gen.Tls gen.TlsOid Tls.Model Tls.Proofs Link.Model Dial.Model Dial.Proofs.

(* A chain is accepted exactly when it is one certificate for which x509
   verification (as own root) succeeds and whose first key extension carries a
   signature, by the returned peer key k, over certificate_prefix ++
   PKIX(certificate key) -- and, when PubKeyFromCertChain checks it, whose own
   signature verifies under its own key. *)
Theorem c03_chain_accept_iff : forall chain k,
  pubkey_from_chain chain = Ok k <->
  exists c e, chain = [c] /\ c_verify_ok c = true /\ c_pkix_ok c = true /\
    find_key_ext (c_exts c) = Some e /\
    e_value e = SignedKey (PkOf k) (SigBy k (binding_msg (c_key c))) /\
    (checks_self_sig = true -> c_self_signed c = true).
Proof. exact chain_accept_iff. Qed.
Print Assumptions c03_chain_accept_iff.

Theorem c03_rejects_wrong_length : forall chain,
  length chain <> 1%nat -> pubkey_from_chain chain = Err E_CHAIN_LEN.
Proof. exact chain_rejects_wrong_length. Qed.
Print Assumptions c03_rejects_wrong_length.

Theorem c03_rejects_missing_extension : forall c,
  (forall x, In x (c_exts c) -> e_oid x <> tls_extension_oid) -> pubkey_from_chain [c] = Err E_NO_EXT.
Proof. exact chain_rejects_missing_ext. Qed.
Print Assumptions c03_rejects_missing_extension.

Theorem c03_rejects_unverified : forall c,
  c_verify_ok c = false -> is_err (pubkey_from_chain [c]) = true.
Proof. exact chain_rejects_unverified. Qed.
Print Assumptions c03_rejects_unverified.

(* PubKeyFromCertChain checks the certificate's own signature on this tree
   (regenerated from crypto/tls/tls.go; x509 Verify alone would not) *)
Theorem c03_self_signature_checked_on_this_tree : checks_self_sig = true.
Proof. reflexivity. Qed.
Print Assumptions c03_self_signature_checked_on_this_tree.

(* full statement: an accepted chain is a single SELF-SIGNED certificate whose
   first key extension is a valid key-binding signature by the returned key *)
Theorem c03_accepted_chain : forall chain k,
  pubkey_from_chain chain = Ok k ->
  exists c e, chain = [c] /\ c_self_signed c = true /\ c_verify_ok c = true /\
    find_key_ext (c_exts c) = Some e /\
    e_value e = SignedKey (PkOf k) (SigBy k (binding_msg (c_key c))).
Proof.
  intros chain k H. apply chain_accept_iff in H as (c & e & -> & Hv & _ & Hf & He & Hs).
  exists c, e. pose proof (Hs c03_self_signature_checked_on_this_tree). repeat split; auto.
Qed.
Print Assumptions c03_accepted_chain.

Theorem c03_rejects_not_self_signed : forall c,
  c_self_signed c = false -> is_err (pubkey_from_chain [c]) = true.
Proof.
  intros c H. destruct (pubkey_from_chain [c]) as [k| |] eqn:E; [|reflexivity|].
  - apply c03_accepted_chain in E as (c' & e & Ec & Hs & _). inversion Ec; subst. congruence.
  - exfalso. exact (chain_total _ E).
Qed.
Print Assumptions c03_rejects_not_self_signed.

(* sensitivity: for code that relies on x509 Verify alone (which accepts a
   certificate found in its root pool without checking its signature; the
   behaviour before /repo 1afc499) the clause is false *)
Theorem c03_self_signed_refuted_when_unchecked :
  checks_self_sig = false ->
  pubkey_from_chain [resigned_cert] = Ok 3%nat /\ c_self_signed resigned_cert = false.
Proof. exact non_self_signed_accepted_when_unchecked. Qed.
Print Assumptions c03_self_signed_refuted_when_unchecked.

(* the verification callback accepts only such chains, and with a required
   remote peer only that peer *)
Theorem c03_verify_peer_iff : forall remote raw k,
  verify_peer remote raw = Ok k <->
  exists chain, raw = map RawCert chain /\ pubkey_from_chain chain = Ok k /\
                (remote = 0 \/ id_of k = remote).
Proof. exact verify_peer_ok. Qed.
Print Assumptions c03_verify_peer_iff.

Theorem c03_expected_peer : forall remote raw k,
  remote <> 0 -> verify_peer remote raw = Ok k -> id_of k = remote.
Proof. exact verify_peer_expected. Qed.
Print Assumptions c03_expected_peer.

Theorem c03_total : forall remote raw chain,
  verify_peer remote raw <> Panic /\ pubkey_from_chain chain <> Panic.
Proof. intros. split; [apply verify_peer_total|apply chain_total]. Qed.
Print Assumptions c03_total.

(* the link's remote peer is the id of the key extracted from the session's chain *)
Theorem c03_link_identity : forall chain id,
  link_remote_peer chain = Ok id <-> exists k, pubkey_from_chain chain = Ok k /\ id = id_of k.
Proof. exact link_remote_is_chain_key. Qed.
Print Assumptions c03_link_identity.

(* a successful handshake *)
Theorem c03_handshake : forall expected a id,
  handshake expected a = Ok id ->
  a_proves_key a = true /\
  exists c e k, a_raw a = [RawCert c] /\ id = id_of k /\
    c_verify_ok c = true /\ find_key_ext (c_exts c) = Some e /\
    e_value e = SignedKey (PkOf k) (SigBy k (binding_msg (c_key c))) /\
    (expected = 0 \/ id = expected) /\ c_self_signed c = true.
Proof.
  intros expected a id H. apply handshake_ok in H as (Hk & c & e & k & H1 & H2 & H3 & H4 & H5 & H6 & H7).
  split; [exact Hk|]. exists c, e, k. pose proof (H7 c03_self_signature_checked_on_this_tree). repeat split; auto.
Qed.
Print Assumptions c03_handshake.

(* expected-peer enforcement at the level callers use it: Transport.DialPeer(x, _)
   with the constraint passed to TLS, or (pconn / inproc / udp / websocket dial
   functions) a handshake with an EMPTY constraint followed by DialPeer's
   comparison of the link's remote peer with x.  Either way a link reported to a
   caller that required x names x, and x is the authenticated key holder. *)
Theorem c03_dial_expected : forall k x a id,
  x <> 0 -> dial_expected k x a = Ok id ->
  id = x /\ a_proves_key a = true /\
  exists c e key, a_raw a = [RawCert c] /\ id = id_of key /\
    find_key_ext (c_exts c) = Some e /\
    e_value e = SignedKey (PkOf key) (SigBy key (binding_msg (c_key c))).
Proof. exact dial_expected_ok. Qed.
Print Assumptions c03_dial_expected.

Theorem c03_enforcement_layers_agree : forall x a,
  is_ok (dial_expected AtTls x a) = is_ok (dial_expected PostCheck x a).
Proof. exact enforcement_layers_agree. Qed.
Print Assumptions c03_enforcement_layers_agree.

(* ... also when several DialPeer calls with DIFFERENT expected peers overlap on
   one address and share the dial in flight (Dial/Model.v cstep, any
   interleaving of calls, completions and losses): each caller is checked
   against the peer IT required *)
Theorem c03_overlapping_dials_expected_peer : forall a es i p x,
  In (i, DLink p) (c_res (crun a es)) -> requested es i = Some x -> x <> 0 -> p = x.
Proof. exact shared_dialer_safe. Qed.
Print Assumptions c03_overlapping_dials_expected_peer.

(* history form: in any sequence of connection attempts every established link
   names the key that signed the binding of the certificate whose key was proved *)
Theorem c03_history_authenticated : forall expected l id,
  In id (established expected l) ->
  exists a c e k, In a l /\ a_proves_key a = true /\ a_raw a = [RawCert c] /\ id = id_of k /\
    find_key_ext (c_exts c) = Some e /\
    e_value e = SignedKey (PkOf k) (SigBy k (binding_msg (c_key c))) /\
    (expected = 0 \/ id = expected).
Proof. exact history_links_authenticated. Qed.
Print Assumptions c03_history_authenticated.

(* and parties that do not hold the victim's private key (all signatures by it
   that they can show were made by the victim for its own certificate keys,
   whose private halves they cannot prove possession of) are never named as the victim *)
Theorem c03_impostor_never_named : forall victim VK expected l,
  Forall (not_holding victim VK) l -> ~ In (id_of victim) (established expected l).
Proof. exact history_never_names_victim. Qed.
Print Assumptions c03_impostor_never_named.

(* non-vacuity: an honest attempt is accepted and names its key; replaying the
   honest binding on another certificate key, or the honest certificate without
   its key, satisfies not_holding and is refused *)
Definition honest_cert (k : nat) (ck : Z) : cert :=
  mkCert true [mkExt tls_extension_oid false (SignedKey (PkOf k) (SigBy k (binding_msg ck)))] true ck true.
Example c03_nonvacuous :
  handshake 0 (mkAttempt [RawCert (honest_cert 2 7)] true) = Ok (id_of 2)
  /\ handshake (id_of 2) (mkAttempt [RawCert (honest_cert 2 7)] true) = Ok (id_of 2)
  /\ handshake (id_of 1) (mkAttempt [RawCert (honest_cert 2 7)] true) = Err E_PEER_MISMATCH
  /\ not_holding 2 [7] (mkAttempt [RawCert (honest_cert 2 7)] false)
  /\ handshake 0 (mkAttempt [RawCert (honest_cert 2 7)] false) = Err E_TLS
  /\ not_holding 2 [7]
       (mkAttempt [RawCert (mkCert true [mkExt tls_extension_oid false (SignedKey (PkOf 2) (SigBy 2 (binding_msg 7)))] true 8 true)] true)
  /\ handshake 0
       (mkAttempt [RawCert (mkCert true [mkExt tls_extension_oid false (SignedKey (PkOf 2) (SigBy 2 (binding_msg 7)))] true 8 true)] true)
     = Err E_SIG.
Proof.
  split; [vm_compute; reflexivity|]. split; [vm_compute; reflexivity|]. split; [vm_compute; reflexivity|].
  split.
  { split.
    - intros c e pk m [Hc|[]] He Hv. inversion Hc; subst c. destruct He as [<-|[]].
      cbn in Hv. inversion Hv; subst. exists 7. split; [left; reflexivity|reflexivity].
    - cbn. discriminate. }
  split; [vm_compute; reflexivity|]. split; [|vm_compute; reflexivity].
  split.
  - intros c e pk m [Hc|[]] He Hv. inversion Hc; subst c. destruct He as [<-|[]].
    cbn in Hv. inversion Hv; subst. exists 7. split; [left; reflexivity|reflexivity].
  - intros _ c [Hc|[]]. inversion Hc; subst c. cbn. intros [H|[]]. discriminate.
Qed.
