(* C04: link lookups return only links between the requested peers. *)
From Bifrost Require Import Lib.Base Link.Model Link.Maps Link.Proofs.

(* [yielded U lb me h src dst] = the values an EstablishLinkWithPeer(src, dst)
   request holds when made after the history h of controller lock regions
   (establish / lost / earlier requests in any interleaving); me = controller peer. *)

(* every yielded link has the requested remote peer, is not a self-link, was
   reported established by the transport, and the request's source is empty or
   the controller's own peer *)
Theorem c04_yielded_sound : forall U me h src dst q,
  In q (yielded U lost_broadcasts true me h src dst) ->
  (src = 0 \/ src = me) /\ dst <> 0 /\ remote_of U q = dst /\ remote_of U q <> me /\ In (Est q) h.
Proof. intros U. exact (yielded_sound U lost_broadcasts true). Qed.
Print Assumptions c04_yielded_sound.

(* hence, for a transport that reports links whose local peer is its own peer
   (transport contract, an explicit premise), a request from S to D only yields
   links from S (when S is given) to D *)
Theorem c04_yielded_between : forall U me h src dst q,
  (forall p, In (Est p) h -> local_of U p = me) ->
  In q (yielded U lost_broadcasts true me h src dst) ->
  (src = 0 \/ local_of U q = src) /\ remote_of U q = dst /\ local_of U q = me.
Proof.
  intros U me h src dst q Hc H.
  destruct (yielded_sound U lost_broadcasts true _ _ _ _ _ H) as (Hs & _ & Hr & _ & HE).
  rewrite (Hc _ HE). destruct Hs as [-> | ->]; tauto.
Qed.
Print Assumptions c04_yielded_between.

(* the same holds for every running directive at every point of every history *)
Theorem c04_running_directives_sound : forall U me h a b v q,
  In (a, b, v) (st_dirs (run U me h)) -> In q v ->
  (a = 0 \/ a = me) /\ b <> 0 /\ remote_of U q = b /\ remote_of U q <> me /\ In (Est q) h.
Proof. intros U. exact (dirs_sound U lost_broadcasts true). Qed.
Print Assumptions c04_running_directives_sound.

(* start-up ordering: requests (any sources/targets, any number) that reach the
   controller BEFORE its transport is constructed, followed by the construction
   and any history h, yield exactly what the same request yields on a controller
   whose transport was constructed first -- the source check is made against the
   transport's peer when the resolver runs, whenever the directive arrived; in
   particular a request with another peer as source yields nothing *)
Theorem c04_arrival_time_irrelevant : forall U me pre h src dst q,
  lost_broadcasts = true ->
  forallb is_request pre = true ->
  (In q (yielded U lost_broadcasts false me (pre ++ Ready :: h) src dst) <->
   In q (yielded U lost_broadcasts true me h src dst)).
Proof. intros U me pre h src dst q ->. exact (arrival_time_irrelevant U me pre h src dst q). Qed.
Print Assumptions c04_arrival_time_irrelevant.

Theorem c04_yielded_sound_from_startup : forall U me h src dst q,
  In q (yielded U lost_broadcasts false me h src dst) ->
  (src = 0 \/ src = me) /\ dst <> 0 /\ remote_of U q = dst /\ remote_of U q <> me /\ In (Est q) h.
Proof. intros U. exact (yielded_sound U lost_broadcasts false). Qed.
Print Assumptions c04_yielded_sound_from_startup.

Theorem c04_early_directives_sound : forall U me h a b v q,
  In (a, b, v) (st_dirs (run_gen U lost_broadcasts (init0 me) h)) -> In q v ->
  (a = 0 \/ a = me) /\ b <> 0 /\ remote_of U q = b /\ remote_of U q <> me /\ In (Est q) h.
Proof. intros U. exact (dirs_sound U lost_broadcasts false). Qed.
Print Assumptions c04_early_directives_sound.

(* link callbacks made before / during construction (self-dials, duplicates,
   same-uuid replacements, in any order k after the constructor returned,
   interleaved with early requests pre): tables, closed links and readiness are
   those of a controller constructed first that received the same callbacks *)
Theorem c04_startup_link_events_irrelevant : forall U me pre k,
  forallb is_request pre = true ->
  teq (run_gen U lost_broadcasts (init0 me) (pre ++ Ready :: k)) (run_gen U lost_broadcasts (init me) k).
Proof. intros U. exact (startup_tables_irrelevant U lost_broadcasts). Qed.
Print Assumptions c04_startup_link_events_irrelevant.

(* an establish lock region that runs while the controller is not executing
   (execCtx == nil: the constructor returned but Execute has not stored its
   handles yet, or it has exited) stores nothing and closes the link *)
Theorem c04_est_while_not_executing_refused : forall U lb s p,
  st_ready s = false -> fst (step_gen U lb s (Est p)) = close_only s p.
Proof. intros U lb s p H. cbn [step_gen]. rewrite H. reflexivity. Qed.
Print Assumptions c04_est_while_not_executing_refused.

(* the self-dial rule holds from the not-yet-constructed state too, for every history *)
Theorem c04_self_never_yielded_from_startup : forall U me h src dst q,
  remote_of U q = me -> ~ In q (yielded U lost_broadcasts false me h src dst).
Proof.
  intros U me h src dst q Hs H. pose proof (yielded_sound U lost_broadcasts false _ _ _ _ _ H) as H'.
  unfold DirOk in H'. tauto.
Qed.
Print Assumptions c04_self_never_yielded_from_startup.

Theorem c04_self_never_reported_from_startup : forall U me h r q,
  remote_of U q = me -> ~ In q (get_peer_links U (run_gen U lost_broadcasts (init0 me) h) r).
Proof. intros U. exact (self_never_reported U lost_broadcasts false). Qed.
Print Assumptions c04_self_never_reported_from_startup.

(* a link whose remote peer is the local peer is closed, changes no table ... *)
Theorem c04_self_dial_closed : forall U s p,
  remote_of U p = st_peer s -> do_est U s p = close_only s p.
Proof. intros U. exact (self_dial_closed U). Qed.
Print Assumptions c04_self_dial_closed.

(* ... and is never yielded nor reported *)
Theorem c04_self_never_yielded : forall U me h src dst q,
  remote_of U q = me -> ~ In q (yielded U lost_broadcasts true me h src dst).
Proof.
  intros U me h src dst q Hs H. pose proof (yielded_sound U lost_broadcasts true _ _ _ _ _ H) as H'.
  unfold DirOk in H'. tauto.
Qed.
Print Assumptions c04_self_never_yielded.

Theorem c04_self_never_reported : forall U me h r q,
  remote_of U q = me -> ~ In q (get_peer_links U (run U me h) r).
Proof. intros U. exact (self_never_reported U lost_broadcasts true). Qed.
Print Assumptions c04_self_never_reported.

(* every stream mounted on a link reports that link's remote peer, and the
   HandleMountedStream directive carries (local, remote) of the link *)
Theorem c04_stream_peer : forall U p,
  mounted_stream_peer U p = remote_of U p /\ incoming_directive U p = (local_of U p, remote_of U p).
Proof. intros U. exact (stream_peer_is_link_remote U). Qed.
Print Assumptions c04_stream_peer.

(* non-vacuity: a self-dial, a third-party link and the requested link *)
Definition ex_univ : nat -> link := fun p =>
  match p with
  | 0%nat => mkLink 100 1 1 1     (* self-dial *)
  | 1%nat => mkLink 200 1 1 3     (* link to a third party *)
  | _ => mkLink 300 2 1 2
  end.
Example c04_nonvacuous :
  let h := [Est 0%nat; Est 1%nat; Est 2%nat] in
  yielded ex_univ lost_broadcasts true 1 h 1 2 = [2%nat]
  /\ yielded ex_univ lost_broadcasts true 1 h 0 3 = [1%nat]
  /\ yielded ex_univ lost_broadcasts true 1 h 4 2 = []
  /\ yielded ex_univ lost_broadcasts true 1 h 0 1 = []
  /\ st_closed (run ex_univ 1 h) = [0%nat]
  (* a foreign-source request made before the transport exists still yields nothing *)
  /\ yielded ex_univ lost_broadcasts false 1 ([Resolve 4 2; Resolve 1 2; Ready] ++ h) 4 2 = []
  /\ yielded ex_univ lost_broadcasts false 1 ([Resolve 4 2; Resolve 1 2; Ready] ++ h) 1 2 = [2%nat].
Proof. vm_compute. repeat split. Qed.
