(* C13: key derivation is deterministic, separated and total. *)
From Bifrost Require Import Lib.Base Lib.Sym Lib.SigSym gen.Derive Derive.Model Derive.ProofsLow
  Derive.Proofs Derive.Run Derive.RunProofs.

(* total: a result or an error for every context (also empty), every salt
   (nil and empty are the same value), every key and every output length;
   Panic is an explicit outcome of the model's partial operations (i % 0,
   index and slice bounds) *)
Theorem c13_total : forall ctx salt priv n, derive_key ctx salt priv n <> Panic.
Proof. exact derive_key_total. Qed.
Print Assumptions c13_total.

Theorem c13_result : forall ctx salt priv n,
  match priv with
  | PrivEd k => exists o, derive_key ctx salt priv n = Ok o /\ length o = n
  | _ => exists e, derive_key ctx salt priv n = Err e
  end.
Proof. exact derive_key_result. Qed.
Print Assumptions c13_result.

Theorem c13_ed25519_total : forall ctx salt priv, derive_ed25519 ctx salt priv <> Panic.
Proof. exact derive_ed25519_total. Qed.
Print Assumptions c13_ed25519_total.

(* the guard on the xor loop is what makes this true: without it the empty context panics *)
Theorem c13_unguarded_loop_panics : forall x m, xor_ctx_unguarded [] (x :: m) = Panic.
Proof. exact xor_unguarded_panics. Qed.
Print Assumptions c13_unguarded_loop_panics.

(* deterministic: the result is a function of (context, salt, key, length) only;
   a longer output extends a shorter one (XOF) *)
Theorem c13_deterministic : forall ctx salt priv n n' o o',
  derive_key ctx salt priv n = Ok o -> derive_key ctx salt priv n' = Ok o' ->
  (n <= n')%nat -> o = firstn n o'.
Proof. exact derive_key_prefix. Qed.
Print Assumptions c13_deterministic.

(* separated: equal non-empty outputs only for equal key, context and salt
   (primitives idealised as free functions, DH symmetric) *)
Theorem c13_injective : forall ctx salt k n ctx' salt' k' n' o,
  derive_key ctx salt (PrivEd k) n = Ok o ->
  derive_key ctx' salt' (PrivEd k') n' = Ok o ->
  (0 < n)%nat ->
  ctx = ctx' /\ salt = salt' /\ k = k' /\ n = n'.
Proof. exact derive_key_injective. Qed.
Print Assumptions c13_injective.

Theorem c13_separated : forall ctx salt k n ctx' salt' k' n' o o',
  derive_key ctx salt (PrivEd k) n = Ok o ->
  derive_key ctx' salt' (PrivEd k') n' = Ok o' ->
  (0 < n)%nat ->
  (ctx, salt, k) <> (ctx', salt', k') -> o <> o'.
Proof. exact derive_key_separated. Qed.
Print Assumptions c13_separated.

Theorem c13_ed25519_separated : forall ctx salt k ctx' salt' k' d,
  derive_ed25519 ctx salt (PrivEd k) = Ok d ->
  derive_ed25519 ctx' salt' (PrivEd k') = Ok d ->
  ctx = ctx' /\ salt = salt' /\ k = k'.
Proof. exact derive_ed25519_injective. Qed.
Print Assumptions c13_ed25519_separated.

(* the relation the case evaluation computes from the inputs is the relation
   of the model's outputs, for all inputs (including keys that are themselves
   derived, to any depth) *)
Theorem c13_case_relation_is_the_models : forall c1 s1 p1 n1 c2 s2 p2 n2,
  out_rel (run_derive c1 s1 p1 n1) (run_derive c2 s2 p2 n2) = fast_rel c1 s1 p1 n1 c2 s2 p2 n2.
Proof. exact fast_rel_sound. Qed.
Print Assumptions c13_case_relation_is_the_models.

Theorem c13_case_same_key_is_the_models : forall c1 s1 p1 c2 s2 p2,
  ed_same (run_derive_ed c1 s1 p1) (run_derive_ed c2 s2 p2) = fast_same c1 s1 p1 c2 s2 p2.
Proof. exact fast_same_sound. Qed.
Print Assumptions c13_case_same_key_is_the_models.

(* non-vacuity: a derivation with an empty context and an empty salt succeeds,
   and differs from the one with context "a" *)
Example c13_nonvacuous :
  out_class (derive_key [] [] (PrivEd (KAtom 0)) 4) = 0%nat /\
  out_class (derive_key [97] [] (PrivEd (KAtom 0)) 4) = 0%nat /\
  fast_rel [] [] (PKey (KA 0)) 4 [97] [] (PKey (KA 0)) 4 = 0%nat /\
  fast_rel [] [] (PKey (KA 0)) 4 [] [] (PKey (KA 0)) 9 = 2%nat.
Proof. vm_compute. auto. Qed.
