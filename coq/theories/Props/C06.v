(* C06: link tables stay consistent with the history of link events. *)
From Bifrost Require Import Lib.Base Link.Model Link.Maps Link.Proofs Link.Quic.

(* The model is the controller LTS of Link/Model.v: [run U me h] is the state of
   the tables after the history [h] of lock regions (any interleaving of
   HandleLinkEstablished / HandleLinkLost / resolver passes is some list [h]),
   [live U me h] is the specification: the links established and not yet lost,
   a newer link with the same identifier replacing the older one. *)

(* HandleLinkLost wakes the resolvers on the current tree (regenerated from
   transport-handler.go): the directive theorems below are about the real model *)
Theorem c06_lost_broadcasts_on_this_tree : lost_broadcasts = true.
Proof. reflexivity. Qed.
Print Assumptions c06_lost_broadcasts_on_this_tree.

(* reported links per peer = live links with that remote: index used by the resolvers *)
Theorem c06_index_is_live : forall U me h r q,
  In q (peer_links r (run U me h)) <-> In q (live U me h) /\ remote_of U q = r.
Proof. intros U me h r q. exact (reported_is_live U lost_broadcasts true me h r q (wf_true h)). Qed.
Print Assumptions c06_index_is_live.

(* ... Controller.GetPeerLinks *)
Theorem c06_get_peer_links_is_live : forall U me h r q,
  In q (get_peer_links U (run U me h) r) <-> In q (live U me h) /\ remote_of U q = r.
Proof. intros U me h r q. exact (get_peer_links_is_live U lost_broadcasts true me h r q (wf_true h)). Qed.
Print Assumptions c06_get_peer_links_is_live.

(* ... and what an EstablishLinkWithPeer(src, dst) request yields after any history *)
Theorem c06_yielded_is_live : forall U me h src dst q,
  In q (yielded U lost_broadcasts true me h src dst) <->
  dst <> 0 /\ (src = 0 \/ src = me) /\ In q (live U me h) /\ remote_of U q = dst.
Proof.
  intros U me h src dst q. rewrite c06_lost_broadcasts_on_this_tree.
  apply (yielded_is_live_when_lost_broadcasts U true); [left; reflexivity|apply wf_true].
Qed.
Print Assumptions c06_yielded_is_live.

(* each link is reported once *)
Theorem c06_reported_once : forall U me h r, NoDup (peer_links r (run U me h)).
Proof. intros U. exact (reported_nodup U lost_broadcasts true). Qed.
Print Assumptions c06_reported_once.

(* at most one live link per identifier *)
Theorem c06_one_link_per_uuid : forall U me h q1 q2,
  In q1 (live U me h) -> In q2 (live U me h) -> uuid_of U q1 = uuid_of U q2 -> q1 = q2.
Proof. intros U me h q1 q2. exact (live_unique_uuid U lost_broadcasts true me h q1 q2 (wf_true h)). Qed.
Print Assumptions c06_one_link_per_uuid.

(* a lost link is never reported again (unless the transport reports it established again) *)
Theorem c06_lost_never_reported : forall U me h h' q r,
  ~ In (Est q) h' -> ~ In q (peer_links r (run U me (h ++ Lost q :: h'))).
Proof. intros U me h h' q r. exact (lost_never_reported U lost_broadcasts true me h h' q r (wf_true _)). Qed.
Print Assumptions c06_lost_never_reported.

Theorem c06_lost_never_yielded : forall U me h h' q src dst,
  ~ In (Est q) h' -> ~ In q (yielded U lost_broadcasts true me (h ++ Lost q :: h') src dst).
Proof.
  intros U me h h' q src dst Hn H. apply c06_yielded_is_live in H as (_ & _ & H & Hr).
  apply (lost_never_reported U lost_broadcasts true me h h' q dst (wf_true _) Hn).
  apply (reported_is_live U lost_broadcasts true _ _ _ _ (wf_true _)). split; assumption.
Qed.
Print Assumptions c06_lost_never_yielded.

(* ... and has been closed *)
Theorem c06_lost_is_closed : forall U me h h' q,
  In (Est q) h -> ~ In (Est q) h' -> In q (st_closed (run U me (h ++ Lost q :: h'))).
Proof. intros U me h h' q. exact (lost_is_closed U lost_broadcasts true me h h' q (wf_true _)). Qed.
Print Assumptions c06_lost_is_closed.

(* every link ever reported established is in the table or closed: nothing leaks *)
Theorem c06_established_tracked : forall U me h q,
  In (Est q) h -> Tracked U (run U me h) q.
Proof. intros U. exact (established_tracked U lost_broadcasts true). Qed.
Print Assumptions c06_established_tracked.

(* losing a link never removes another link, in particular ... *)
Theorem c06_lost_keeps_others : forall U me h p q r,
  p <> q -> In q (peer_links r (run U me h)) -> In q (peer_links r (run U me (h ++ [Lost p]))).
Proof. intros U me h p q r. exact (lost_keeps_others U lost_broadcasts true me h p q r (wf_true h)). Qed.
Print Assumptions c06_lost_keeps_others.

(* ... the newer link that replaced it under the same identifier *)
Theorem c06_newer_survives : forall U me h q1 q2,
  q1 <> q2 -> remote_of U q2 <> me ->
  In q2 (peer_links (remote_of U q2) (run U me (h ++ [Est q1; Est q2; Lost q1]))).
Proof. intros U me h q1 q2. exact (newer_survives U lost_broadcasts true me h q1 q2 (wf_true _)). Qed.
Print Assumptions c06_newer_survives.

(* a duplicate establish report is idempotent *)
Theorem c06_duplicate_idempotent : forall U s p,
  do_est U (do_est U s p) p =
  if Z.eqb (remote_of U p) (st_peer s) then close_only (close_only s p) p else do_est U s p.
Proof. intros U. exact (dup_est_idempotent U). Qed.
Print Assumptions c06_duplicate_idempotent.

(* HandleLinkLost's slow path (range over the map) never finds anything the
   fast path missed: with immutable link uuids it is dead code *)
Theorem c06_slow_path_dead : forall U me h p,
  do_lost U (run U me h) p =
  if option_eqb Nat.eqb (lget (run U me h) (uuid_of U p)) (Some p) then flush U (run U me h) p else run U me h.
Proof. intros U me h p. apply do_lost_eq. exact (inv_run U lost_broadcasts true me h). Qed.
Print Assumptions c06_slow_path_dead.

(* sensitivity: in the model whose HandleLinkLost does not broadcast, a lost and
   closed link keeps being yielded (this was the behaviour before the fix) *)
Theorem c06_without_broadcast_refuted :
  In 0%nat (yielded stale_univ false true 1 stale_history 1 2) /\
  live stale_univ 1 stale_history = [] /\
  get_peer_links stale_univ (run_gen stale_univ false (init 1) stale_history) 2 = [] /\
  In 0%nat (st_closed (run_gen stale_univ false (init 1) stale_history)).
Proof. exact lost_link_still_yielded_without_broadcast. Qed.
Print Assumptions c06_without_broadcast_refuted.

(* ---- composed with the quic transport's own address table (quic.go) ----
   [emitted U nc qinit h] are the controller events produced by a transport
   history h of HandleSession / link-closed callbacks; nc = the controller is
   only told about the loss of a link that is still registered at its address
   (regenerated from handleLinkLost). *)

(* the quic transport reports every closed link to the controller on this tree
   (regenerated from quic.go handleLinkLost) *)
Theorem c06_transport_reports_every_loss_on_this_tree : needs_current = false.
Proof. reflexivity. Qed.
Print Assumptions c06_transport_reports_every_loss_on_this_tree.

(* hence a link whose close callback has run is never reported again, whatever
   usurped what at which address, for every transport history *)
Theorem c06_transport_closed_not_reported : forall U me h h' p r,
  ~ In (Session p) h' ->
  ~ In p (peer_links r (run U me (emitted U needs_current qinit (h ++ Closed p :: h')))).
Proof.
  intros U me h h' p r. rewrite c06_transport_reports_every_loss_on_this_tree.
  exact (closed_link_not_reported_when_always_told U lost_broadcasts me h h' p r).
Qed.
Print Assumptions c06_transport_closed_not_reported.

(* sensitivity: for the code that only reported still-registered links (before
   /repo c3693f6) a link usurped at its address by a DIFFERENT peer was closed
   by the transport and reported by the controller for ever *)
Theorem c06_usurped_by_other_peer_refuted_when_only_current_told :
  let evs := emitted usurp_univ true qinit usurp_history in
  evs = [Est 0%nat; Est 1%nat]
  /\ In 0%nat (q_closed (fold_left (fun t a => fst (qstep usurp_univ true t a)) usurp_history qinit))
  /\ get_peer_links usurp_univ (run_gen usurp_univ true (init 1) evs) 2 = [0%nat]
  /\ yielded usurp_univ true true 1 evs 1 2 = [0%nat].
Proof. exact usurped_link_still_reported_when_only_current_told. Qed.
Print Assumptions c06_usurped_by_other_peer_refuted_when_only_current_told.

(* the same peer reconnecting from the same address (same uuid) is consistent either way *)
Theorem c06_same_peer_usurp_consistent : forall nc,
  let U : nat -> link := fun _ => mkLink 100 7 1 2 in
  let evs := emitted U nc qinit [Session 0%nat; Session 1%nat; Closed 0%nat] in
  get_peer_links U (run_gen U true (init 1) evs) 2 = [1%nat].
Proof. exact same_peer_usurp_consistent. Qed.
Print Assumptions c06_same_peer_usurp_consistent.

(* non-vacuity: two links sharing a uuid, a third to another peer; replacement,
   a late loss of the replaced link, and a real loss *)
Definition ex_univ : nat -> link := fun p =>
  match p with
  | 0%nat => mkLink 100 1 1 2
  | 1%nat => mkLink 100 1 1 2
  | _ => mkLink 200 2 1 3
  end.
Example c06_nonvacuous :
  let h := [Est 0%nat; Est 2%nat; Est 1%nat; Lost 0%nat; Lost 2%nat] in
  live ex_univ 1 h = [1%nat]
  /\ peer_links 2 (run ex_univ 1 h) = [1%nat]
  /\ get_peer_links ex_univ (run ex_univ 1 h) 3 = []
  /\ yielded ex_univ lost_broadcasts true 1 h 0 2 = [1%nat]
  /\ st_closed (run ex_univ 1 h) = [2%nat; 0%nat].
Proof. vm_compute. repeat split. Qed.
