(* C28: floodsub delivers each message once to every reachable subscriber. *)
From Bifrost Require Import Lib.Base Pubsub.Net Pubsub.Proofs28.

(* whatever the initial state, the topology and subscription changes and the
   schedule: the subscriptions of a node are handed a given message at most once *)
Theorem c28_once : forall s l n m, (count_obs (Handed n m) (snd (nrun s l)) <= 1)%nat.
Proof. exact handed_at_most_once. Qed.
Print Assumptions c28_once.

(* a node never writes a message to its original publisher nor to the peer it
   accepted the message from (for every schedule and any topology changes) *)
Theorem c28_no_echo : forall s l u v m,
  pubq s = [] ->
  In (Sent u v m) (snd (nrun s l)) ->
  v <> m_origin m /\
  (exists w, In (Accepted u w m) (snd (nrun s l))) /\
  (forall w, In (Accepted u w m) (snd (nrun s l)) -> v <> w).
Proof. exact no_echo. Qed.
Print Assumptions c28_no_echo.

(* arbitrary graph (any link relation on any set of nodes), subscriptions
   announced, any schedule of publishes, packet reads and publish executions:
   when no packet is in flight and no publish is pending, every subscriber
   connected to the publisher through subscribers has been handed the message
   exactly once *)
Theorem c28_all : forall (link : nat -> nat -> bool) s0,
  announced link s0 ->
  forall l m v,
    fresh s0 -> forallb traffic l = true ->
    quiescent (fst (nrun s0 l)) ->
    In (Publish m) l ->
    reach link s0 (m_ch m) (m_origin m) v ->
    chan_b v (m_ch m) (chans s0) = true ->
    count_obs (Handed v m) (snd (nrun s0 l)) = 1%nat.
Proof. exact all_reached. Qed.
Print Assumptions c28_all.

(* non-vacuity: a ring of three subscribers, node 0 publishes; the canonical
   schedule reaches quiescence and everybody was handed the message once *)
Example c28_nonvacuous :
  let link := fun u v => negb (Nat.eqb u v) && Nat.ltb u 3 && Nat.ltb v 3 in
  let subs := [(0, 5); (1, 5); (2, 5)]%nat in
  let pcs := [(0, 1, 5); (0, 2, 5); (1, 0, 5); (1, 2, 5); (2, 0, 5); (2, 1, 5)]%nat in
  let s0 := Net [] [] [] pcs subs in
  let m := Msg 0 5 0 in
  let '(s1, o1) := nstep s0 (Publish m) in
  let '(s2, o2) := drain 100 s1 in
  flight s2 = [] /\ pubq s2 = [] /\
  map (fun k => count_obs (Handed k m) (o1 ++ o2)) [0; 1; 2]%nat = [1; 1; 1]%nat /\
  count_obs (Sent 1 0 m) (o1 ++ o2) = 0%nat.
Proof. vm_compute. repeat split; reflexivity. Qed.
