(* C28: floodsub delivers each message once to every reachable subscriber. *)
From Bifrost Require Import Lib.Base Pubsub.Net Pubsub.Proofs28.

(* whatever the initial state, the topology and subscription changes and the
   schedule: the subscriptions of a node are handed a given message at most once *)
Theorem c28_once : forall s l n m, (count_obs (Handed n m) (snd (nrun s l)) <= 1)%nat.
Proof. exact handed_at_most_once. Qed.
Print Assumptions c28_once.

(* a node never writes a message, on any of its links, to its original
   publisher nor to the peer it accepted the message from (for every schedule
   and any topology changes, parallel links included) *)
Theorem c28_no_echo : forall s l u v lid m,
  pubq s = [] ->
  In (Sent u v lid m) (snd (nrun s l)) ->
  v <> m_origin m /\
  (exists w, In (Accepted u w m) (snd (nrun s l))) /\
  (forall w, In (Accepted u w m) (snd (nrun s l)) -> v <> w).
Proof. exact no_echo. Qed.
Print Assumptions c28_no_echo.

(* Arbitrary multigraph: sessions are (peer, link id) tuples as in the code, any
   number of parallel links, any history before s0 (links established and torn
   down, stale peerChannels entries of dead tuples, earlier messages flooded).
   s0 is stabilised: nothing in flight, sessions up on both sides or neither,
   subscriptions announced over the sessions that are up.  For a message m
   published after that, under any schedule of publishes, packet reads and
   publish executions: at quiescence every subscriber connected to the publisher
   by a path of subscribers over links that are up was handed m exactly once *)
Theorem c28_all : forall s0 m,
  announced s0 ->
  forall l v,
    stable s0 -> unseen m s0 -> forallb traffic l = true ->
    stable (fst (nrun s0 l)) ->
    In (Publish m) l ->
    reach s0 (m_ch m) (m_origin m) v ->
    chan_b v (m_ch m) (chans s0) = true ->
    count_obs (Handed v m) (snd (nrun s0 l)) = 1%nat.
Proof. exact all_reached. Qed.
Print Assumptions c28_all.

(* non-vacuity: nodes 0 and 1 joined by two parallel links, node 2 behind 1;
   link 1 goes down on both sides (its peerChannels entries stay); a message
   published afterwards still reaches everybody exactly once, over link 2 *)
Example c28_nonvacuous :
  let pcs := [PC 0 1 1 5; PC 1 0 1 5; PC 0 1 2 5; PC 1 0 2 5; PC 1 2 3 5; PC 2 1 3 5] in
  let ups := [LK 0 1 1; LK 1 0 1; LK 0 1 2; LK 1 0 2; LK 1 2 3; LK 2 1 3] in
  let s := fst (nrun (Net [] [] [] pcs [(0, 5); (1, 5); (2, 5)]%nat ups []) [PeerGone 0 1 1; PeerGone 1 0 1]) in
  let m := Msg 0 5 0 in
  let '(s1, o1) := nstep s (Publish m) in
  let '(s2, o2) := drain 100 s1 in
  flight s2 = [] /\ pubq s2 = [] /\
  map (fun k => count_obs (Handed k m) (o1 ++ o2)) [0; 1; 2]%nat = [1; 1; 1]%nat /\
  count_obs (Sent 0 1 1 m) (o1 ++ o2) = 0%nat /\ count_obs (Sent 0 1 2 m) (o1 ++ o2) = 1%nat /\
  count_obs (Sent 1 0 2 m) (o1 ++ o2) = 0%nat.
Proof. vm_compute. repeat split; reflexivity. Qed.

(* the guard of execPublish (peer.ctx != nil, /repo 0d866bc): a tuple that was
   re-added by AddPeerStream and not started yet is skipped even though its
   stale peerChannels entry is still there; once started it is written to *)
Example c28_pending_stream_skipped :
  let s0 := Net [] [] [] [PC 0 1 1 5] [(0, 5); (1, 5)]%nat [LK 0 1 1; LK 1 0 1] [] in
  let s1 := fst (nrun s0 [PeerGone 0 1 1; PeerGone 1 0 1; LinkAdd 0 1 1]) in
  snd (nrun s1 [Publish (Msg 0 5 0); Exec 0]) = [Accepted 0 0 (Msg 0 5 0); Handed 0 (Msg 0 5 0)] /\
  snd (nrun s1 [LinkStart 0 1 1; Publish (Msg 0 5 0); Exec 0])
    = [Accepted 0 0 (Msg 0 5 0); Handed 0 (Msg 0 5 0); Sent 0 1 1 (Msg 0 5 0)].
Proof. vm_compute. split; reflexivity. Qed.
