(* C33: the hold-open controller holds a strong reference to a peer's link
   request exactly while links to the peer exist.  All statements are for ALL
   lists of callbacks / goroutine steps that the directive instance and the Go
   scheduler can produce (run init acts = Some s), of any length, on any
   number of links. *)
From Bifrost Require Import Lib.Base HoldOpen.Model HoldOpen.Proofs.

(* at quiescence (every spawned goroutine has run) the number of strong
   references the instance still counts is exactly 1 if a link is attached and
   the instance is not disposed, else 0; and the handler's rigidRef says the same *)
Theorem c33_quiescent_exact : forall acts s,
  forallb link_action acts = true -> run init acts = Some s ->
  quiescent s = true ->
  live s = (if has_links s && negb (disposed s) then 1 else 0)%nat
  /\ rigid s = (has_links s && negb (disposed s)).
Proof. exact quiescent_exact. Qed.
Print Assumptions c33_quiescent_exact.

(* the reference is held while links exist, as soon as the acquisition
   goroutines have run, even if releases of older references are still in flight *)
Theorem c33_held_while_links : forall acts s,
  forallb link_action acts = true -> run init acts = Some s ->
  pending s = 0%nat -> links s <> [] -> disposed s = false ->
  rigid s = true /\ (1 <= live s)%nat.
Proof. exact held_while_links. Qed.
Print Assumptions c33_held_while_links.

(* in every reachable state the handler holds at most one reference, every
   other outstanding one already has its asynchronous Release spawned, and with
   no link (or after disposal) the handler holds none: the request can expire
   as soon as the spawned releases have run *)
Theorem c33_released_when_gone : forall acts s,
  forallb link_action acts = true -> run init acts = Some s ->
  live s = (b2n (rigid s) + releasing s)%nat
  /\ (links s = [] \/ disposed s = true -> rigid s = false /\ live s = releasing s).
Proof. exact released_when_gone. Qed.
Print Assumptions c33_released_when_gone.

(* quiescence is always reachable: letting the spawned goroutines run ends in a
   quiescent state with the same links (so the hypotheses above are not vacuous) *)
Theorem c33_drain_quiesces : forall s,
  exists s', run s (drain_actions s) = Some s' /\ quiescent s' = true /\
             links s' = links s /\ disposed s' = disposed s.
Proof. exact drain_quiesces. Qed.
Print Assumptions c33_drain_quiesces.

(* non-vacuity: the two schedules of the fixed race end with the right count *)
Example c33_nonvacuous_add_remove_then_acquire :
  exists s, run init [Added 1; Removed 1; RunAcquire]%nat = Some s /\ quiescent s = true /\ live s = 0%nat.
Proof. eexists. split; [vm_compute; reflexivity|]. split; reflexivity. Qed.

Example c33_nonvacuous_two_adds :
  exists s, run init [Added 1; Added 2; RunAcquire; RunAcquire]%nat = Some s /\ quiescent s = true /\
            live s = 1%nat /\ acquired s = 1%nat.
Proof. eexists. split; [vm_compute; reflexivity|]. repeat split; reflexivity. Qed.

(* outside the property's quantifier (EstablishLinkWithPeer values are
   MountedLinks): a non-link value is ignored when added but counted when
   removed, which drops the reference while a link is attached *)
Example c33_nonlink_value_breaks :
  exists acts s, run init acts = Some s /\ quiescent s = true /\
                 links s <> [] /\ disposed s = false /\ live s = 0%nat.
Proof. exact nonlink_value_breaks. Qed.

(* the harness' `Yield` (fold of code_step over drain_actions, HoldOpen/Run.v) is
   a path of the transition system above and ends quiescent *)
Theorem c33_yield_is_a_run : forall s,
  exists s', run s (drain_actions s) = Some s' /\
             fold_left code_step (drain_actions s) s = s' /\ quiescent s' = true.
Proof. exact drain_fold. Qed.
Print Assumptions c33_yield_is_a_run.

(* fault injection: if di.AddReference(nil, false) returns nil (against its
   contract) the safety half still holds for every action list: never more than
   one reference held, none without links or after disposal; only "held while
   links exist" is lost until the next link is added (Example below) *)
Theorem c33_safe_with_nil_references : forall acts s,
  forallb safe_action acts = true -> run init acts = Some s ->
  live s = (b2n (rigid s) + releasing s)%nat
  /\ (rigid s = true -> links s <> [] /\ disposed s = false)
  /\ (links s = [] \/ disposed s = true -> rigid s = false /\ live s = releasing s)
  /\ (quiescent s = true -> (live s <= 1)%nat).
Proof. exact safe_with_nil_references. Qed.
Print Assumptions c33_safe_with_nil_references.

Example c33_nil_reference_not_retried :
  exists s, run init [SetNil 1; Added 1; RunAcquire]%nat = Some s /\ quiescent s = true /\
            links s <> [] /\ disposed s = false /\ live s = 0%nat.
Proof. exact nil_reference_not_retried. Qed.
