(* C40: network-facing decoders withstand arbitrary input.
   The generated UnmarshalVT code is modelled by the generic wire decoder
   Lib/Proto.v instantiated at the descriptors regenerated from the .proto
   files; the length-prefixed readers in front of it by Decode/Model.v.  All
   statements are for every byte string shorter than 2^63 (every Go slice). *)
From Bifrost Require Import Lib.Base Lib.Varint Lib.Proto Lib.ProtoProofs Lib.ProtoFuel.
From Bifrost Require Import Decode.Model Decode.Proofs gen.Descs gen.Decode.
From Bifrost Require Id.Model Id.Proofs.

(* the decoder of ANY message descriptor returns a value or an error: no index,
   slice or conversion on its path can panic (never reads past the input) *)
Theorem c40_decode_total : forall d buf, len buf < two63 -> decode d buf <> Panic.
Proof. exact decode_no_panic. Qed.
Print Assumptions c40_decode_total.

(* it terminates: fuel = input length + 1 is never exhausted *)
Theorem c40_decode_terminates : forall d buf, len buf < two63 -> decode d buf <> Err E_FUEL.
Proof. exact decode_fuel_ok. Qed.
Print Assumptions c40_decode_terminates.

(* ... and the result is the same for every larger fuel: it is the result of
   the unbounded Go loop, not an artefact of the bound *)
Theorem c40_decode_fuel_independent : forall d buf fuel, len buf < two63 -> (length buf < fuel)%nat ->
  dec_fields fuel d buf 0 = decode d buf.
Proof. exact decode_fuel_independent. Qed.
Print Assumptions c40_decode_fuel_independent.

(* allocation: the byte strings it builds (bytes/string fields, unknown-field
   records) sum to at most the input length, and so does the number of values *)
Theorem c40_decode_alloc : forall d buf t, len buf < two63 -> decode d buf = Ok t ->
  0 <= tsize t <= len buf /\ tcount t <= len buf.
Proof. exact decode_alloc. Qed.
Print Assumptions c40_decode_alloc.

(* the packed-repeated pre-allocation (element count) is bounded by the slice *)
Theorem c40_packed_prealloc : forall sl, 0 <= packed_count sl <= len sl.
Proof. exact packed_count_le. Qed.
Print Assumptions c40_packed_prealloc.

(* all three hold at every descriptor regenerated from /repo's .proto files *)
Theorem c40_all_descriptors : Forall (fun nd => decoder_safe (snd nd)) all_descs.
Proof. exact all_descs_safe. Qed.
Print Assumptions c40_all_descriptors.

(* Session.RecvMsg: every buffer it requests is <= max(prefix, limit), whatever
   the remote side sends; it never panics; what is decoded is <= the limit *)
Theorem c40_session_alloc : forall pfx max d s, all_le (Z.max pfx max) (fst (recv_msg pfx max d s)).
Proof. exact recv_msg_alloc. Qed.
Print Assumptions c40_session_alloc.

Theorem c40_session_total : forall pfx max d s, len s < two63 -> snd (recv_msg pfx max d s) <> Panic.
Proof. exact recv_msg_no_panic. Qed.
Print Assumptions c40_session_total.

Theorem c40_session_message_bound : forall pfx max d s t rest, len s < two63 -> 0 <= pfx ->
  snd (recv_msg pfx max d s) = Ok (t, rest) ->
  total (fst (recv_msg pfx max d s)) + tsize t <= pfx + 2 * Z.max 0 max.
Proof. exact recv_msg_total_alloc. Qed.
Print Assumptions c40_session_message_bound.

(* the two configured sessions, with the limits found in the source now *)
Theorem c40_floodsub_alloc : forall s,
  all_le dec_floodsub_max_msg (fst (recv_msg dec_session_prefix_len dec_floodsub_max_msg d_floodsub_Packet s)).
Proof. exact floodsub_recv_alloc. Qed.
Print Assumptions c40_floodsub_alloc.

Theorem c40_solicit_alloc : forall s,
  all_le dec_solicit_max_msg
         (fst (recv_msg dec_session_prefix_len dec_solicit_max_msg d_link_solicit_SolicitationExchange s)).
Proof. exact solicit_recv_alloc. Qed.
Print Assumptions c40_solicit_alloc.

(* PacketConn rx pump *)
Theorem c40_pktconn_alloc : forall pfx max s, all_le max (fst (rx_packet pfx max s)).
Proof. exact rx_packet_alloc. Qed.
Print Assumptions c40_pktconn_alloc.

Theorem c40_pktconn_total : forall pfx max s, snd (rx_packet pfx max s) <> Panic.
Proof. exact rx_packet_no_panic. Qed.
Print Assumptions c40_pktconn_total.

(* stream establish header *)
Theorem c40_establish_alloc : forall s,
  all_le dec_stream_establish_max
         (fst (read_establish dec_hdr_prefetch dec_stream_establish_max d_transport_controller_StreamEstablish s)).
Proof. exact establish_alloc. Qed.
Print Assumptions c40_establish_alloc.

Theorem c40_establish_total : forall pre max d s, len s < two63 -> snd (read_establish pre max d s) <> Panic.
Proof. exact read_establish_no_panic. Qed.
Print Assumptions c40_establish_total.

(* peer IDs and public keys: the multihash / base58 / key parsers are modelled
   and tied to peer/id.go and crypto/crypto.go by C10 (Id/); restated here
   because C40 names them.  They never panic either. *)
Theorem c40_peer_id_total : forall b, Id.Model.id_from_bytes b <> Panic.
Proof. exact Id.Proofs.id_from_bytes_total. Qed.
Print Assumptions c40_peer_id_total.

Theorem c40_peer_id_b58_total : forall s, Id.Model.idb58_decode s <> Panic.
Proof. exact Id.Proofs.idb58_decode_total. Qed.
Print Assumptions c40_peer_id_b58_total.

Theorem c40_pubkey_total : forall d, all_bytes d = true -> Id.Model.unmarshal_pub d <> Panic.
Proof. exact Id.Proofs.unmarshal_pub_total. Qed.
Print Assumptions c40_pubkey_total.

(* non-vacuity: a SignedMsg with a nested Signature, an unknown field and a
   group is accepted; a prefix announcing 2^31 bytes is refused before any
   buffer beyond the 4-byte prefix is requested *)
Example c40_nonvacuous_decode :
  decode d_peer_SignedMsg [10;2;97;98; 18;4; 16;3; 26;0; 26;3;1;2;3; 40;5; 43;8;1;44] =
  Ok [FBytes 1 [97;98]; FMsg 2 [FVar 2 3; FBytes 3 []]; FBytes 3 [1;2;3]; FUnknown [40;5]; FUnknown [43;8;1;44]].
Proof. vm_compute. reflexivity. Qed.

Example c40_nonvacuous_huge_prefix :
  recv_msg dec_session_prefix_len dec_floodsub_max_msg d_floodsub_Packet [0;0;0;128; 1;2;3] = ([4], Err E_OTHER).
Proof. vm_compute. reflexivity. Qed.

Example c40_nonvacuous_reject :
  decode d_peer_SignedMsg [10; 255;255;255;255;255;255;255;255;127] = Err E_INVLEN /\
  decode d_peer_SignedMsg [10; 5; 1] = Err E_EOF.
Proof. split; vm_compute; reflexivity. Qed.
