(* C34: stream handlers only take streams they are configured for. *)
From Bifrost Require Import Lib.Base Lib.StrOps gen.Handlers Handlers.Model Handlers.Proofs.

(* Each decision function takes the controller's WHOLE configuration record; the right-hand
   sides name the only fields the decision may depend on (e.g. for the relay: the listen protocol
   and source peer, never the target protocol / target peer it dials out with). *)

(* echo: the configured protocol id (DefaultProtocolID when left empty) and, when configured, the local peer *)
Theorem c34_echo : forall cfg_proto cfg_local s,
  echo_offers (EchoCfg cfg_proto cfg_local) s = true <->
  s_proto s = echo_effective_proto cfg_proto /\ (cfg_local <> [] -> s_local s = cfg_local).
Proof. exact echo_spec. Qed.
Print Assumptions c34_echo.

(* forwarding: protocol and local peer, each only where configured; the dial target is irrelevant *)
Theorem c34_forwarding : forall cfg_proto cfg_local target_multiaddr s,
  forwarding_offers (FwdCfg cfg_proto cfg_local target_multiaddr) s = true <->
  (cfg_proto <> [] -> s_proto s = cfg_proto) /\ (cfg_local <> [] -> s_local s = cfg_local).
Proof. exact forwarding_spec. Qed.
Print Assumptions c34_forwarding.

(* relay: the configured LISTEN protocol and source peer, unconditionally; whatever the target
   peer and target protocol are *)
Theorem c34_relay : forall cfg_proto cfg_src target_peer target_proto s,
  relay_offers (RelayCfg cfg_proto cfg_src target_peer target_proto) s = true <->
  s_proto s = cfg_proto /\ s_local s = cfg_src.
Proof. exact relay_spec. Qed.
Print Assumptions c34_relay.

(* API accept: protocol, local peer where configured, remote peer among the configured ones *)
Theorem c34_accept : forall cfg_proto cfg_local cfg_remotes s,
  accept_offers (AcceptCfg cfg_proto cfg_local cfg_remotes) s = true <->
  s_proto s = cfg_proto /\ (cfg_local <> [] -> s_local s = cfg_local) /\
  (cfg_remotes <> [] -> In (s_remote s) cfg_remotes).
Proof. exact accept_spec. Qed.
Print Assumptions c34_accept.

(* from the RAW configuration: if it names remote peers and the controller can be constructed,
   an offered stream's remote peer is one of the named entries (blank / invalid entries make
   construction fail, they are never dropped into "no remote filter") *)
Theorem c34_accept_named_remotes : forall decode_peer cfg_proto cfg_local remote_strs s,
  remote_strs <> [] -> accept_from_config decode_peer cfg_proto cfg_local remote_strs s = 1%nat ->
  exists x, In x remote_strs /\ decode_peer x = Some (s_remote s).
Proof. exact accept_named_remotes. Qed.
Print Assumptions c34_accept_named_remotes.

(* RPC server: protocol among the configured ones, local peer (in its string form) among the served ones *)
Theorem c34_srpc_server : forall cfg_protos cfg_peer_strs disable_establish_link s local_str,
  srpc_offers (SrpcCfg cfg_protos cfg_peer_strs disable_establish_link) s local_str = true <->
  In (s_proto s) cfg_protos /\ (cfg_peer_strs <> [] -> In local_str cfg_peer_strs).
Proof. exact srpc_spec. Qed.
Print Assumptions c34_srpc_server.

(* pubsub: its protocol id only (the controller's own peer id is not a stream filter) *)
Theorem c34_pubsub : forall cfg_peer cfg_proto s,
  pubsub_offers (PubsubCfg cfg_peer cfg_proto) s = true <-> s_proto s = cfg_proto.
Proof. exact pubsub_spec. Qed.
Print Assumptions c34_pubsub.

(* solicitation: exactly the control protocol, or exactly prefix ++ hash (the handler gets that hash);
   everything else is declined; the slice after the prefix never panics *)
Theorem c34_solicit : forall c s,
  (solicit_offers c s = Ok SControl <-> s_proto s = solicit_control_protocol_id) /\
  (forall h, solicit_offers c s = Ok (SSolicited h) <-> s_proto s = solicit_stream_prefix_h ++ h) /\
  (solicit_offers c s = Ok SNone <->
     s_proto s <> solicit_control_protocol_id /\ forall h, s_proto s <> solicit_stream_prefix_h ++ h).
Proof. exact solicit_spec. Qed.
Print Assumptions c34_solicit.

Theorem c34_solicit_total : forall c s, solicit_offers c s <> Panic /\ forall k, solicit_offers c s <> Err k.
Proof. exact solicit_total. Qed.
Print Assumptions c34_solicit_total.

(* non-vacuity: a configured handler that accepts one stream and declines three near misses;
   a relay whose target protocol differs from its listen protocol takes the listen protocol only *)
Example c34_nonvacuous :
  accept_offers (AcceptCfg [1] [2] [[3];[4]]) (St [1] [2] [4]) = true /\
  accept_offers (AcceptCfg [1] [2] [[3];[4]]) (St [1] [2] [5]) = false /\
  accept_offers (AcceptCfg [1] [2] [[3];[4]]) (St [1] [9] [4]) = false /\
  accept_offers (AcceptCfg [1] [2] [[3];[4]]) (St [7] [2] [4]) = false /\
  relay_offers (RelayCfg [1] [2] [3] [9]) (St [1] [2] []) = true /\
  relay_offers (RelayCfg [1] [2] [3] [9]) (St [9] [2] []) = false /\
  solicit_offers (SolicitCfg 0) (St (solicit_stream_prefix_h ++ [97;98]) [] []) = Ok (SSolicited [97;98]).
Proof. repeat split; reflexivity. Qed.
