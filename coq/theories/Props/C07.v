(* C07: stream headers are framed exactly and dispatched to the named protocol. *)
From Bifrost Require Import Lib.Base Lib.Varint Lib.Chunk gen.Frame Frame.Model Frame.Proofs07.

(* what HandleIncomingStream does is a function of the bytes alone: no way of
   splitting the stream into reads changes the outcome *)
Theorem c07_chunking_independent : forall local remote ch1 ch2 D,
  handle_incoming local remote (ch1, D) = handle_incoming local remote (ch2, D).
Proof. intros. rewrite !handle_incoming_pure. reflexivity. Qed.
Print Assumptions c07_chunking_independent.

(* every valid protocol ID within the size limit, every payload, every
   chunking: the handler lookup carries exactly (pid, local, remote) and the
   handler finds exactly the payload unread *)
Theorem c07_roundtrip : forall pid payload ch local remote,
  pid_ok pid -> Z.of_nat (length (marshal_body pid)) <= stream_establish_max ->
  handle_incoming local remote (ch, marshal_header pid ++ payload) = Dispatch pid local remote payload.
Proof. exact handle_roundtrip. Qed.
Print Assumptions c07_roundtrip.

(* what the opener writes is a well-formed header *)
Theorem c07_marshal_wellformed : forall pid,
  pid <> [] -> Z.of_nat (length (marshal_body pid)) <= stream_establish_max ->
  header_of (marshal_header pid) pid.
Proof. exact marshal_header_of. Qed.
Print Assumptions c07_marshal_wellformed.

(* whatever is dispatched (also for headers no opener would write): the stream
   started with a well-formed header of a valid protocol ID, exactly the bytes
   after that header are left unread, and the lookup carries the link's peers *)
Theorem c07_accept_exact : forall local remote ch D pid l r rest,
  handle_incoming local remote (ch, D) = Dispatch pid l r rest ->
  l = local /\ r = remote /\ pid_ok pid /\
  exists hdr, D = hdr ++ rest /\ header_of hdr pid /\ (4 <= length hdr)%nat.
Proof. exact handle_incoming_sound. Qed.
Print Assumptions c07_accept_exact.

(* empty, oversized, truncated, undecodable headers and invalid protocol IDs
   close the stream without a dispatch *)
Theorem c07_reject : forall local remote ch D,
  malformed D -> exists k, handle_incoming local remote (ch, D) = Closed k.
Proof. exact handle_incoming_reject. Qed.
Print Assumptions c07_reject.

(* ... and nothing else does *)
Theorem c07_closed_only_if_malformed : forall local remote ch D k,
  handle_incoming local remote (ch, D) = Closed k -> malformed D.
Proof. intros local remote ch D k H. rewrite handle_incoming_pure in H. eapply handle_pure_closed_malformed; eassumption. Qed.
Print Assumptions c07_closed_only_if_malformed.

(* the 4-byte prefetch: a header that carries a protocol ID has at least 4
   bytes, so the prefetch never takes payload; shorter headers (for which the
   reader does consume bytes beyond the header) carry no protocol ID *)
Theorem c07_header_with_pid_ge_prefetch : forall pid,
  pid <> [] -> (Z.to_nat hdr_prefetch <= length (marshal_header pid))%nat.
Proof. exact nonempty_pid_header_ge_4. Qed.
Print Assumptions c07_header_with_pid_ge_prefetch.

Theorem c07_short_header_has_no_pid : forall hdr pid,
  header_of hdr pid -> (length hdr < Z.to_nat hdr_prefetch)%nat -> pid = [].
Proof. exact short_header_empty_pid. Qed.
Print Assumptions c07_short_header_has_no_pid.

Theorem c07_total : forall local remote s, handle_incoming local remote s <> HPanic.
Proof. exact handle_incoming_total. Qed.
Print Assumptions c07_total.

(* ---- readers that deliver the last bytes together with the end error ----
   (n > 0 and err = io.EOF in one Read call: allowed by the io.Reader contract,
   done by quic-go streams and iotest.DataErrReader; de = true in the model).
   readAtLeast counts the bytes before it looks at the error (repaired in /repo
   commit "readAtLeast ... n += nr first"), so the kind of reader is irrelevant:
   every theorem above about handle_incoming holds for handle_incoming_de de. *)
Theorem c07_reader_kind_irrelevant : forall de local remote s,
  handle_incoming_de de local remote s = handle_incoming local remote s.
Proof. exact handle_incoming_de_indep. Qed.
Print Assumptions c07_reader_kind_irrelevant.

Theorem c07_chunking_independent_any_reader : forall de1 de2 local remote ch1 ch2 D,
  handle_incoming_de de1 local remote (ch1, D) = handle_incoming_de de2 local remote (ch2, D).
Proof. intros. rewrite !handle_incoming_de_pure. reflexivity. Qed.
Print Assumptions c07_chunking_independent_any_reader.

(* the round trip at full strength: every valid protocol ID within the limit,
   every payload INCLUDING the empty one, every chunking, both kinds of reader *)
Theorem c07_roundtrip_any_reader : forall de pid payload ch local remote,
  pid_ok pid -> Z.of_nat (length (marshal_body pid)) <= stream_establish_max ->
  handle_incoming_de de local remote (ch, marshal_header pid ++ payload) = Dispatch pid local remote payload.
Proof. exact handle_de_roundtrip. Qed.
Print Assumptions c07_roundtrip_any_reader.

Example c07_header_only_stream_example :
  handle_incoming_de true [1] [2] ([1; 1]%nat, marshal_header [97] ++ []) = Dispatch [97] [1] [2] [] /\
  handle_incoming_de true [1] [2] ([]%nat, marshal_header [97; 98]) = Dispatch [97; 98] [1] [2] [] /\
  handle_incoming_de true [1] [2] ([]%nat, firstn 3 (marshal_header [97; 98])) = Closed E_EOF.
Proof. repeat split; vm_compute; reflexivity. Qed.

(* ---- several streams on one bus ----
   The bus merges a lookup into a live equivalent one; equivalence of
   HandleMountedStream directives is equality of (pid, local, remote).  For any
   list of arriving streams and lookup disposals, any live lookups at the
   start, any chunkings: every accepted stream is served by the lookup made for
   exactly its own protocol ID and its own link's peers, and what happens to a
   stream does not depend on the other streams. *)
Theorem c07_equivalence_is_equality : forall a b, triple_eqb a b = true <-> a = b.
Proof. exact triple_eqb_spec. Qed.
Print Assumptions c07_equivalence_is_equality.

Theorem c07_dispatch_many : forall evs live, bus_run live evs = bus_spec evs.
Proof. exact bus_run_spec. Qed.
Print Assumptions c07_dispatch_many.

Theorem c07_dispatch_many_own_triple : forall evs live,
  Forall (fun o => match o with Served own sv _ => sv = own | _ => True end) (bus_run live evs).
Proof. exact bus_run_served_own. Qed.
Print Assumptions c07_dispatch_many_own_triple.

Example c07_dispatch_many_example :
  bus_run [([97], [1], [2])]
    [Arrive false [1] [3] ([]%nat, marshal_header [97] ++ [7]); Arrive true [1] [2] ([1]%nat, marshal_header [97]);
     Expire ([97], [1], [3]); Arrive false [1] [3] ([]%nat, [0; 0; 0; 0])] =
  [Served ([97], [1], [3]) ([97], [1], [3]) [7]; Served ([97], [1], [2]) ([97], [1], [2]) []; Rejected E_LEN].
Proof. vm_compute. reflexivity. Qed.

(* non-vacuity *)
Example c07_pid_ok_example : pid_ok [47; 195; 169; 240; 159; 152; 128] /\ ~ pid_ok [] /\ ~ pid_ok [237; 160; 128].
Proof. repeat split; try discriminate; intros [A B]; [congruence|discriminate]. Qed.

Example c07_roundtrip_example :
  handle_incoming [1] [2] ([1; 1; 1; 2]%nat, marshal_header [47; 195; 169] ++ [9; 8; 7]) = Dispatch [47; 195; 169] [1] [2] [9; 8; 7]
  /\ Z.of_nat (length (marshal_body [47; 195; 169])) <= stream_establish_max.
Proof. split; [vm_compute; reflexivity|vm_compute; discriminate]. Qed.

Example c07_malformed_examples :
  malformed [0; 10; 1; 97] /\ malformed [225; 141; 6; 10] /\ malformed [3; 10; 1] /\ malformed [3; 8; 1; 97; 5]
  /\ malformed [4; 10; 2; 192; 128] /\ malformed [2; 16; 1; 99; 98].
Proof.
  repeat split.
  - eapply mf_empty; reflexivity.
  - eapply (mf_oversized _ 100065 3); [reflexivity|reflexivity].
  - apply mf_short_prefix. cbn. lia.
  - eapply (mf_undecodable _ 3 1); reflexivity.
  - eapply (mf_bad_pid _ 4 1 [192; 128]); [reflexivity|reflexivity|]. intros [_ C]. discriminate.
  - eapply (mf_bad_pid _ 2 1 []); [reflexivity|reflexivity|]. intros [C _]. congruence.
Qed.
