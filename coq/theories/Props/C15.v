(* C15: content hashes verify exactly and encode losslessly. *)
From Bifrost Require Import Lib.Base Lib.Sym Lib.Base58 Id.Pb Id.Model Id.Proofs.
From Bifrost Require Import gen.Ident gen.IdentHash.

(* verifying data against a hash succeeds exactly when the data's digest under
   the hash's algorithm (which must be one Sum supports) equals the stored digest *)
Theorem c15_verify_exact : forall ty stored data h,
  verify_data ty stored data = Ok h <-> hash_sum ty data = Ok h /\ stored = h.
Proof. exact verify_data_exact. Qed.
Print Assumptions c15_verify_exact.

Theorem c15_verify_ok_iff : forall ty stored data,
  is_ok (verify_data ty stored data) = true <-> hash_sum ty data = Ok stored.
Proof. exact verify_data_ok_iff. Qed.
Print Assumptions c15_verify_ok_iff.

(* with collision-free digests (free function symbols) a hash verifies only the data it was made from *)
Theorem c15_verify_binds_data : forall ty data data' h h',
  hash_sum ty data' = Ok h -> verify_data ty h data = Ok h' -> data = data'.
Proof. exact verify_binds_data. Qed.
Print Assumptions c15_verify_binds_data.

(* Validate accepts exactly: type in the accept list of HashType.Validate and digest of GetHashLen bytes *)
Theorem c15_validate_exact : forall ty dg,
  hash_validate ty dg = Ok tt <-> In ty hash_validate_accept /\ zlen dg = hash_len ty.
Proof. exact hash_validate_iff. Qed.
Print Assumptions c15_validate_exact.

(* Full statement, refuted by the zero value (KNOWN FINDING unknown-empty-validates):
     forall ty dg, hash_validate ty dg = Ok tt ->
       forall data, exists h, hash_sum ty data = Ok h /\ Z.of_nat (length h) = zlen dg
   Proved for every type other than HashType_UNKNOWN: *)
Theorem c15_valid_only_known_partial : forall ty dg, ty <> hash_type_unknown -> hash_validate ty dg = Ok tt ->
  forall data, exists h, hash_sum ty data = Ok h /\ Z.of_nat (length h) = zlen dg.
Proof. exact hash_validate_known. Qed.
Print Assumptions c15_valid_only_known_partial.

Theorem c15_valid_only_known_refuted :
  hash_validate hash_type_unknown [] = Ok tt /\ forall data, hash_sum hash_type_unknown data = Err EHashType.
Proof. exact hash_validate_zero_refuted. Qed.
Print Assumptions c15_valid_only_known_refuted.

(* every hash produced by Sum is valid *)
Theorem c15_sum_valid : forall ty data h dg, hash_sum ty data = Ok h -> length dg = length h ->
  hash_validate ty dg = Ok tt.
Proof. exact hash_sum_validates. Qed.
Print Assumptions c15_sum_valid.

(* hashes survive the binary encoding unchanged: every int32 type value, every digest *)
Theorem c15_binary_roundtrip : forall ty dg, is_int32 ty -> zlen dg < two63 ->
  hash_unmarshal (hash_marshal ty dg) = Ok (ty, dg).
Proof. exact hash_binary_roundtrip. Qed.
Print Assumptions c15_binary_roundtrip.

(* Full statement for base58, refuted by the zero value only (finding zero-hash-b58-empty):
     forall ty dg, ... -> hash_parse_b58 (hash_marshal_string ty dg) = Ok (ty, dg) *)
Theorem c15_b58_roundtrip_partial : forall ty dg, is_int32 ty -> zlen dg < two63 -> all_bytes dg = true ->
  ty <> 0 \/ dg <> [] -> hash_parse_b58 (hash_marshal_string ty dg) = Ok (ty, dg).
Proof. exact hash_b58_roundtrip. Qed.
Print Assumptions c15_b58_roundtrip_partial.

Theorem c15_b58_roundtrip_refuted : hash_parse_b58 (hash_marshal_string 0 []) = Err EB58.
Proof. exact hash_b58_zero_refuted. Qed.
Print Assumptions c15_b58_roundtrip_refuted.

(* CompareHash is equality *)
Theorem c15_compare : forall a b, compare_hash a b = true <-> a = b.
Proof. exact compare_hash_iff. Qed.
Print Assumptions c15_compare.

(* arbitrary encoded inputs never panic *)
Theorem c15_total_binary : forall b, all_bytes b = true -> hash_unmarshal b <> Panic.
Proof. exact hash_unmarshal_total. Qed.
Print Assumptions c15_total_binary.

Theorem c15_total_text : forall s, hash_parse_b58 s <> Panic.
Proof. exact hash_parse_b58_total. Qed.
Print Assumptions c15_total_text.

Theorem c15_total_verify : forall ty stored data dg,
  verify_data ty stored data <> Panic /\ hash_validate ty dg <> Panic /\ hash_sum ty data <> Panic.
Proof. exact verify_validate_total. Qed.
Print Assumptions c15_total_verify.

(* non-vacuity *)
Example c15_nonvacuous :
  (exists h, hash_sum hash_type_sha1 [1;2;3] = Ok h /\ length h = 20%nat /\
             verify_data hash_type_sha1 h [1;2;3] = Ok h /\
             verify_data hash_type_sha1 h [1;2;4] = Err EHashMismatch /\
             verify_data hash_type_sha256 h [1;2;3] = Err EHashMismatch) /\
  hash_validate hash_type_blake3 (repeat 7 32) = Ok tt /\
  hash_validate hash_type_blake3 (repeat 7 20) = Err EHashLen /\
  hash_validate 4 [] = Err EHashType /\
  hash_parse_b58 (hash_marshal_string (-1) [0;0;9]) = Ok (-1, [0;0;9]).
Proof.
  split; [eexists; repeat split|repeat split]; vm_compute; reflexivity.
Qed.
