(* C05: dialing a peer at an address yields a link to that peer or keeps retrying. *)
From Bifrost Require Import Lib.Base Link.Model Link.Maps Dial.Model Dial.Proofs.

(* s : the transport's table resolved address -> authenticated remote peer of
   the link registered there; x : requested peer (non-empty); a : the dial
   string, ra : its resolved form sess.RemoteAddr().String() (= a for canonical
   addresses, different for host names / alias forms); who answers is an input.
   DialPeer reports success with a link only if its remote peer is x, and then
   x is who answered and the link is registered at ra. *)
Theorem c05_dial_safe : forall s x a ra who p s',
  x <> 0 -> dial_peer s x a ra who = (DLink p, s') -> p = x /\ aget ra s' = Some x /\ who = Peer x.
Proof. exact dial_peer_safe. Qed.
Print Assumptions c05_dial_safe.

Theorem c05_dial_already_connected : forall s x a ra who s',
  dial_peer s x a ra who = (DNoLink, s') -> s' = s /\ aget a s = Some x.
Proof. exact dial_peer_nolink. Qed.
Print Assumptions c05_dial_already_connected.

Theorem c05_impostor_is_error : forall s x a ra i,
  x <> 0 -> i <> x -> fst (dial_peer s x a ra (Peer i)) <> DLink x /\
  (aget a s = None -> fst (dial_peer s x a ra (Peer i)) = DErr).
Proof. exact dial_peer_impostor. Qed.
Print Assumptions c05_impostor_is_error.

(* over any sequence of repeated dial calls of the same string and link losses,
   every returned link is to x *)
Theorem c05_calls_safe : forall e s x a ra rs s', x <> 0 ->
  calls s x a ra e = (rs, s') -> forall p, In (DLink p) rs -> p = x.
Proof. exact calls_safe. Qed.
Print Assumptions c05_calls_safe.

Theorem c05_dialer_never_holds_other : forall e s x a ra r s', x <> 0 ->
  dialer_loop s x a ra e = (r, s') -> forall p, dialer_link r = Some p -> p = x /\ aget ra s' = Some x.
Proof. exact dialer_loop_safe. Qed.
Print Assumptions c05_dialer_never_holds_other.

Theorem c05_loop_ends_with_x : forall e s x a ra d s', x <> 0 ->
  dialer_loop s x a ra e = (Some d, s') ->
  (d = DLink x /\ aget ra s' = Some x) \/ (d = DNoLink /\ aget a s' = Some x).
Proof. exact dialer_loop_done. Qed.
Print Assumptions c05_loop_ends_with_x.

(* liveness: after ANY prefix of impostors / nobody answering / links coming and
   going, once the address is free and x answers, the loop ends with a link to x
   (alias_clean: the links table is keyed by resolved addresses only) *)
Theorem c05_retry_reaches_x : forall s x a ra mid e',
  x <> 0 -> alias_clean s a ra ->
  exists d s', dialer_loop s x a ra (mid ++ Drop :: Attempt (Peer x) :: e') = (Some d, s')
               /\ ((d = DLink x /\ aget ra s' = Some x) \/ (d = DNoLink /\ aget a s' = Some x)).
Proof. exact retry_reaches_x. Qed.
Print Assumptions c05_retry_reaches_x.

(* for a dial string that is not in resolved form, x is reached by the very next
   attempt it answers, whatever was dialed and answered before under that string *)
Theorem c05_alias_retry_reaches_x : forall s x a ra mid e',
  x <> 0 -> a <> ra -> aget a s = None ->
  exists s', dialer_loop s x a ra (mid ++ Attempt (Peer x) :: e') = (Some (DLink x), s')
             /\ aget ra s' = Some x.
Proof. exact alias_retry_reaches_x. Qed.
Print Assumptions c05_alias_retry_reaches_x.

Theorem c05_impostor_blocks_until_lost : forall s x a i n,
  x <> 0 -> i <> x -> aget a s = None ->
  dialer_loop s x a a (Attempt (Peer i) :: repeat (Attempt (Peer x)) n) = (None, aset a i s).
Proof. exact impostor_blocks_until_lost. Qed.
Print Assumptions c05_impostor_blocks_until_lost.

(* re-dial: when the link a dialer obtained is reported lost, the controller
   restarts that dialer (hasNextLink = false on the loss path), whether or not
   the peer still has other links; the restarted loop reaches x again, never
   another peer *)
Theorem c05_lost_dialer_link_restarts : forall kp, restarts kp kp true false = true.
Proof. exact lost_dialer_link_restarts. Qed.
Print Assumptions c05_lost_dialer_link_restarts.

Theorem c05_redial_independent_of_other_links : forall o1 o2 s x a ra e,
  redial_after_loss o1 s x a ra e = redial_after_loss o2 s x a ra e.
Proof. exact redial_independent_of_other_links. Qed.
Print Assumptions c05_redial_independent_of_other_links.

Theorem c05_redial_reaches_x : forall others s x a ra mid e',
  x <> 0 -> alias_clean s a ra ->
  exists d s', redial_after_loss others s x a ra (mid ++ Drop :: Attempt (Peer x) :: e') = (Some d, s')
               /\ ((d = DLink x /\ aget ra s' = Some x) \/ (d = DNoLink /\ aget a s' = Some x)).
Proof. exact redial_reaches_x. Qed.
Print Assumptions c05_redial_reaches_x.

(* overlapping dials: the per-address dialer is shared by every DialPeer(_, a)
   in flight, whoever created it; for every interleaving of calls (any requested
   peers), completions and losses, a call that reports a link got a link to the
   peer IT asked for *)
Theorem c05_shared_dialer_safe : forall a es i p x,
  In (i, DLink p) (c_res (crun a es)) -> requested es i = Some x -> x <> 0 -> p = x.
Proof. exact shared_dialer_safe. Qed.
Print Assumptions c05_shared_dialer_safe.

Example c05_shared_nonvacuous :
  (* call 0 asks for peer 3, call 1 joins its dialer asking for peer 2, peer 3 answers *)
  c_res (crun 1 [Call 3; Call 2; Answer (Peer 3)]) = [(0%nat, DLink 3); (1%nat, DErr)]
  /\ c_res (crun 1 [Call 3; Call 2; Answer (Peer 2)]) = [(0%nat, DErr); (1%nat, DLink 2)].
Proof. split; reflexivity. Qed.

(* non-vacuity: impostor 3 answers twice, nobody, its link is lost, then x = 2 *)
Example c05_nonvacuous :
  dialer_loop [] 2 1 1 [Attempt (Peer 3); Attempt (Peer 3); Attempt Nobody; Drop; Attempt (Peer 2)]
    = (Some (DLink 2), [(1, 2)])
  /\ fst (calls [] 2 1 1 [Attempt (Peer 3); Attempt (Peer 2); Drop; Attempt (Peer 2); Attempt (Peer 2)])
    = [DErr; DErr; DLink 2; DNoLink]
  (* dial string 9 resolving to address 1: the impostor's link does not block the next dial *)
  /\ fst (calls [] 2 9 1 [Attempt (Peer 3); Attempt (Peer 2); Attempt (Peer 2)])
    = [DErr; DLink 2; DLink 2].
Proof. repeat split; reflexivity. Qed.
