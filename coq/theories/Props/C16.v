(* C16: envelopes open exactly when enough distinct shares are reachable. *)
From Bifrost Require Import Lib.Base Lib.Sym Enc.Prim Enc.Model Enc.Proofs Env.Model Env.Proofs Env.Reach.

(* For every configuration that sealing accepts (any number of keys, grants and
   shares) and every list of offered private keys K (recipients' keys,
   unrelated keys, duplicates): the complete result of unsealing.
   [reach kps K cf] are the (distinct) share numbers placed in the grants that
   name a keypair whose private key is in K. *)
Theorem c16_unlock_spec : forall o r ctx payload kps cf env K,
  honest_orc o -> cfg_wf cf -> length (r_nonce r) = 24%nat ->
  build o r ctx payload kps (Some cf) = Ok env ->
  unlock o ctx env K =
  if Z.of_nat (length (reach kps K cf)) <? cf_threshold cf + 1
  then Ok (None, spec_result kps K cf false)
  else Ok (Some payload, spec_result kps K cf true).
Proof. exact unlock_spec. Qed.
Print Assumptions c16_unlock_spec.

(* success iff at least threshold+1 shares are reachable; the payload is
   returned exactly on success *)
Theorem c16_iff : forall o r ctx payload kps cf env K,
  honest_orc o -> cfg_wf cf -> length (r_nonce r) = 24%nat ->
  build o r ctx payload kps (Some cf) = Ok env ->
  ((exists p res, unlock o ctx env K = Ok (Some p, res)) <->
   cf_threshold cf + 1 <= Z.of_nat (length (reach kps K cf))) /\
  (forall p res, unlock o ctx env K = Ok (p, res) ->
     res_success res = (cf_threshold cf + 1 <=? Z.of_nat (length (reach kps K cf))) /\
     (res_success res = true -> p = Some payload) /\ (res_success res = false -> p = None)).
Proof. exact unlock_iff. Qed.
Print Assumptions c16_iff.

(* the reported fields *)
Theorem c16_result_fields : forall o r ctx payload kps cf env K p res,
  honest_orc o -> cfg_wf cf -> length (r_nonce r) = 24%nat ->
  build o r ctx payload kps (Some cf) = Ok env ->
  unlock o ctx env K = Ok (p, res) ->
  res_avail res = Z.of_nat (length (reach kps K cf)) /\
  res_needed res = cf_threshold cf + 1 /\
  res_unlocked res = open_idx kps K 0 (cf_grants cf).
Proof.
  intros o r ctx payload kps cf env K p res HO HW HN HB HU.
  rewrite (unlock_spec o r ctx payload kps cf env K HO HW HN HB) in HU.
  destruct (_ <? _); inversion HU; subst; repeat split; reflexivity.
Qed.
Print Assumptions c16_result_fields.

(* the reachable shares are distinct: the collected share ids never repeat
   (invariant of the unlock loop, for arbitrary envelopes) *)
Theorem c16_no_duplicate_ids : forall o env privs ctx gs gi st,
  st_inv (u_col st) (u_seen st) ->
  match unlock_loop o env privs ctx gi gs st with
  | Ok st' => st_inv (u_col st') (u_seen st')
  | Err _ => True
  | Panic => False
  end.
Proof. intros. apply unlock_loop_inv. assumption. Qed.
Print Assumptions c16_no_duplicate_ids.

(* matchPrivKeys is a function of (key identity, index): an offered key is found
   at every index at which its public key occurs (lists with repetitions) *)
Theorem c16_matched_every_index : forall env K i pub,
  nth_error (e_keypairs env) (Z.to_nat i) = Some pub -> knows K pub = true ->
  exists sk, matched env K i = Some sk /\ edpub sk = pub /\ In sk K.
Proof. exact matched_every_index. Qed.
Print Assumptions c16_matched_every_index.

(* non-vacuity: a two-recipient configuration that is accepted, where key 0
   alone reaches 2 of the 2 needed shares and key 1 alone only 1 *)
Definition ex_orc : orc := {| o_valid := fun _ => true; o_s2raw := fun _ => None; o_s2len := fun _ => 0%nat |}.
Definition ex_rnd : rnd := {| r_secret := lift [1]; r_poly := lift [2]; r_nonce := lift (repeat 3 24) |}.
Definition ex_cf : config :=
  {| cf_id := lift [7]; cf_threshold := 1; cf_total := 0;
     cf_grants := [ {| gc_count := 2; gc_idx := [0] |}; {| gc_count := 1; gc_idx := [1] |} ] |}.
Definition ex_kps : list sbytes := [edpub (lift [10]); edpub (lift [11])].
Example c16_nonvacuous :
  honest_orc ex_orc /\ cfg_wf ex_cf /\ length (r_nonce ex_rnd) = 24%nat /\
  is_ok (build ex_orc ex_rnd (lift [99]) (lift [5;6]) ex_kps (Some ex_cf)) = true /\
  reach ex_kps [lift [10]] ex_cf = [1;2]%nat /\ reach ex_kps [lift [11]] ex_cf = [3]%nat /\
  reach ex_kps [lift [12]] ex_cf = [].
Proof.
  split; [intros s; reflexivity|]. split; [unfold cfg_wf, ex_cf, two32; cbn [cf_threshold cf_total cf_grants]; split; [lia|split; [lia|apply Forall_cons; [cbn; lia|apply Forall_cons; [cbn; lia|apply Forall_nil]]]]|].
  repeat split; vm_compute; reflexivity.
Qed.
