(* C22: every session re-open is announced before stale messages are dropped. *)
From Bifrost Require Import Lib.Base SignalRelay.Model SignalRelay.Inv SignalRelay.Proofs SignalRelay.Reach.
Local Open Scope nat_scope.

(* Reading fixed in DESIGN.md: with a read goroutine and a separate write loop
   per call the drop cannot be ordered after the announcement in real time; what
   is proved is that it is never silent. *)

(* At every quiescent reachable state, a call attached to a session (including
   one that has just attached) was last told Opened(current epoch) when the
   partner is attached, and Closed (or nothing yet) when it is not *)
Theorem c22_told_current_epoch : forall l s a b,
  quiescent (run l) -> side (ses (run l) s) b = Some a ->
  last_open (sc_out (scalls (run l) a)) =
    match side (ses (run l) s) (negb b) with Some _ => Some (s_epoch (ses (run l) s)) | None => None end.
Proof. exact told_at_quiescence_run. Qed.
Print Assumptions c22_told_current_epoch.

(* In every reachable state (quiescent or not), for every running call: either
   its write loop has been woken (an announcement is on its way), or it is
   still the registered call and its last announcement is exactly the current
   epoch state.  Hence whenever the relay drops a request as stale, the epoch
   it is stale against has been announced or is being announced; every epoch
   change a call lives through is followed by Opened(new)/Closed or subsumed by
   a later one *)
Theorem c22_never_silent : forall l c,
  sc_st (scalls (run l) c) = Running ->
  swoken (run l) c = true \/
  (side (ses (run l) (sc_s (scalls (run l) c))) (sc_isA (scalls (run l) c)) = Some c /\
   last_open (sc_out (scalls (run l) c)) = cur_open (ses (run l)) (scalls (run l)) c).
Proof. exact stale_drop_not_silent_run. Qed.
Print Assumptions c22_never_silent.

(* a message is stored with the epoch it was submitted in (= its session seqno) ... *)
Theorem c22_stored_with_its_epoch : forall l c seq m d,
  alive (sc_st (scalls (run l) c)) = true ->
  sbox (step (run l) (SessReq c seq (RSend m))) d <> sbox (run l) d ->
  seq = epoch_of (run l) c /\
  mb_recv (sbox (step (run l) (SessReq c seq (RSend m))) d) = Some m /\
  mb_gep (sbox (step (run l) (SessReq c seq (RSend m))) d) = seq.
Proof. exact stored_with_epoch_run. Qed.
Print Assumptions c22_stored_with_its_epoch.

(* the same when verification and the store region are separate steps
   (SessReqBegin ... anything ... SessReqStore): the epoch test happens in the
   store region, against the epoch of THAT moment *)
Theorem c22_store_checks_epoch_at_store_time : forall l c seq m d,
  alive (sc_st (scalls (run l) c)) = true -> spend (run l) c = Some (seq, RSend m) ->
  sbox (step (run l) (SessReqStore c)) d <> sbox (run l) d ->
  m_ver m = true /\ m_from m = sc_src (scalls (run l) c) /\ seq = epoch_of (run l) c /\
  side (ses (run l) (sc_s (scalls (run l) c))) (negb (sc_isA (scalls (run l) c))) = Some d /\
  mb_recv (sbox (step (run l) (SessReqStore c)) d) = Some m /\
  mb_gep (sbox (step (run l) (SessReqStore c)) d) = seq.
Proof. exact store_routing_run. Qed.
Print Assumptions c22_store_checks_epoch_at_store_time.

(* a verified message whose stamp has become stale between Begin and Store is dropped *)
Theorem c22_stale_at_store_dropped : forall st c seq m,
  spend st c = Some (seq, RSend m) -> m_ver m = true -> m_from m = sc_src (scalls st c) ->
  seq < epoch_of st c ->
  sess_req_store c st = set_spend st (upd (spend st) c None).
Proof. exact store_stale_no_effect. Qed.
Print Assumptions c22_stale_at_store_dropped.

(* ... and when a write loop delivers it, that epoch is still the current one:
   no message submitted in one epoch is delivered in a later epoch *)
Theorem c22_no_cross_epoch_delivery : forall l c m,
  In (SRecv m) (sc_out (scalls (step (run l) (SessIter c)) c)) ->
  ~ In (SRecv m) (sc_out (scalls (run l) c)) ->
  mb_recv (sbox (run l) c) = Some m /\
  mb_gep (sbox (run l) c) = s_epoch (ses (run l) (sc_s (scalls (run l) c))) /\
  side (ses (run l) (sc_s (scalls (run l) c))) (negb (sc_isA (scalls (run l) c))) <> None.
Proof. exact no_cross_epoch_run. Qed.
Print Assumptions c22_no_cross_epoch_delivery.

(* non-vacuity: attach, attach, usurp by a third Session call of peer 1 while the
   second is still registered; after the write loops ran, the remaining peer
   has been told the new epoch and the replaced call ended with the replaced error *)
Example c22_nonvacuous_split :
  let st := run [SessStart 0 0 0 (RInit (Some 1)); SessStart 1 1 0 (RInit (Some 0)); SessIter 0; SessIter 1;
                 SessReqBegin 0 2 (RSend {| m_seqno := 1; m_tag := 1; m_ver := true; m_from := 0; m_pk := 0 |});
                 SessEnd 1 true; SessStart 2 1 0 (RInit (Some 0)); SessReqStore 0; SessIter 0; SessIter 2] in
  sc_out (scalls st 2) = [SOpened 4] /\ sc_out (scalls st 0) = [SOpened 2; SOpened 4] /\ spend st 0 = None.
Proof. split; [vm_compute; reflexivity|]. split; vm_compute; reflexivity. Qed.

Definition c22_demo : list action :=
  [SessStart 0 0 0 (RInit (Some 1)); SessStart 1 1 0 (RInit (Some 0)); SessIter 0; SessIter 1;
   SessStart 2 1 0 (RInit (Some 0)); SessIter 0; SessIter 1; SessEnd 1 false; SessIter 2].
Example c22_nonvacuous :
  sc_out (scalls (run c22_demo) 0) = [SOpened 2; SOpened 3] /\
  sc_out (scalls (run c22_demo) 2) = [SOpened 3] /\
  sc_st (scalls (run c22_demo) 1) = Ended EReplaced /\
  s_epoch (ses (run c22_demo) 0) = 3 /\ quiescent (run c22_demo).
Proof.
  split; [vm_compute; reflexivity|]. split; [vm_compute; reflexivity|]. split; [vm_compute; reflexivity|].
  split; [vm_compute; reflexivity|].
  intros c. destruct c as [|[|[|c]]]; vm_compute; auto.
Qed.
