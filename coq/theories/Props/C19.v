(* C19: the signaling relay cannot forge or alter messages.
   Client LTS of signaling/rpc/client/client.go with the relay as an ARBITRARY
   environment: the histories are all lists of actions, where [AResp r] lets
   the relay deliver any response r carrying any message term. *)
From Bifrost Require Import Lib.Base SignalClient.Model SignalClient.Proofs.

(* Every message that Recv hands to the application on the session with peer A
   (= peer_key c), in any history and against any relay behaviour, was
   delivered by the relay in that history, names A as its sender, has a
   non-empty body and carries the signature OF THE KEY NAMED BY THE SENDER ID
   (A's key), under the signaling context (regenerated from
   signaling/rpc/signaling.go) and the message's hash type, over exactly that
   body.  The optional key attached to the signature object (Signature.pub_key)
   does not occur in the condition: see c19_attached_key_ignored. *)
Theorem c19_recv_authentic : forall c acts s tr j m e,
  run c c_init acts = (s, tr) ->
  In (ORecvDone j (Some m) e) tr ->
  (m_from m = FromKey (peer_key c) /\
   m_sig m = SigOf (peer_key c) sig_ctx (m_ht m) (m_data m) /\
   m_data m <> [] /\
   ht_ok (m_ht m) = true /\
   m_att m <> AttBad) /\
  In (AResp (PRecv (Some m))) acts.
Proof. exact recv_returns_authentic. Qed.
Print Assumptions c19_recv_authentic.

(* the same as a state invariant: the tracker's pending message and the result
   of every finished Recv call *)
Theorem c19_tracker_authentic : forall c acts s tr,
  run c c_init acts = (s, tr) ->
  (forall m, t_recv (tk s) = Some m -> authentic c m) /\
  (forall j cl m, nth_error (recvs s) j = Some cl -> r_st cl = RGot m -> authentic c m).
Proof. exact recv_state_authentic. Qed.
Print Assumptions c19_tracker_authentic.

(* "was submitted by A's client": if the relay cannot sign with A's key, i.e.
   every signature it puts into a message is junk, made with another key, or
   one of the signatures A produced (listed as (context, hash type, body) in [signed]),
   then A signed exactly the returned body under the signaling context.  This
   covers honest, bit-flipped, third-key and re-contextualised messages and any
   other combination of their parts. *)
Theorem c19_recv_submitted : forall c signed acts s tr j m e,
  Forall (act_available (peer_key c) signed) acts ->
  run c c_init acts = (s, tr) ->
  In (ORecvDone j (Some m) e) tr ->
  authentic c m /\ In (sig_ctx, m_ht m, m_data m) signed.
Proof. exact recv_returns_submitted. Qed.
Print Assumptions c19_recv_submitted.

(* the session errors on the first bad message: it is not stored, ... *)
Theorem c19_bad_message_rejected : forall c s cn m,
  conn s = Some cn -> c_rerr cn = None ->
  check_recv (peer_key c) m <> Ok tt ->
  exists k, step c s (AResp (PRecv (Some m))) =
            Some (set_conn (Some (mkConn (c_w cn) (Some k))) s, [OBad k]) /\
            (k = EVerify \/ k = EPeer).
Proof. exact bad_message_ends_session. Qed.
Print Assumptions c19_bad_message_rejected.

(* ... no later response on that stream is processed, ... *)
Theorem c19_reader_stops : forall c s cn k r,
  conn s = Some cn -> c_rerr cn = Some k -> step c s (AResp r) = None.
Proof. exact reader_stopped_after_error. Qed.
Print Assumptions c19_reader_stops.

(* ... and execute returns that error and closes the session state. *)
Theorem c19_error_ends_execute : forall c s cn k,
  conn s = Some cn -> c_rerr cn = Some k -> blocked (c_w cn) = true ->
  exists s', step c s ALoopErr = Some (s', [OConnEnd k]) /\ conn s' = None /\
             t_recv (tk s') = None /\ t_open (tk s') = None.
Proof. exact error_ends_execute. Qed.
Print Assumptions c19_error_ends_execute.

(* acceptance is exact: an authentic message is accepted *)
Theorem c19_accepts_authentic : forall c m, authentic c m <-> check_recv (peer_key c) m = Ok tt.
Proof. intros c m; split; [apply check_recv_complete|apply check_recv_ok]. Qed.
Print Assumptions c19_accepts_authentic.

(* The decision depends only on the key named by from_peer_id: whatever
   well-formed public key is attached to the signature object (none, a third
   party's, A's own), the outcome is the same; so a message signed by a third
   key is refused even when that key is attached. *)
Theorem c19_attached_key_ignored : forall p m k,
  check_recv p (with_att (AttKey k) m) = check_recv p (with_att AttNone m).
Proof. exact attached_key_ignored. Qed.
Print Assumptions c19_attached_key_ignored.

Theorem c19_third_key_refused : forall c m k cx h b a,
  m_sig m = SigOf k cx h b -> k <> peer_key c -> check_recv (peer_key c) (with_att a m) <> Ok tt.
Proof.
  intros c m k cx h b a Hs Hk Hok. apply check_recv_ok in Hok. destruct Hok as (_ & Hs' & _).
  cbn in Hs'. rewrite Hs in Hs'. inversion Hs'. congruence.
Qed.
Print Assumptions c19_third_key_refused.

(* Acceptance is a function of the message alone: whatever the tracker holds
   (an earlier delivery of a message with the same signature, sender and
   sequence number, the epoch, pending slots), the reader accepts m exactly
   when check_recv accepts it, and then stores exactly m. *)
Theorem c19_accept_stateless : forall c t m,
  reader c (PRecv (Some m)) t =
  match check_recv (peer_key c) m with
  | Ok _ => Ok (h_recv m t)
  | Err k => Err k
  | Panic => Panic
  end.
Proof. exact accept_stateless. Qed.
Print Assumptions c19_accept_stateless.

(* in particular a re-delivery with the same envelope but another body is
   refused in every state in which the reader runs *)
Theorem c19_replay_changed_body_refused : forall c s cn m body',
  conn s = Some cn -> c_rerr cn = None ->
  check_recv (peer_key c) m = Ok tt -> body' <> m_data m ->
  exists k, step c s (AResp (PRecv (Some (mkMsg (m_from m) body' (m_sig m) (m_seq m) (m_ht m) (m_att m))))) =
            Some (set_conn (Some (mkConn (c_w cn) (Some k))) s, [OBad k]).
Proof.
  intros c s cn m body' Hc Hr Hok Hb.
  destruct (bad_message_ends_session c s cn (mkMsg (m_from m) body' (m_sig m) (m_seq m) (m_ht m) (m_att m)) Hc Hr) as (k & E & _).
  - intros Hok'. apply check_recv_ok in Hok as (_ & Hs & _). apply check_recv_ok in Hok' as (_ & Hs' & _).
    cbn in Hs'. rewrite Hs in Hs'. inversion Hs'. congruence.
  - exists k. exact E.
Qed.
Print Assumptions c19_replay_changed_body_refused.

(* non-vacuity: a history in which Recv returns an honest message of peer 1
   (local key 0), after the four forged variants were refused on an earlier
   stream: bit-flipped body, third key claiming peer 1, other context, junk. *)
Definition ex_cfg := mkCfg 0 1.
Definition ex_honest := sign_msg 1 [104;105] 7.
Definition b3 := ht_blake3.
Definition ex_flipped := mkMsg (FromKey 1) [104;104] (SigOf 1 sig_ctx b3 [104;105]) 7 b3 AttNone.
Definition ex_third := mkMsg (FromKey 1) [104;105] (SigOf 2 sig_ctx b3 [104;105]) 7 b3 AttNone.
Definition ex_third_att := mkMsg (FromKey 1) [104;105] (SigOf 2 sig_ctx b3 [104;105]) 7 b3 (AttKey 2).
Definition ex_ctx := mkMsg (FromKey 1) [104;105] (SigOf 1 [111] b3 [104;105]) 7 b3 AttNone.

Example c19_nonvacuous :
  snd (run ex_cfg c_init
         [AConnStart; AResp (POpened 2); ARecvStart; ARecvIter 0%nat;
          AResp (PRecv (Some ex_honest)); ARecvIter 0%nat])
  = [OReq RInit; ORecvDone 0%nat (Some ex_honest) (Some 2)]
  /\ check_recv 1%nat ex_flipped = Err EVerify
  /\ check_recv 1%nat ex_third = Err EVerify
  /\ check_recv 1%nat ex_third_att = Err EVerify
  /\ check_recv 1%nat (with_att (AttKey 2) ex_honest) = Ok tt
  /\ check_recv 1%nat ex_ctx = Err EVerify
  /\ check_recv 1%nat (sign_msg 2 [104;105] 7) = Err EPeer
  /\ snd (run ex_cfg c_init
         [AConnStart; AResp (POpened 2); ARecvStart; ARecvIter 0%nat;
          AResp (PRecv (Some ex_flipped)); AResp (PRecv (Some ex_honest)); ARecvIter 0%nat; ALoop; ALoopErr])
     = [OReq RInit; OBad EVerify; OConnEnd EVerify].
Proof. vm_compute. repeat split. Qed.
