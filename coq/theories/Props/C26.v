(* C26: WebRTC signals are private to the recipient and roles never clash. *)
From Bifrost Require Import Lib.Base Lib.Sym Lib.Lex Enc.Prim Enc.PrimFacts Enc.Model Enc.Proofs gen.Enc.

Section C26.
  (* the vtprotobuf codec of WebRtcSignal as an oracle pair with its round-trip law *)
  Context {signal : Type} (marshal : signal -> bytes) (unmarshal : bytes -> option signal).
  Hypothesis codec : forall s, unmarshal (marshal s) = Some s.

  (* a payload encoded for a peer decodes with that peer's key to exactly the signal *)
  Theorem c26_roundtrip : forall o sk s,
    honest_orc o ->
    exists c, encode_signal marshal o s (edpub sk) = Ok c /\ decode_signal unmarshal o c sk = Ok s.
  Proof. exact (signal_roundtrip marshal unmarshal codec). Qed.

  (* no other key and no other (non-WebRTC) context decodes it *)
  Theorem c26_private : forall o sk sk' ctx' s c,
    honest_orc o ->
    encode_signal marshal o s (edpub sk) = Ok c ->
    sk' <> sk \/ ctx' <> lift webrtc_ctx ->
    exists k, decode_with_ctx unmarshal o ctx' c sk' = Err k.
  Proof. exact (signal_private marshal unmarshal). Qed.

  (* a payload modified in transit is rejected *)
  Theorem c26_tamper : forall o pub s c c' sk' ctx',
    encode_signal marshal o s pub = Ok c -> keyed_from c c' -> c' <> c ->
    exists k, decode_with_ctx unmarshal o ctx' c' sk' = Err k.
  Proof. exact (signal_tamper marshal unmarshal). Qed.

  (* arbitrary payload bytes never panic *)
  Theorem c26_total : forall o ctx msg sk, decode_with_ctx unmarshal o ctx msg sk <> Panic.
  Proof. exact (signal_decode_total unmarshal). Qed.
End C26.
Print Assumptions c26_roundtrip.
Print Assumptions c26_private.
Print Assumptions c26_tamper.
Print Assumptions c26_total.

(* for two distinct peers exactly one takes the offerer role: the local peer
   a computes tracker_offerer a b, the remote peer b computes tracker_offerer b a *)
Theorem c26_roles : forall a b, a <> b -> xorb (tracker_offerer a b) (tracker_offerer b a) = true.
Proof. exact offerer_exclusive. Qed.
Print Assumptions c26_roles.

(* the role rule as enforced at run time by the negotiation loop: for ALL event
   sequences (any signals in any order, any pion answers, failures and restarts)
   the designated offerer never transmits an answer or a request for an offer,
   the answerer never transmits an offer ... *)
Theorem c26_offerer_never_answers : forall evs failed,
  ~ In TxAnswer (nrun true failed evs) /\ ~ In TxRequestOffer (nrun true failed evs).
Proof. exact offerer_never_answers. Qed.
Print Assumptions c26_offerer_never_answers.

Theorem c26_answerer_never_offers : forall evs failed, ~ In TxOffer (nrun false failed evs).
Proof. exact answerer_never_offers. Qed.
Print Assumptions c26_answerer_never_offers.

(* ... a signal of the wrong role fails the session, which then stays silent ... *)
Theorem c26_wrong_role_fails : forall ok,
  nstep true false (RxSdp KOffer ok) = (true, [Fail]) /\
  nstep false false (RxSdp KAnswer ok) = (true, [Fail]) /\
  nstep false false RxRequestOffer = (true, [Fail]) /\
  (forall offerer evs, ~ In Restart evs -> nrun offerer true evs = []).
Proof. intros ok. repeat split. exact failed_silent. Qed.
Print Assumptions c26_wrong_role_fails.

(* ... so of two distinct peers at most one ever offers and at most one ever answers *)
Theorem c26_one_offer_side : forall a b evs1 evs2 f1 f2,
  a <> b ->
  ~ (In TxOffer (nrun (tracker_offerer a b) f1 evs1) /\ In TxOffer (nrun (tracker_offerer b a) f2 evs2)) /\
  ~ (In TxAnswer (nrun (tracker_offerer a b) f1 evs1) /\ In TxAnswer (nrun (tracker_offerer b a) f2 evs2)).
Proof. exact one_offer_side. Qed.
Print Assumptions c26_one_offer_side.

(* non-vacuity: the roles do act *)
Example c26_negotiation_example :
  nrun true false [RxRequestOffer; LocalReady true; RxSdp KAnswer true] = [TxOffer] /\
  nrun false false [LocalReady true; RxSdp KOffer true] = [TxRequestOffer; TxAnswer] /\
  nrun true false [RxSdp KOffer true; LocalReady true; Restart; LocalReady true] = [Fail; TxOffer].
Proof. repeat split; reflexivity. Qed.

(* the quic session over the data channel is constrained to the signalled
   peer: whichever role, a link is accepted only from the tracker's peer *)
Theorem c26_link : forall offerer p r, p <> [] -> link_accepted offerer p r = true -> r = p.
Proof. exact link_only_signalled. Qed.
Print Assumptions c26_link.

(* non-vacuity: the identity codec satisfies the law; two concrete ids get opposite roles *)
Example c26_codec_exists : forall s : bytes, (fun b : bytes => Some b) ((fun b : bytes => b) s) = Some s.
Proof. reflexivity. Qed.
Example c26_roles_example :
  xorb (tracker_offerer [49;50] [49;51]) (tracker_offerer [49;51] [49;50]) = true /\
  link_accepted true [49;50] [49;50] = true /\ link_accepted false [49;50] [49;51] = false.
Proof. repeat split; reflexivity. Qed.
