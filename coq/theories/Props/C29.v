(* C29: pubsub streams are opened once per link and subscriptions end cleanly. *)
From Bifrost Require Import Lib.Base Lib.Lex gen.Pubsub Pubsub.Sub Pubsub.LoopFine Pubsub.Proofs29 Pubsub.Proofs29Loop Pubsub.Proofs29Pass.

(* for two different peers exactly one side opens the pubsub stream; the
   comparison operator is the one found in tracked-link.go; the base58 text of
   a peer id is any injective function (explicit premise) *)
Theorem c29_opener : forall b58 : bytes -> bytes,
  (forall a b, b58 a = b58 b -> a = b) ->
  forall a b, a <> b -> xorb (opens b58 a b) (opens b58 b a) = true.
Proof. exact opener_exactly_one. Qed.
Print Assumptions c29_opener.

(* on the compared texts themselves no premise is needed *)
Theorem c29_opener_text : forall a b, a <> b -> xorb (opens_str a b) (opens_str b a) = true.
Proof. exact opens_str_exactly_one. Qed.
Print Assumptions c29_opener_text.

(* from the moment Release has emptied the handler set (its first lock region,
   hence also after Release returns), for every continuation of the history:
   a handler of that subscription that is invoked was registered by an
   AddHandler issued after the release *)
Theorem c29_release_general : forall s st t h msg,
  In (Invoke s h msg) (snd (srun (fst (sstep st (SReleaseA s))) t)) -> In (SAddHandler s h) t.
Proof. exact release_general. Qed.
Print Assumptions c29_release_general.

(* the property: a released handle that is not used again has no handler invoked, ever *)
Theorem c29_release : forall s st t1 t2,
  (forall h, ~ In (SAddHandler s h) t2) ->
  forall o, In o (snd (srun st (t1 ++ SReleaseA s :: t2))) ->
    In o (snd (srun st t1)) \/ (forall h msg, o <> Invoke s h msg).
Proof. exact release_history. Qed.
Print Assumptions c29_release.

(* last clause, for ALL interleavings of subscribe, release, new peer stream,
   dropped stream, wake and loop body (the loop body is one lock region since
   /repo commit 4585b8b): when the loop is idle with no wake pending, every
   executing stream's last subscription entry for a channel without local
   subscription is Subscribe=false, or it never was sent Subscribe=true *)
Theorem c29_unsub : forall l p ch,
  let s := lrun linit l in
  lquiescent s -> In p (l_started s) -> nsubs ch (l_ch s) = 0%nat -> told (l_wire s) p ch = false.
Proof. exact unsub_at_quiescence. Qed.
Print Assumptions c29_unsub.

(* for the record: with m.mtx released between the initial-set pass and the
   sweep (the loop body before that commit, Pubsub/LoopFine.v) the statement
   was false; the merged transition system has no step between the two *)
Example c29_unsub_two_region_loop_was_wrong :
  let s := Fine.lrun Fine.linit gap_trace in
  Fine.lquiescent s /\ In 1%nat (Fine.l_started s) /\ nsubs 7 (Fine.l_ch s) = 0%nat /\ told (Fine.l_wire s) 1 7 = true.
Proof. vm_compute. repeat split; auto. Qed.

(* non-vacuity *)
Example c29_opener_nonvacuous :
  opens (fun x => x) [1; 2] [1; 3] = true /\ opens (fun x => x) [1; 3] [1; 2] = false.
Proof. vm_compute. split; reflexivity. Qed.

Example c29_release_nonvacuous :
  snd (srun (SState [] [] []) [SSubscribe 1 5; SAddHandler 1 9; SIncoming 5 100; SRunJob 0;
                               SIncoming 5 101; SReleaseA 1; SRunJob 0; SReleaseB 1; SIncoming 5 102; SRunJob 0])
  = [Invoke 1 9 100].
Proof. vm_compute. reflexivity. Qed.

Example c29_unsub_nonvacuous :
  let s := lrun linit [LSubscribe 7; LAddPeer 1; LPass; LRelease 7; LWake; LPass] in
  lquiescent s /\ In 1%nat (l_started s) /\ nsubs 7 (l_ch s) = 0%nat /\
  In (1%nat, 7%nat, true) (l_wire s) /\ told (l_wire s) 1 7 = false.
Proof. vm_compute. repeat split; auto 10. Qed.

(* the stream of an already known tuple is replaced in the same pass in which the
   last subscription of an announced channel is released: the new stream gets the
   initial set (no retraction in it) AND the sweep's Subscribe=false *)
Example c29_unsub_replaced_stream :
  let s := lrun linit [LSubscribe 7; LAddPeer 1; LPass; LReplace 1; LRelease 7; LWake; LPass] in
  lquiescent s /\ In 1%nat (l_started s) /\ nsubs 7 (l_ch s) = 0%nat /\
  In (1%nat, 7%nat, true) (l_wire s) /\ told (l_wire s) 1 7 = false.
Proof. vm_compute. repeat split; auto 10. Qed.
