(* C25: one active listen/session per peer pair, and no leftover relay state. *)
From Bifrost Require Import Lib.Base SignalRelay.Model SignalRelay.Inv SignalRelay.Proofs SignalRelay.Reach.
Local Open Scope nat_scope.

(* at most one Listen call is registered per peer, in every reachable state *)
Theorem c25_one_listen_per_peer : forall l c1 c2,
  listen_current (run l) c1 -> listen_current (run l) c2 ->
  lc_p (lcalls (run l) c1) = lc_p (lcalls (run l) c2) -> c1 = c2.
Proof. exact one_listen_run. Qed.
Print Assumptions c25_one_listen_per_peer.

(* a Listen call that was replaced by a newer one has been woken; its next pass
   returns the replaced error and its cleanup leaves the relay maps untouched *)
Theorem c25_replaced_listen_ends_replaced : forall l c,
  lc_st (lcalls (run l) c) = Running ->
  lc_n (lcalls (run l) c) <> t_nonce (trk (run l) (lc_t (lcalls (run l) c))) ->
  lwoken (run l) c = true /\
  forall w u, let st1 := step (run l) (ListenIter c w u) in
    lc_st (lcalls st1 c) = Ending EReplaced /\
    let st2 := step st1 (ListenEnd c) in
    lc_st (lcalls st2 c) = Ended EReplaced /\ peers st2 = peers (run l) /\ trk st2 = trk (run l).
Proof. exact replaced_listen_run. Qed.
Print Assumptions c25_replaced_listen_ends_replaced.

(* at most one Session call is registered per ordered pair of peers *)
Theorem c25_one_session_per_ordered_pair : forall l c1 c2,
  sess_current (run l) c1 -> sess_current (run l) c2 ->
  sc_src (scalls (run l) c1) = sc_src (scalls (run l) c2) ->
  sc_dst (scalls (run l) c1) = sc_dst (scalls (run l) c2) -> c1 = c2.
Proof. exact one_session_run. Qed.
Print Assumptions c25_one_session_per_ordered_pair.

(* a running Session call that is no longer the registered one has been woken;
   its next pass returns the replaced error and its cleanup changes nothing *)
Theorem c25_replaced_session_ends_replaced : forall l c,
  sc_st (scalls (run l) c) = Running -> ~ sess_current (run l) c ->
  swoken (run l) c = true /\
  let st1 := step (run l) (SessIter c) in
  sc_st (scalls st1 c) = Ending EReplaced /\
  let st2 := step st1 (SessEnd c false) in
  sc_st (scalls st2 c) = Ended EReplaced /\ peers st2 = peers (run l) /\ trk st2 = trk (run l) /\
  sessions st2 = sessions (run l) /\ ses st2 = ses (run l) /\ sbox st2 = sbox (run l).
Proof. exact replaced_session_run. Qed.
Print Assumptions c25_replaced_session_ends_replaced.

(* once all listen and session calls have ended the relay keeps no per-peer or per-session state *)
Theorem c25_no_leftover_state : forall l,
  (forall c, alive (lc_st (lcalls (run l) c)) = false /\ alive (sc_st (scalls (run l) c)) = false) ->
  (forall p, peers (run l) p = None) /\ (forall k, sessions (run l) k = None).
Proof. exact no_leftover_run. Qed.
Print Assumptions c25_no_leftover_state.

(* non-vacuity: two listens of one peer (usurp), two sessions of one ordered
   pair (usurp), then everything ends: the hypothesis of c25_no_leftover_state holds *)
Definition c25_demo : list action :=
  [ListenStart 0 1; ListenStart 1 1; SessStart 0 0 0 (RInit (Some 1)); SessStart 1 0 0 (RInit (Some 1));
   ListenIter 0 None None; ListenEnd 0; SessIter 0; SessEnd 0 false;
   SessEnd 1 true; ListenEnd 1].
Example c25_nonvacuous :
  lc_st (lcalls (run c25_demo) 0) = Ended EReplaced /\ sc_st (scalls (run c25_demo) 0) = Ended EReplaced /\
  (forall c, alive (lc_st (lcalls (run c25_demo) c)) = false /\ alive (sc_st (scalls (run c25_demo) c)) = false).
Proof.
  split; [vm_compute; reflexivity|]. split; [vm_compute; reflexivity|].
  intros c. destruct c as [|[|c]]; vm_compute; auto.
Qed.
