(* C34 correspondence: the real HandleDirective decision vs the model's. *)
From Bifrost Require Export Lib.Base Lib.StrOps Handlers.Model.

Inductive c34_case :=
| HEcho (cfg_proto cfg_local : bytes) (s : stream) (obs : bool)
| HFwd (cfg_proto cfg_local : bytes) (s : stream) (obs : bool)
| HRelay (cfg_proto cfg_src : bytes) (s : stream) (obs : bool)
| HAccept (cfg_proto cfg_local : bytes) (cfg_remotes : list bytes) (s : stream) (obs : bool)
| HSrpc (cfg_protos cfg_peer_strs : list bytes) (s : stream) (local_str : bytes) (obs : bool)
| HPubsub (cfg_proto : bytes) (s : stream) (obs : bool)
(* obs_kind: 0 declined, 1 control handler, 2 solicited handler (with its hash string), 3 panic *)
| HSolicit (s : stream) (obs_kind : nat) (obs_hash : bytes).

Definition c34_agree (c : c34_case) : bool :=
  match c with
  | HEcho p l s o => Bool.eqb (echo_offers p l s) o
  | HFwd p l s o => Bool.eqb (forwarding_offers p l s) o
  | HRelay p l s o => Bool.eqb (relay_offers p l s) o
  | HAccept p l r s o => Bool.eqb (accept_offers p l r s) o
  | HSrpc ps strs s ls o => Bool.eqb (srpc_offers ps strs s ls) o
  | HPubsub p s o => Bool.eqb (pubsub_offers p s) o
  | HSolicit s k h =>
      match solicit_offers s with
      | Ok SNone => Nat.eqb k 0
      | Ok SControl => Nat.eqb k 1
      | Ok (SSolicited h') => Nat.eqb k 2 && bytes_eqb h h'
      | Panic => Nat.eqb k 3
      | Err _ => false
      end
  end.
