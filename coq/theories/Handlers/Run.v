(* C34 correspondence: the real HandleDirective decision vs the model's. *)
From Bifrost Require Export Lib.Base Lib.StrOps Handlers.Model.

Fixpoint tbl_get (tbl : list (bytes * option bytes)) (k : bytes) : option bytes :=
  match tbl with
  | [] => None
  | (k', v) :: t => if bytes_eqb k k' then v else tbl_get t k
  end.

Inductive c34_case :=
| HEcho (c : echo_cfg) (s : stream) (obs : bool)
| HFwd (c : fwd_cfg) (s : stream) (obs : bool)
| HRelay (c : relay_cfg) (s : stream) (obs : bool)
| HAccept (c : accept_cfg) (s : stream) (obs : bool)
(* raw configuration strings; tbl = peer.IDB58Decode on each entry; obs 0 declined 1 offered 2 constructor error *)
| HAcceptRaw (cfg_proto cfg_local : bytes) (remote_strs : list bytes) (tbl : list (bytes * option bytes)) (s : stream) (obs : nat)
| HSrpc (c : srpc_cfg) (s : stream) (local_str : bytes) (obs : bool)
| HPubsub (c : pubsub_cfg) (s : stream) (obs : bool)
(* obs_kind: 0 declined, 1 control handler, 2 solicited handler (with its hash string), 3 panic *)
| HSolicit (c : solicit_cfg) (s : stream) (obs_kind : nat) (obs_hash : bytes).

Definition c34_agree (c : c34_case) : bool :=
  match c with
  | HEcho c s o => Bool.eqb (echo_offers c s) o
  | HFwd c s o => Bool.eqb (forwarding_offers c s) o
  | HRelay c s o => Bool.eqb (relay_offers c s) o
  | HAccept c s o => Bool.eqb (accept_offers c s) o
  | HAcceptRaw cp cl strs tbl s o =>
      forallb (fun x => existsb (fun kv => bytes_eqb x (fst kv)) tbl) strs
      && Nat.eqb (accept_from_config (fun x => tbl_get tbl x) cp cl strs s) o
  | HSrpc c s ls o => Bool.eqb (srpc_offers c s ls) o
  | HPubsub c s o => Bool.eqb (pubsub_offers c s) o
  | HSolicit c s k h =>
      match solicit_offers c s with
      | Ok SNone => Nat.eqb k 0
      | Ok SControl => Nat.eqb k 1
      | Ok (SSolicited h') => Nat.eqb k 2 && bytes_eqb h h'
      | Panic => Nat.eqb k 3
      | Err _ => false
      end
  end.
