(* C34 proofs: each decision function is equivalent to its declarative filter, for all strings. *)
From Bifrost Require Import Lib.Base Lib.StrOps gen.Handlers Handlers.Model.

Lemma beq_true a b : bytes_eqb a b = true <-> a = b.
Proof. apply bytes_eqb_spec. Qed.

Lemma beq_false a b : bytes_eqb a b = false <-> a <> b.
Proof.
  split; intros H.
  - intros E. apply beq_true in E. congruence.
  - destruct (bytes_eqb a b) eqn:E; [apply beq_true in E; contradiction|reflexivity].
Qed.

Lemma local_ok_spec cfg s :
  local_ok cfg s = true <-> (cfg <> [] -> s_local s = cfg).
Proof.
  unfold local_ok. destruct cfg as [|c cfg]; cbn [nonempty].
  - split; [intros _ H; contradiction|reflexivity].
  - rewrite beq_true. split; [intros H _; exact H|intros H; apply H; discriminate].
Qed.

Lemma echo_default_nonempty : echo_default_protocol_id <> [].
Proof. discriminate. Qed.

Lemma echo_effective_nonempty p : echo_effective_proto p <> [].
Proof.
  unfold echo_effective_proto. destruct p; cbn [nonempty]; [apply echo_default_nonempty|discriminate].
Qed.

Lemma echo_spec cp cl s :
  echo_offers (EchoCfg cp cl) s = true <->
  s_proto s = echo_effective_proto cp /\ (cl <> [] -> s_local s = cl).
Proof.
  unfold echo_offers. cbn [ec_proto ec_local].
  pose proof (echo_effective_nonempty cp) as N. apply nonempty_true in N. rewrite N. cbn [andb].
  destruct (bytes_eqb (echo_effective_proto cp) (s_proto s)) eqn:E; cbn [negb].
  - apply beq_true in E. rewrite local_ok_spec. split; [intros H; split; auto|intros [_ H]; exact H].
  - apply beq_false in E. split; [discriminate|]. intros [H _]. congruence.
Qed.

Lemma forwarding_spec cp cl tm s :
  forwarding_offers (FwdCfg cp cl tm) s = true <->
  (cp <> [] -> s_proto s = cp) /\ (cl <> [] -> s_local s = cl).
Proof.
  unfold forwarding_offers. cbn [fw_proto fw_local]. destruct cp as [|c cp]; cbn [nonempty andb].
  - rewrite local_ok_spec. split; [intros H; split; [intros X; contradiction|exact H]|intros [_ H]; exact H].
  - destruct (bytes_eqb (c :: cp) (s_proto s)) eqn:E; cbn [negb].
    + apply beq_true in E. rewrite local_ok_spec. split; [intros H; split; auto|intros [_ H]; exact H].
    + apply beq_false in E. split; [discriminate|]. intros [H _].
      exfalso. apply E. symmetry. apply H. discriminate.
Qed.

Lemma relay_spec cp cs tp tpr s :
  relay_offers (RelayCfg cp cs tp tpr) s = true <-> s_proto s = cp /\ s_local s = cs.
Proof.
  unfold relay_offers. cbn [rl_proto rl_src].
  destruct (bytes_eqb cp (s_proto s)) eqn:E1; cbn [negb orb].
  2:{ apply beq_false in E1. split; [discriminate|]. intros [H _]. congruence. }
  apply beq_true in E1.
  destruct (bytes_eqb cs (s_local s)) eqn:E2; cbn [negb].
  - apply beq_true in E2. split; auto.
  - apply beq_false in E2. split; [discriminate|]. intros [_ H]. congruence.
Qed.

Lemma accept_spec cp cl cr s :
  accept_offers (AcceptCfg cp cl cr) s = true <->
  s_proto s = cp /\ (cl <> [] -> s_local s = cl) /\ (cr <> [] -> In (s_remote s) cr).
Proof.
  unfold accept_offers. cbn [ac_proto ac_local ac_remotes].
  destruct (bytes_eqb cp (s_proto s)) eqn:E1; cbn [negb].
  2:{ apply beq_false in E1. split; [discriminate|]. intros [H _]. congruence. }
  apply beq_true in E1.
  destruct (local_ok cl s) eqn:E2; cbn [negb].
  2:{ split; [discriminate|]. intros [_ [H _]]. apply (proj2 (local_ok_spec _ _)) in H. congruence. }
  pose proof (proj1 (local_ok_spec _ _) E2) as E2'. clear E2. rename E2' into E2.
  destruct cr as [|r cr]; cbn [nonempty].
  - split; [intros _; split; [congruence|split; [exact E2|intros X; contradiction]]|reflexivity].
  - rewrite mem_spec. split.
    + intros H; split; [congruence|split; [exact E2|intros _; exact H]].
    + intros [_ [_ H]]. apply H. discriminate.
Qed.

(* a configuration that NAMES remote peers never becomes "no remote filter": construction either
   fails or yields one parsed peer per entry *)
Lemma accept_parse_remotes_spec decode l rs :
  accept_parse_remotes decode l = Ok rs ->
  length rs = length l /\ (forall r, In r rs <-> exists x, In x l /\ decode x = Some r).
Proof.
  revert rs; induction l as [|x l IH]; intros rs H; cbn [accept_parse_remotes] in H.
  - inversion H; subst. split; [reflexivity|]. intros r; split; [intros []|intros [x [[] _]]].
  - destruct (decode x) as [p|] eqn:D; [|discriminate].
    destruct (accept_parse_remotes decode l) as [r'|k|] eqn:E; cbn [obind] in H; try discriminate.
    inversion H; subst. destruct (IH r' eq_refl) as [L K]. split; [cbn; congruence|].
    intros r; cbn [In]. rewrite K. split.
    + intros [<-|[y [Hy Dy]]]; [exists x; auto|exists y; auto].
    + intros [y [[<-|Hy] Dy]]; [left; congruence|right; exists y; auto].
Qed.

Lemma accept_named_remotes decode cp cl strs s :
  strs <> [] -> accept_from_config decode cp cl strs s = 1%nat ->
  exists x, In x strs /\ decode x = Some (s_remote s).
Proof.
  intros Hne. unfold accept_from_config.
  destruct (accept_parse_remotes decode strs) as [rs|k|] eqn:E; try discriminate.
  destruct (accept_parse_remotes_spec _ _ _ E) as [L K].
  destruct (accept_offers (AcceptCfg cp cl rs) s) eqn:O; [|discriminate]. intros _.
  apply accept_spec in O as [_ [_ O]]. apply K. apply O.
  destruct rs; [destruct strs; [contradiction|discriminate]|discriminate].
Qed.

Lemma any_eq_spec x l acc : any_eq x l acc = true <-> acc = true \/ In x l.
Proof.
  revert acc; induction l as [|y l IH]; intros acc; cbn [any_eq].
  - split; [auto|intros [H|[]]; exact H].
  - rewrite IH. destruct (bytes_eqb y x) eqn:E.
    + apply beq_true in E. subst. split; [intros _; right; left; reflexivity|auto].
    + apply beq_false in E. split.
      * intros [H|H]; [left; exact H|right; right; exact H].
      * intros [H|[H|H]]; [left; exact H|contradiction|right; exact H].
Qed.

Lemma srpc_spec cps cstrs del s lstr :
  srpc_offers (SrpcCfg cps cstrs del) s lstr = true <->
  In (s_proto s) cps /\ (cstrs <> [] -> In lstr cstrs).
Proof.
  unfold srpc_offers. cbn [sr_protos sr_peer_strs]. destruct (mem (s_proto s) cps) eqn:E; cbn [negb].
  2:{ split; [discriminate|]. intros [H _]. apply mem_spec in H. congruence. }
  apply mem_spec in E. destruct cstrs as [|c cstrs]; cbn [nonempty].
  - split; [intros _; split; auto; intros X; contradiction|reflexivity].
  - rewrite any_eq_spec. split.
    + intros [H|H]; [discriminate|]. split; auto.
    + intros [_ H]. right. apply H. discriminate.
Qed.

Lemma pubsub_spec pp cp s : pubsub_offers (PubsubCfg pp cp) s = true <-> s_proto s = cp.
Proof.
  unfold pubsub_offers. cbn [pb_proto]. destruct (bytes_eqb (s_proto s) cp) eqn:E; cbn [negb].
  - apply beq_true in E. split; auto.
  - apply beq_false in E. split; [discriminate|contradiction].
Qed.

Lemma solicit_total c s : solicit_offers c s <> Panic /\ forall k, solicit_offers c s <> Err k.
Proof.
  unfold solicit_offers. destruct (bytes_eqb (s_proto s) solicit_control_protocol_id).
  - split; [discriminate|intros; discriminate].
  - destruct (has_prefix (s_proto s) solicit_stream_prefix_h) eqn:E.
    + apply has_prefix_spec in E as [r E]. rewrite E, drop_len_prefix. cbn.
      split; [discriminate|intros; discriminate].
    + split; [discriminate|intros; discriminate].
Qed.

Lemma solicit_control_not_prefixed : has_prefix solicit_control_protocol_id solicit_stream_prefix_h = false.
Proof. reflexivity. Qed.

Lemma solicit_spec c s :
  (solicit_offers c s = Ok SControl <-> s_proto s = solicit_control_protocol_id) /\
  (forall h, solicit_offers c s = Ok (SSolicited h) <-> s_proto s = solicit_stream_prefix_h ++ h) /\
  (solicit_offers c s = Ok SNone <->
     s_proto s <> solicit_control_protocol_id /\ forall h, s_proto s <> solicit_stream_prefix_h ++ h).
Proof.
  unfold solicit_offers.
  destruct (bytes_eqb (s_proto s) solicit_control_protocol_id) eqn:E1.
  - apply beq_true in E1. split; [split; auto|]. split.
    + intros h. split; [discriminate|]. intros H. exfalso.
      pose proof solicit_control_not_prefixed as X. rewrite <- E1, H, has_prefix_app in X. discriminate.
    + split; [discriminate|]. intros [H _]. contradiction.
  - apply beq_false in E1.
    destruct (has_prefix (s_proto s) solicit_stream_prefix_h) eqn:E2.
    + apply has_prefix_spec in E2 as [r E2]. rewrite E2, drop_len_prefix. cbn [obind].
      split; [split; [discriminate|]; intros H; rewrite E2 in E1; contradiction|]. split.
      * intros h. split.
        -- intros H. inversion H; subst. reflexivity.
        -- intros H. apply app_inv_head in H. subst. reflexivity.
      * split; [discriminate|]. intros [_ H]. exfalso. apply (H r). reflexivity.
    + split; [split; [discriminate|intros; contradiction]|]. split.
      * intros h. split; [discriminate|]. intros H. rewrite H, has_prefix_app in E2. discriminate.
      * split; [|reflexivity]. intros _. split; auto. intros h H.
        rewrite H, has_prefix_app in E2. discriminate.
Qed.
