(* C34: the accept/decline decision of every HandleMountedStream handler, one
   boolean function per controller, transcribed from the filter at the top of
   each resolveHandleMountedStream / handleMountedStream.
   A stream is (protocol id, local peer id, remote peer id); peer ids are the
   raw bytes of peer.ID, "" is the empty peer id. *)
From Bifrost Require Import Lib.Base Lib.StrOps gen.Handlers.

Record stream := St { s_proto : bytes; s_local : bytes; s_remote : bytes }.

(* The WHOLE configuration of each controller, including the fields the accept decision must
   not depend on (where the stream is forwarded to, link options, ...): the decision functions
   take the whole record, the theorems say which fields matter. *)
Record echo_cfg := EchoCfg { ec_proto : bytes; ec_local : bytes }.
Record fwd_cfg := FwdCfg { fw_proto : bytes; fw_local : bytes; fw_target_multiaddr : bytes }.
Record relay_cfg := RelayCfg { rl_proto : bytes; rl_src : bytes; rl_target_peer : bytes; rl_target_proto : bytes }.
Record accept_cfg := AcceptCfg { ac_proto : bytes; ac_local : bytes; ac_remotes : list bytes }.
Record srpc_cfg := SrpcCfg { sr_protos : list bytes; sr_peer_strs : list bytes; sr_disable_establish_link : bool }.
Record pubsub_cfg := PubsubCfg { pb_peer : bytes; pb_proto : bytes }.
Record solicit_cfg := SolicitCfg { so_max_hashes : Z }.

(* the `if localPeerID != "" { if lid != localPeerID { return nil } }` block *)
Definition local_ok (cfg_local : bytes) (s : stream) : bool :=
  if nonempty cfg_local then bytes_eqb (s_local s) cfg_local else true.

(* stream/echo: NewController replaces an empty conf.ProtocolId by
   DefaultProtocolID, the filter then reads conf.GetProtocolId(). *)
Definition echo_effective_proto (cfg_proto : bytes) : bytes :=
  if nonempty cfg_proto then cfg_proto else echo_default_protocol_id.

Definition echo_offers (c : echo_cfg) (s : stream) : bool :=
  let cfg_local := ec_local c in
  let p := echo_effective_proto (ec_proto c) in
  if nonempty p && negb (bytes_eqb p (s_proto s)) then false
  else local_ok cfg_local s.

(* stream/forwarding: an empty configured protocol id is "no protocol filter". *)
Definition forwarding_offers (c : fwd_cfg) (s : stream) : bool :=
  let cfg_proto := fw_proto c in let cfg_local := fw_local c in
  if nonempty cfg_proto && negb (bytes_eqb cfg_proto (s_proto s)) then false
  else local_ok cfg_local s.

(* stream/relay: the LISTEN protocol (conf.ProtocolId) and source (local) peer, both compared
   unconditionally; target peer / target protocol only say where the stream is relayed to *)
Definition relay_offers (c : relay_cfg) (s : stream) : bool :=
  let cfg_proto := rl_proto c in let cfg_src := rl_src c in
  if negb (bytes_eqb cfg_proto (s_proto s)) || negb (bytes_eqb cfg_src (s_local s)) then false
  else true.

(* stream/api/accept: protocol, optional local peer, optional remote peer list *)
Definition accept_offers (c : accept_cfg) (s : stream) : bool :=
  let cfg_proto := ac_proto c in let cfg_local := ac_local c in let cfg_remotes := ac_remotes c in
  if negb (bytes_eqb cfg_proto (s_proto s)) then false
  else if negb (local_ok cfg_local s) then false
  else if nonempty cfg_remotes then mem (s_remote s) cfg_remotes
  else true.

(* stream/api/accept NewController: every entry of remote_peer_ids goes through
   peer.IDB58Decode (decode_peer: None = error; the empty/blank string is an error);
   the first failure makes construction fail.  Nothing is dropped. *)
Fixpoint accept_parse_remotes (decode_peer : bytes -> option bytes) (l : list bytes) : outcome (list bytes) :=
  match l with
  | [] => Ok []
  | x :: l' =>
      match decode_peer x with
      | None => Err 1%nat
      | Some p => r <- accept_parse_remotes decode_peer l' ;; Ok (p :: r)
      end
  end.

(* construction + decision from the RAW configuration: 0 declined, 1 offered, 2 construction fails *)
Definition accept_from_config (decode_peer : bytes -> option bytes)
           (cfg_proto cfg_local : bytes) (remote_strs : list bytes) (s : stream) : nat :=
  match accept_parse_remotes decode_peer remote_strs with
  | Ok rs => if accept_offers (AcceptCfg cfg_proto cfg_local rs) s then 1%nat else 0%nat
  | _ => 2%nat
  end.

(* stream/srpc/server: list of protocol ids; the peer filter is a list of
   *strings* compared with String() of the stream's local peer id, which the
   case carries as local_str. *)
Fixpoint any_eq (x : bytes) (l : list bytes) (acc : bool) : bool :=
  match l with
  | [] => acc
  | y :: l' => any_eq x l' (if bytes_eqb y x then true else acc)
  end.

Definition srpc_offers (c : srpc_cfg) (s : stream) (local_str : bytes) : bool :=
  let cfg_protos := sr_protos c in let cfg_peer_strs := sr_peer_strs c in
  if negb (mem (s_proto s) cfg_protos) then false
  else if nonempty cfg_peer_strs then any_eq local_str cfg_peer_strs false
  else true.

(* pubsub/controller: protocol only *)
Definition pubsub_offers (c : pubsub_cfg) (s : stream) : bool :=
  let cfg_proto := pb_proto c in
  if negb (bytes_eqb (s_proto s) cfg_proto) then false else true.

(* link/solicit/controller: the control protocol, or "solicit:" ++ hash *)
Inductive solicit_kind := SNone | SControl | SSolicited (hash_hex : bytes).

Definition solicit_offers (c : solicit_cfg) (s : stream) : outcome solicit_kind :=
  let pid := s_proto s in
  if bytes_eqb pid solicit_control_protocol_id then Ok SControl
  else if has_prefix pid solicit_stream_prefix_h then
    (h <- drop_len solicit_stream_prefix_h pid ;; Ok (SSolicited h))
  else Ok SNone.
