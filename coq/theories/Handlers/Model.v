(* C34: the accept/decline decision of every HandleMountedStream handler, one
   boolean function per controller, transcribed from the filter at the top of
   each resolveHandleMountedStream / handleMountedStream.
   A stream is (protocol id, local peer id, remote peer id); peer ids are the
   raw bytes of peer.ID, "" is the empty peer id. *)
From Bifrost Require Import Lib.Base Lib.StrOps gen.Handlers.

Record stream := St { s_proto : bytes; s_local : bytes; s_remote : bytes }.

(* the `if localPeerID != "" { if lid != localPeerID { return nil } }` block *)
Definition local_ok (cfg_local : bytes) (s : stream) : bool :=
  if nonempty cfg_local then bytes_eqb (s_local s) cfg_local else true.

(* stream/echo: NewController replaces an empty conf.ProtocolId by
   DefaultProtocolID, the filter then reads conf.GetProtocolId(). *)
Definition echo_effective_proto (cfg_proto : bytes) : bytes :=
  if nonempty cfg_proto then cfg_proto else echo_default_protocol_id.

Definition echo_offers (cfg_proto cfg_local : bytes) (s : stream) : bool :=
  let p := echo_effective_proto cfg_proto in
  if nonempty p && negb (bytes_eqb p (s_proto s)) then false
  else local_ok cfg_local s.

(* stream/forwarding: an empty configured protocol id is "no protocol filter". *)
Definition forwarding_offers (cfg_proto cfg_local : bytes) (s : stream) : bool :=
  if nonempty cfg_proto && negb (bytes_eqb cfg_proto (s_proto s)) then false
  else local_ok cfg_local s.

(* stream/relay: protocol and source (local) peer both compared unconditionally *)
Definition relay_offers (cfg_proto cfg_src : bytes) (s : stream) : bool :=
  if negb (bytes_eqb cfg_proto (s_proto s)) || negb (bytes_eqb cfg_src (s_local s)) then false
  else true.

(* stream/api/accept: protocol, optional local peer, optional remote peer list *)
Definition accept_offers (cfg_proto cfg_local : bytes) (cfg_remotes : list bytes) (s : stream) : bool :=
  if negb (bytes_eqb cfg_proto (s_proto s)) then false
  else if negb (local_ok cfg_local s) then false
  else if nonempty cfg_remotes then mem (s_remote s) cfg_remotes
  else true.

(* stream/srpc/server: list of protocol ids; the peer filter is a list of
   *strings* compared with String() of the stream's local peer id, which the
   case carries as local_str. *)
Fixpoint any_eq (x : bytes) (l : list bytes) (acc : bool) : bool :=
  match l with
  | [] => acc
  | y :: l' => any_eq x l' (if bytes_eqb y x then true else acc)
  end.

Definition srpc_offers (cfg_protos cfg_peer_strs : list bytes) (s : stream) (local_str : bytes) : bool :=
  if negb (mem (s_proto s) cfg_protos) then false
  else if nonempty cfg_peer_strs then any_eq local_str cfg_peer_strs false
  else true.

(* pubsub/controller: protocol only *)
Definition pubsub_offers (cfg_proto : bytes) (s : stream) : bool :=
  if negb (bytes_eqb (s_proto s) cfg_proto) then false else true.

(* link/solicit/controller: the control protocol, or "solicit:" ++ hash *)
Inductive solicit_kind := SNone | SControl | SSolicited (hash_hex : bytes).

Definition solicit_offers (s : stream) : outcome solicit_kind :=
  let pid := s_proto s in
  if bytes_eqb pid solicit_control_protocol_id then Ok SControl
  else if has_prefix pid solicit_stream_prefix_h then
    (h <- drop_len solicit_stream_prefix_h pid ;; Ok (SSolicited h))
  else Ok SNone.
