(* C38 correspondence. Stdlib / third-party results (time, timestamppb, peer-id decoding)
   travel in the case as oracle values for exactly the strings the wrapper hands to them. *)
From Bifrost Require Export Lib.Base Lib.Lex Lib.StrOps Lib.Utf8 Conf.Model.

Definition outcome_eqb {A} (eqb : A -> A -> bool) (a b : outcome A) : bool :=
  match a, b with
  | Ok x, Ok y => eqb x y
  | Err j, Err k => Nat.eqb j k
  | Panic, Panic => true
  | _, _ => false
  end.

Definition ts_eqb (a b : ts) : bool := (fst a =? fst b) && (snd a =? snd b).

Fixpoint assoc_opt (tbl : list (bytes * option bytes)) (k : bytes) : option bytes :=
  match tbl with
  | [] => None
  | (k', v) :: t => if bytes_eqb k k' then v else assoc_opt t k
  end.
Fixpoint assoc_has (tbl : list (bytes * option bytes)) (k : bytes) : bool :=
  match tbl with
  | [] => false
  | (k', _) :: t => bytes_eqb k k' || assoc_has t k
  end.

Definition kv_eqb (a b : bytes * list bytes) : bool :=
  bytes_eqb (fst a) (fst b) && list_eqb bytes_eqb (snd a) (snd b).

(* every token the model decodes must be in the oracle table the harness recorded *)
Definition tokens_known (tbl : list (bytes * option bytes)) (es : list bytes) : bool :=
  forallb (fun e => match cut static_sep e with
                    | Some (a, b) =>
                        if contains_byte static_inner_sep (trim_space b) then assoc_has tbl (trim_space a) else true
                    | None => true
                    end) es.

Inductive c38_case :=
| Utf (s : bytes) (obs : bool)                                  (* utf8.ValidString *)
| Pid (s : bytes) (allow_empty : bool) (obs : outcome bytes)      (* confparse.ParseProtocolID *)
| Pids (l : list bytes) (allow_empty unique : bool) (obs : outcome (list bytes))
| Tpt (s : bytes) (obs : outcome (bytes * bytes))                (* tptaddr.ParseTptAddr *)
| Trim (s obs : bytes)                                           (* strings.TrimSpace *)
| AddrMap (entries : list bytes) (oracle : list (bytes * option bytes))
          (obs_map : list (bytes * list bytes)) (obs_errs : nat) (* keys in insertion order of first use *)
| Dur (s : bytes) (oracle : outcome Z) (obs : outcome Z)         (* confparse.ParseDuration *)
| DurM (d : Z) (ignore_empty : bool) (oracle_fmt obs : bytes)     (* confparse.MarshalDuration *)
| Ts (s : bytes) (oracle_quoted oracle_raw : option ts) (obs : outcome (option ts))
| Wrap (s : bytes) (oracle_ok : bool) (obs_class : nat).         (* ParseURL/ParseRegexp/ParsePeerID: 0 nil/zero, 1 value, 2 error, 3 panic *)

Definition pair_eqb (a b : bytes * bytes) : bool := bytes_eqb (fst a) (fst b) && bytes_eqb (snd a) (snd b).

Notation "x |> f" := (f x) (at level 70, only parsing).

Definition c38_agree (c : c38_case) : bool :=
  match c with
  | Utf s o => Bool.eqb (utf8_valid s) o
  | Pid s ae o => outcome_eqb bytes_eqb (parse_protocol_id s ae) o
  | Pids l ae u o =>
      outcome_eqb (list_eqb bytes_eqb)
                  (if u then parse_protocol_ids_unique l ae else parse_protocol_ids l ae) o
  | Tpt s o => outcome_eqb pair_eqb (parse_tpt_addr s) o
  | Trim s o => bytes_eqb (trim_space s) o
  | AddrMap es tbl om oe =>
      tokens_known tbl es &&
      (let '(m, errs) := parse_peer_address_map (assoc_opt tbl) es in
       list_eqb kv_eqb m om && Nat.eqb errs oe)
  | Dur s orc o => outcome_eqb Z.eqb (parse_or_zero (fun _ => orc) 0 s) o
  | DurM d ie f o => bytes_eqb (marshal_duration (fun _ => f) d ie) o
  | Ts s oq orw o =>
      (* the quoted string differs from the raw one; the oracle answers by position *)
      outcome_eqb (option_eqb ts_eqb)
        (parse_timestamp (fun x => 0 :: x) (fun x => match x with 0 :: _ => oq | _ => orw end) (1 :: s)
         |> fun r => if negb (nonempty s) then Ok None else r) o
  | Wrap s ok cls =>
      Nat.eqb cls (if negb (nonempty s) then 0 else if ok then 1 else 2)
  end.
