(* C38 model: protocol.ID.Validate / confparse.ParseProtocolID*, tptaddr.ParseTptAddr,
   tptaddr/static ParsePeerAddressMap, and the confparse wrappers around stdlib
   parsers (durations, timestamps, urls, regexps, peer ids), the stdlib parts being
   oracle functions. *)
From Bifrost Require Import Lib.Base Lib.Lex Lib.StrOps Lib.Utf8 gen.Conf.

Definition E_EMPTY : nat := 1%nat.      (* ErrEmptyProtocolID / empty value *)
Definition E_INVALID : nat := 2%nat.    (* ErrInvalidProtocolID / malformed *)

(* one-byte separators regenerated from source *)
Definition sep_of (l : bytes) : Z := match l with [c] => c | _ => -1 end.
Definition tpt_sep : Z := sep_of tpt_addr_delimiter.
Definition static_sep : Z := sep_of static_addr_separator.
Definition static_inner_sep : Z := sep_of static_addr_inner_separator.

(* ---- protocol/id.go ---- *)
Definition protocol_validate (s : bytes) : outcome unit :=
  if negb (nonempty s) then Err E_EMPTY
  else if negb (utf8_valid s) then Err E_INVALID
  else Ok tt.

(* confparse.ParseProtocolID *)
Definition parse_protocol_id (s : bytes) (allow_empty : bool) : outcome bytes :=
  if allow_empty && negb (nonempty s) then Ok []
  else (_ <- protocol_validate s ;; Ok s).

(* confparse.ParseProtocolIDs: first error wins *)
Fixpoint parse_protocol_ids (l : list bytes) (allow_empty : bool) : outcome (list bytes) :=
  match l with
  | [] => Ok []
  | s :: l' => p <- parse_protocol_id s allow_empty ;; r <- parse_protocol_ids l' allow_empty ;; Ok (p :: r)
  end.

(* confparse.ParseProtocolIDsUnique: keeps the first occurrence *)
Fixpoint parse_protocol_ids_unique_from (seen : list bytes) (l : list bytes) (allow_empty : bool)
  : outcome (list bytes) :=
  match l with
  | [] => Ok []
  | s :: l' =>
      p <- parse_protocol_id s allow_empty ;;
      if mem p seen then parse_protocol_ids_unique_from seen l' allow_empty
      else (r <- parse_protocol_ids_unique_from (p :: seen) l' allow_empty ;; Ok (p :: r))
  end.
Definition parse_protocol_ids_unique l ae := parse_protocol_ids_unique_from [] l ae.

(* ---- tptaddr.ParseTptAddr ---- *)
Definition parse_tpt_addr (s : bytes) : outcome (bytes * bytes) :=
  match cut tpt_sep s with
  | Some (tid, addr) => if nonempty tid && nonempty addr then Ok (tid, addr) else Err E_INVALID
  | None => Err E_INVALID
  end.
Definition format_tpt_addr (tid addr : bytes) : bytes := tid ++ tpt_sep :: addr.

(* ---- strings.TrimSpace: Unicode White_Space, as UTF-8 byte patterns ---- *)
Definition ascii_space (c : Z) : bool :=
  (c =? 9) || (c =? 10) || (c =? 11) || (c =? 12) || (c =? 13) || (c =? 32).
(* U+0085, U+00A0 *)
Definition space2 (c0 c1 : Z) : bool := (c0 =? 194) && ((c1 =? 133) || (c1 =? 160)).
(* U+1680, U+2000..U+200A, U+2028, U+2029, U+202F, U+205F, U+3000 *)
Definition space3 (c0 c1 c2 : Z) : bool :=
  ((c0 =? 225) && (c1 =? 154) && (c2 =? 128))
  || ((c0 =? 226) && (c1 =? 128) && (((128 <=? c2) && (c2 <=? 138)) || (c2 =? 168) || (c2 =? 169) || (c2 =? 175)))
  || ((c0 =? 226) && (c1 =? 129) && (c2 =? 159))
  || ((c0 =? 227) && (c1 =? 128) && (c2 =? 128)).

Fixpoint trim_left (s : bytes) : bytes :=
  match s with
  | [] => []
  | c :: r =>
      if ascii_space c then trim_left r
      else match r with
           | [] => s
           | c1 :: r1 =>
               if space2 c c1 then trim_left r1
               else match r1 with
                    | [] => s
                    | c2 :: r2 => if space3 c c1 c2 then trim_left r2 else s
                    end
           end
  end.

(* the same on the reversed string (patterns reversed) *)
Fixpoint trim_left_rev (s : bytes) : bytes :=
  match s with
  | [] => []
  | c :: r =>
      if ascii_space c then trim_left_rev r
      else match r with
           | [] => s
           | c1 :: r1 =>
               if space2 c1 c then trim_left_rev r1
               else match r1 with
                    | [] => s
                    | c2 :: r2 => if space3 c2 c1 c then trim_left_rev r2 else s
                    end
           end
  end.

Definition trim_space (s : bytes) : bytes := rev (trim_left_rev (rev (trim_left s))).

(* ---- sort.Strings + slices.Compact ---- *)
Fixpoint insert_sorted (x : bytes) (l : list bytes) : list bytes :=
  match l with
  | [] => [x]
  | y :: l' => if lex_gt x y then y :: insert_sorted x l' else x :: y :: l'
  end.
Fixpoint isort (l : list bytes) : list bytes :=
  match l with
  | [] => []
  | x :: l' => insert_sorted x (isort l')
  end.
Fixpoint compact (l : list bytes) : list bytes :=
  match l with
  | [] => []
  | x :: l' =>
      match l' with
      | [] => [x]
      | y :: _ => if bytes_eqb x y then compact l' else x :: compact l'
      end
  end.

(* ---- tptaddr/static ParsePeerAddressMap ---- *)
Section AddressMap.
  (* peer.IDB58Decode followed by String(): None = decode error *)
  Variable decode_peer : bytes -> option bytes.

  (* one entry: Some (peer string, address) or None = an error is recorded *)
  Definition parse_entry (e : bytes) : option (bytes * bytes) :=
    let '(peer_str, addr, found) :=
        match cut static_sep e with
        | Some (a, b) => (a, b, true)
        | None => (e, [], false)
        end in
    let addr := trim_space addr in
    if negb found || negb (contains_byte static_inner_sep addr) then None
    else match decode_peer (trim_space peer_str) with
         | None => None
         | Some pid => Some (pid, addr)
         end.

  (* peers[pidString] = append(peers[pidString], tptaddr) on an insertion-ordered map *)
  Fixpoint map_add (m : list (bytes * list bytes)) (k v : bytes) : list (bytes * list bytes) :=
    match m with
    | [] => [(k, [v])]
    | (k', vs) :: m' => if bytes_eqb k k' then (k', vs ++ [v]) :: m' else (k', vs) :: map_add m' k v
    end.

  Fixpoint collect (m : list (bytes * list bytes)) (errs : nat) (es : list bytes)
    : list (bytes * list bytes) * nat :=
    match es with
    | [] => (m, errs)
    | e :: es' =>
        match parse_entry e with
        | None => collect m (S errs) es'
        | Some (k, v) => collect (map_add m k v) errs es'
        end
    end.

  Definition parse_peer_address_map (es : list bytes) : list (bytes * list bytes) * nat :=
    let '(m, errs) := collect [] 0%nat es in
    (map (fun kv => (fst kv, compact (isort (snd kv)))) m, errs).
End AddressMap.

Fixpoint map_get (m : list (bytes * list bytes)) (k : bytes) : list bytes :=
  match m with
  | [] => []
  | (k', vs) :: m' => if bytes_eqb k k' then vs else map_get m' k
  end.

(* ---- confparse wrappers around stdlib parsers: the stdlib part is an oracle ---- *)
Section Wrappers.
  Context {T : Type}.
  Variable std_parse : bytes -> outcome T.

  (* ParseDuration / ParseURL / ParseRegexp / ParsePeerID: "" is the zero value, else the stdlib parser *)
  Definition parse_or_zero (zero : T) (s : bytes) : outcome T :=
    if negb (nonempty s) then Ok zero else std_parse s.
End Wrappers.

(* MarshalDuration(dur, ignoreEmpty) *)
Definition marshal_duration (fmt : Z -> bytes) (d : Z) (ignore_empty : bool) : bytes :=
  if (d =? 0) && negb ignore_empty then [] else fmt d.

(* ParseTimestamp: "" -> nil; UnmarshalJSON(quote(s)), on failure UnmarshalJSON(s); then CheckValid.
   A timestamp is (seconds, nanos). *)
Definition ts := (Z * Z)%type.
(* timestamppb CheckValid: years 0001..9999 and normalised nanos *)
Definition ts_check_valid (t : ts) : bool :=
  (-62135596800 <=? fst t) && (fst t <? 253402300800) && (0 <=? snd t) && (snd t <? 1000000000).

Definition parse_timestamp (quote : bytes -> bytes) (ujson : bytes -> option ts) (s : bytes)
  : outcome (option ts) :=
  if negb (nonempty s) then Ok None
  else
    let parsed := match ujson (quote s) with
                  | Some t => Some t
                  | None => ujson s
                  end in
    match parsed with
    | None => Err E_INVALID
    | Some t => if ts_check_valid t then Ok (Some t) else Err E_INVALID   (* ts.CheckValid() *)
    end.
(* MarshalTimestamp: nil -> "", else AsTime().Format(layout) *)
Definition marshal_timestamp (fmt : ts -> bytes) (t : option ts) : bytes :=
  match t with None => [] | Some x => fmt x end.

(* the layout MarshalTimestamp uses must keep sub-second digits *)
Definition layout_keeps_nanos : bool :=
  bytes_eqb timestamp_layout [82;70;67;51;51;51;57;78;97;110;111].   (* "RFC3339Nano" *)
