(* C38 proofs. *)
From Bifrost Require Import Lib.Base Lib.Lex Lib.StrOps Lib.Utf8 gen.Conf Conf.Model.

(* ---- protocol ids ---- *)
Lemma protocol_validate_spec s : protocol_validate s = Ok tt <-> s <> [] /\ utf8 s.
Proof.
  unfold protocol_validate. destruct s as [|c s]; cbn [nonempty negb].
  - split; [discriminate|intros [H _]; contradiction].
  - destruct (utf8_valid (c :: s)) eqn:E; cbn [negb].
    + apply utf8_valid_spec in E. split; [intros _; split; [discriminate|exact E]|reflexivity].
    + split; [discriminate|]. intros [_ H]. apply utf8_valid_spec in H. congruence.
Qed.

Lemma parse_protocol_id_spec s s' :
  parse_protocol_id s false = Ok s' <-> s' = s /\ s <> [] /\ utf8 s.
Proof.
  unfold parse_protocol_id. cbn [andb].
  destruct (protocol_validate s) as [[]|k|] eqn:E; cbn [obind].
  - apply protocol_validate_spec in E. split.
    + intros H; inversion H; subst. split; [reflexivity|exact E].
    + intros [-> _]; reflexivity.
  - split; [discriminate|]. intros [_ H]. apply protocol_validate_spec in H. congruence.
  - split; [discriminate|]. intros [_ H]. apply protocol_validate_spec in H. congruence.
Qed.

Lemma parse_protocol_id_allow_empty s s' :
  parse_protocol_id s true = Ok s' <-> s' = s /\ (s = [] \/ utf8 s).
Proof.
  unfold parse_protocol_id. cbn [andb]. destruct s as [|c s]; cbn [nonempty negb].
  - split; [intros H; inversion H; auto|intros [-> _]; reflexivity].
  - change (match protocol_validate (c :: s) with Ok _ => Ok (c :: s) | Err k => Err k | Panic => Panic end = Ok s'
            <-> s' = c :: s /\ (c :: s = [] \/ utf8 (c :: s))).
    destruct (protocol_validate (c :: s)) as [[]|k|] eqn:E.
    + apply protocol_validate_spec in E. split; [intros H; inversion H; split; [reflexivity|right; apply E]|intros [-> _]; reflexivity].
    + split; [discriminate|]. intros [_ [H|H]]; [discriminate|].
      assert (protocol_validate (c :: s) = Ok tt) by (apply protocol_validate_spec; split; [discriminate|exact H]). congruence.
    + split; [discriminate|]. intros [_ [H|H]]; [discriminate|].
      assert (protocol_validate (c :: s) = Ok tt) by (apply protocol_validate_spec; split; [discriminate|exact H]). congruence.
Qed.

Lemma parse_protocol_id_total s ae : parse_protocol_id s ae <> Panic.
Proof.
  unfold parse_protocol_id, protocol_validate.
  destruct (ae && negb (nonempty s)); [discriminate|].
  destruct (negb (nonempty s)); [discriminate|]. destruct (negb (utf8_valid s)); discriminate.
Qed.

(* formatting a protocol id is the identity on its bytes: parsing the result again gives the same id *)
Lemma parse_protocol_id_roundtrip s ae p : parse_protocol_id s ae = Ok p -> parse_protocol_id p ae = Ok p.
Proof.
  destruct ae.
  - intros H. pose proof H as H'. apply parse_protocol_id_allow_empty in H as [-> _]. exact H'.
  - intros H. pose proof H as H'. apply parse_protocol_id_spec in H as [-> _]. exact H'.
Qed.

Lemma parse_protocol_ids_spec l r :
  parse_protocol_ids l false = Ok r <-> r = l /\ forall s, In s l -> s <> [] /\ utf8 s.
Proof.
  revert r; induction l as [|s l IH]; intros r; cbn [parse_protocol_ids].
  - split; [intros H; inversion H; split; [reflexivity|intros ? []]|intros [-> _]; reflexivity].
  - destruct (parse_protocol_id s false) as [p|k|] eqn:E; cbn [obind].
    + apply parse_protocol_id_spec in E as [-> E].
      destruct (parse_protocol_ids l false) as [r'|k|] eqn:E2; cbn [obind].
      * destruct (proj1 (IH r') eq_refl) as [-> Hall]. split.
        -- intros H; inversion H; subst. split; [reflexivity|]. intros x [<-|Hx]; auto.
        -- intros [-> _]. reflexivity.
      * split; [discriminate|]. intros [-> Hall].
        assert (@Err (list bytes) k = Ok l) as X; [|discriminate].
        apply IH. split; [reflexivity|]. intros x Hx; apply Hall; right; exact Hx.
      * split; [discriminate|]. intros [-> Hall].
        assert (@Panic (list bytes) = Ok l) as X; [|discriminate].
        apply IH. split; [reflexivity|]. intros x Hx; apply Hall; right; exact Hx.
    + split; [discriminate|]. intros [_ Hall].
      assert (parse_protocol_id s false = Ok s) as X by (apply parse_protocol_id_spec; split; [reflexivity|apply Hall; left; reflexivity]).
      congruence.
    + split; [discriminate|]. intros [_ Hall].
      assert (parse_protocol_id s false = Ok s) as X by (apply parse_protocol_id_spec; split; [reflexivity|apply Hall; left; reflexivity]).
      congruence.
Qed.

(* ---- transport addresses ---- *)
Lemma tpt_sep_is_byte : tpt_addr_delimiter = [tpt_sep] /\ static_addr_separator = [static_sep]
                        /\ static_addr_inner_separator = [static_inner_sep].
Proof. repeat split; reflexivity. Qed.

Lemma parse_tpt_addr_spec s t a :
  parse_tpt_addr s = Ok (t, a) <-> s = t ++ tpt_sep :: a /\ ~ In tpt_sep t /\ t <> [] /\ a <> [].
Proof.
  unfold parse_tpt_addr. destruct (cut tpt_sep s) as [[t' a']|] eqn:E.
  - apply cut_some in E as [-> Hn].
    destruct (nonempty t') eqn:N1; destruct (nonempty a') eqn:N2; cbn [andb].
    + apply nonempty_true in N1. apply nonempty_true in N2. split.
      * intros H; inversion H; subst. auto.
      * intros [H [Hn' _]]. f_equal.
        assert (cut tpt_sep (t' ++ tpt_sep :: a') = Some (t, a)) as X by (apply cut_some; split; auto).
        assert (cut tpt_sep (t' ++ tpt_sep :: a') = Some (t', a')) as Y by (apply cut_some; split; auto).
        rewrite X in Y. inversion Y; reflexivity.
    + apply nonempty_false in N2. split; [discriminate|]. intros [H [Hn' [_ Ha]]].
      assert (cut tpt_sep (t' ++ tpt_sep :: a') = Some (t, a)) as X by (apply cut_some; split; auto).
      assert (cut tpt_sep (t' ++ tpt_sep :: a') = Some (t', a')) as Y by (apply cut_some; split; auto).
      rewrite X in Y. inversion Y; subst. contradiction.
    + apply nonempty_false in N1. split; [discriminate|]. intros [H [Hn' [Ht _]]].
      assert (cut tpt_sep (t' ++ tpt_sep :: a') = Some (t, a)) as X by (apply cut_some; split; auto).
      assert (cut tpt_sep (t' ++ tpt_sep :: a') = Some (t', a')) as Y by (apply cut_some; split; auto).
      rewrite X in Y. inversion Y; subst. contradiction.
    + apply nonempty_false in N1. split; [discriminate|]. intros [H [Hn' [Ht _]]].
      assert (cut tpt_sep (t' ++ tpt_sep :: a') = Some (t, a)) as X by (apply cut_some; split; auto).
      assert (cut tpt_sep (t' ++ tpt_sep :: a') = Some (t', a')) as Y by (apply cut_some; split; auto).
      rewrite X in Y. inversion Y; subst. contradiction.
  - split; [discriminate|]. intros [H [Hn _]].
    assert (cut tpt_sep s = Some (t, a)) as X by (apply cut_some; split; auto). congruence.
Qed.

Lemma parse_tpt_addr_roundtrip s t a :
  parse_tpt_addr s = Ok (t, a) -> parse_tpt_addr (format_tpt_addr t a) = Ok (t, a) /\ format_tpt_addr t a = s.
Proof.
  intros H. apply parse_tpt_addr_spec in H as [-> [Hn [Ht Ha]]]. split; [|reflexivity].
  apply parse_tpt_addr_spec. unfold format_tpt_addr. auto.
Qed.

Lemma parse_tpt_addr_total s : parse_tpt_addr s <> Panic.
Proof.
  unfold parse_tpt_addr. destruct (cut tpt_sep s) as [[t a]|]; [|discriminate].
  destruct (nonempty t && nonempty a); discriminate.
Qed.

(* ---- sort + compact ---- *)
Lemma insert_sorted_in x l y : In y (insert_sorted x l) <-> y = x \/ In y l.
Proof.
  induction l as [|z l IH]; cbn [insert_sorted].
  - cbn. intuition.
  - destruct (lex_gt x z); cbn [In]; [rewrite IH|]; intuition.
Qed.

Lemma isort_in l y : In y (isort l) <-> In y l.
Proof.
  induction l as [|x l IH]; cbn [isort]; [tauto|]. rewrite insert_sorted_in, IH. cbn. intuition.
Qed.

Lemma insert_sorted_sorted x l : lex_sorted l -> lex_sorted (insert_sorted x l).
Proof.
  induction l as [|z l IH]; intros H; cbn [insert_sorted].
  - cbn. split; [intros ? []|exact I].
  - destruct H as [Hz Hl]. destruct (lex_gt x z) eqn:E.
    + cbn [lex_sorted]. split; [|apply IH; exact Hl].
      intros y Hy. apply insert_sorted_in in Hy as [->|Hy]; [|apply Hz; exact Hy].
      unfold lex_gt in E. rewrite (lex_cmp_antisym x z). destruct (lex_cmp x z); cbn; congruence.
    + cbn [lex_sorted]. split; [|split; assumption].
      assert (lex_cmp x z <> Gt) as Hxz by (unfold lex_gt in E; destruct (lex_cmp x z); congruence).
      intros y [<-|Hy]; [exact Hxz|]. eapply lex_cmp_trans_le; [exact Hxz|apply Hz; exact Hy].
Qed.

Lemma isort_sorted l : lex_sorted (isort l).
Proof. induction l as [|x l IH]; cbn [isort]; [exact I|apply insert_sorted_sorted; exact IH]. Qed.

Lemma compact_in l y : In y (compact l) <-> In y l.
Proof.
  induction l as [|x l IH]; [tauto|]. cbn [compact].
  destruct l as [|z l']; [tauto|].
  destruct (bytes_eqb x z) eqn:E.
  - apply bytes_eqb_spec in E. subst. rewrite IH. cbn. intuition.
  - cbn [In]. rewrite IH. cbn. intuition.
Qed.

Fixpoint lex_strict (l : list bytes) : Prop :=
  match l with
  | [] => True
  | x :: l' => (forall y, In y l' -> lex_cmp x y = Lt) /\ lex_strict l'
  end.

Lemma lex_le_antisym x y : lex_cmp x y <> Gt -> lex_cmp y x <> Gt -> x = y.
Proof.
  intros H1 H2. rewrite (lex_cmp_antisym x y) in H2.
  destruct (lex_cmp x y) eqn:E; cbn in H2; try congruence. apply lex_cmp_eq; exact E.
Qed.

Lemma compact_strict l : lex_sorted l -> lex_strict (compact l).
Proof.
  induction l as [|x l IH]; intros H; [exact I|]. cbn [compact].
  destruct l as [|z l']; [cbn; split; [intros ? []|exact I]|].
  destruct H as [Hx Hl]. destruct (bytes_eqb x z) eqn:E; [apply IH; exact Hl|].
  cbn [lex_strict]. split; [|apply IH; exact Hl].
  intros y Hy. apply (proj1 (compact_in _ _)) in Hy.
  destruct (lex_cmp x y) eqn:C; [|reflexivity|exfalso; apply (Hx y Hy); exact C].
  exfalso. apply lex_cmp_eq in C. subst y.
  assert (x = z) as X.
  { apply lex_le_antisym; [apply Hx; left; reflexivity|].
    destruct Hy as [->|Hy]; [rewrite lex_cmp_refl; discriminate|]. destruct Hl as [Hz _]. apply Hz; exact Hy. }
  subst. rewrite bytes_eqb_refl in E. discriminate.
Qed.

Lemma lex_strict_nodup l : lex_strict l -> NoDup l.
Proof.
  induction l as [|x l IH]; intros H; constructor.
  - destruct H as [Hx _]. intros Hin. specialize (Hx x Hin). rewrite lex_cmp_refl in Hx. discriminate.
  - apply IH. apply H.
Qed.

(* sorted, duplicate free, exactly the given elements *)
Lemma sort_compact_spec l :
  lex_strict (compact (isort l)) /\ NoDup (compact (isort l)) /\ forall a, In a (compact (isort l)) <-> In a l.
Proof.
  pose proof (compact_strict _ (isort_sorted l)) as S.
  split; [exact S|]. split; [apply lex_strict_nodup; exact S|].
  intros a. rewrite compact_in, isort_in. tauto.
Qed.

(* ---- the address map ---- *)
Section AddressMap.
  Variable decode_peer : bytes -> option bytes.

  Definition entry_pairs (e : bytes) : list (bytes * bytes) :=
    match parse_entry decode_peer e with Some p => [p] | None => [] end.
  Definition pairs (es : list bytes) : list (bytes * bytes) := flat_map entry_pairs es.
  (* the addresses given for peer k, in order *)
  Definition given (es : list bytes) (k : bytes) : list bytes :=
    map snd (filter (fun p => bytes_eqb k (fst p)) (pairs es)).
  Definition bad_entries (es : list bytes) : nat :=
    length (filter (fun e => match parse_entry decode_peer e with None => true | Some _ => false end) es).

  Lemma parse_entry_spec e pid addr :
    parse_entry decode_peer e = Some (pid, addr) <->
    exists a b, e = a ++ static_sep :: b /\ ~ In static_sep a /\ addr = trim_space b /\
                In static_inner_sep addr /\ decode_peer (trim_space a) = Some pid.
  Proof.
    unfold parse_entry. destruct (cut static_sep e) as [[a b]|] eqn:E.
    - apply cut_some in E as [-> Hn]. cbn [negb orb].
      destruct (contains_byte static_inner_sep (trim_space b)) eqn:C; cbn [negb].
      + apply contains_byte_spec in C.
        destruct (decode_peer (trim_space a)) as [p|] eqn:D.
        * split.
          -- intros H; inversion H; subst. exists a, b. auto.
          -- intros [a' [b' [H [Hn' [-> [_ D']]]]]].
             assert (cut static_sep (a ++ static_sep :: b) = Some (a', b')) as X by (apply cut_some; auto).
             assert (cut static_sep (a ++ static_sep :: b) = Some (a, b)) as Y by (apply cut_some; auto).
             rewrite X in Y. inversion Y; subst. rewrite D in D'. inversion D'; reflexivity.
        * split; [discriminate|]. intros [a' [b' [H [Hn' [-> [_ D']]]]]].
          assert (cut static_sep (a ++ static_sep :: b) = Some (a', b')) as X by (apply cut_some; auto).
          assert (cut static_sep (a ++ static_sep :: b) = Some (a, b)) as Y by (apply cut_some; auto).
          rewrite X in Y. inversion Y; subst. congruence.
      + split; [discriminate|]. intros [a' [b' [H [Hn' [-> [C' _]]]]]].
        assert (cut static_sep (a ++ static_sep :: b) = Some (a', b')) as X by (apply cut_some; auto).
        assert (cut static_sep (a ++ static_sep :: b) = Some (a, b)) as Y by (apply cut_some; auto).
        rewrite X in Y. inversion Y; subst. apply contains_byte_spec in C'. congruence.
    - cbn [negb orb]. split; [discriminate|]. intros [a' [b' [H [Hn' _]]]].
      assert (cut static_sep e = Some (a', b')) as X by (apply cut_some; auto). congruence.
  Qed.

  Lemma map_get_add m k v k' :
    map_get (map_add m k v) k' = if bytes_eqb k' k then map_get m k' ++ [v] else map_get m k'.
  Proof.
    induction m as [|[k0 vs] m IH]; cbn [map_add map_get].
    - destruct (bytes_eqb k' k); reflexivity.
    - destruct (bytes_eqb k k0) eqn:E; cbn [map_get].
      + apply bytes_eqb_spec in E. subst k0. destruct (bytes_eqb k' k); reflexivity.
      + destruct (bytes_eqb k' k0) eqn:E2; [|exact IH].
        apply bytes_eqb_spec in E2. subst k0.
        destruct (bytes_eqb k' k) eqn:E3; [|reflexivity].
        apply bytes_eqb_spec in E3. subst. rewrite bytes_eqb_refl in E. discriminate.
  Qed.

  Lemma keys_add m k v :
    map fst (map_add m k v) = if mem k (map fst m) then map fst m else map fst m ++ [k].
  Proof.
    induction m as [|[k0 vs] m IH]; cbn [map_add map mem existsb fst]; [reflexivity|].
    destruct (bytes_eqb k k0) eqn:E; cbn [map fst orb]; [reflexivity|].
    rewrite IH. unfold mem. destruct (existsb (bytes_eqb k) (map fst m)); reflexivity.
  Qed.

  Lemma memfalse_nodup_snoc (l : list bytes) k : NoDup l -> mem k l = false -> NoDup (l ++ [k]).
  Proof.
    intros ND M. assert (~ In k l) as N by (intros H; apply mem_spec in H; congruence).
    clear M. induction l as [|x l IH]; cbn [app]; [constructor; [intros []|constructor]|].
    inversion ND as [|? ? Hx ND']; subst. constructor.
    - rewrite in_app_iff. intros [H|[H|[]]]; [contradiction|]. subst. apply N. left; reflexivity.
    - apply IH; [exact ND'|]. intros H. apply N. right; exact H.
  Qed.

  Definition add_all (m : list (bytes * list bytes)) (ps : list (bytes * bytes)) :=
    fold_left (fun m p => map_add m (fst p) (snd p)) ps m.

  Lemma collect_spec es : forall m n,
    collect decode_peer m n es = (add_all m (pairs es), (n + bad_entries es)%nat).
  Proof.
    induction es as [|e es IH]; intros m n; cbn [collect pairs flat_map].
    - cbn. f_equal. unfold bad_entries. cbn. lia.
    - unfold entry_pairs at 1, bad_entries. cbn [filter].
      destruct (parse_entry decode_peer e) as [[k v]|] eqn:E.
      + rewrite IH. cbn [app]. unfold add_all. cbn [fold_left fst snd]. reflexivity.
      + rewrite IH. cbn [app length]. f_equal. unfold bad_entries. lia.
  Qed.

  Lemma add_all_get ps : forall m k,
    map_get (add_all m ps) k = map_get m k ++ map snd (filter (fun p => bytes_eqb k (fst p)) ps).
  Proof.
    induction ps as [|[k0 v0] ps IH]; intros m k; cbn [add_all fold_left filter map fst snd].
    - rewrite app_nil_r. reflexivity.
    - fold (add_all (map_add m k0 v0) ps). rewrite IH, map_get_add.
      destruct (bytes_eqb k k0); cbn [map snd]; [rewrite <- app_assoc; reflexivity|reflexivity].
  Qed.

  Lemma add_all_keys ps : forall m,
    NoDup (map fst m) ->
    NoDup (map fst (add_all m ps)) /\
    forall k, In k (map fst (add_all m ps)) <-> In k (map fst m) \/ In k (map fst ps).
  Proof.
    induction ps as [|[k0 v0] ps IH]; intros m ND; cbn [add_all fold_left map fst snd].
    - split; [exact ND|]. intros k. cbn. tauto.
    - fold (add_all (map_add m k0 v0) ps).
      assert (NoDup (map fst (map_add m k0 v0)) /\
              forall k, In k (map fst (map_add m k0 v0)) <-> In k (map fst m) \/ k = k0) as [ND' K'].
      { rewrite keys_add. destruct (mem k0 (map fst m)) eqn:M.
        - apply mem_spec in M. split; [exact ND|]. intros k. split; [auto|intros [H| ->]; auto].
        - split.
          + apply memfalse_nodup_snoc; [exact ND|exact M].
          + intros k. rewrite in_app_iff. cbn. intuition. }
      destruct (IH _ ND') as [ND'' K'']. split; [exact ND''|].
      intros k. rewrite K'', K'. cbn. intuition.
  Qed.
End AddressMap.

Lemma map_get_map_values (f : list bytes -> list bytes) m k :
  f [] = [] ->
  map_get (map (fun kv => (fst kv, f (snd kv))) m) k = f (map_get m k).
Proof.
  intros Hf. induction m as [|[k0 vs] m IH]; cbn [map map_get fst snd]; [symmetry; exact Hf|].
  destruct (bytes_eqb k k0); [reflexivity|exact IH].
Qed.

Lemma map_fst_map_values (f : list bytes -> list bytes) (m : list (bytes * list bytes)) :
  map fst (map (fun kv => (fst kv, f (snd kv))) m) = map fst m.
Proof. induction m as [|[k0 vs] m IH]; cbn; congruence. Qed.

(* the static address list maps each peer to sort+dedup of exactly the addresses given for it *)
Theorem parse_peer_address_map_spec decode_peer es :
  let m := fst (parse_peer_address_map decode_peer es) in
  let errs := snd (parse_peer_address_map decode_peer es) in
  (forall k, map_get m k = compact (isort (given decode_peer es k))) /\
  (forall k, In k (map fst m) <-> given decode_peer es k <> []) /\
  NoDup (map fst m) /\
  errs = bad_entries decode_peer es.
Proof.
  unfold parse_peer_address_map. rewrite collect_spec. cbv beta iota zeta. cbn [fst snd].
  split; [|split; [|split]].
  - intros k. rewrite (map_get_map_values (fun x => compact (isort x))) by reflexivity. rewrite add_all_get. reflexivity.
  - intros k. rewrite (map_fst_map_values (fun x => compact (isort x))).
    destruct (add_all_keys decode_peer (pairs decode_peer es) [] (NoDup_nil _)) as [_ K]. rewrite K. cbn [map In].
    unfold given. split.
    + intros [[]|H]. apply in_map_iff in H as [[k' v] [E Hin]]. cbn in E. subst k'.
      intros X. assert (In v (map snd (filter (fun p => bytes_eqb k (fst p)) (pairs decode_peer es)))) as Y.
      { apply in_map_iff. exists (k, v). split; [reflexivity|]. apply filter_In. split; [exact Hin|apply bytes_eqb_refl]. }
      rewrite X in Y. destruct Y.
    + intros H. right.
      destruct (filter (fun p => bytes_eqb k (fst p)) (pairs decode_peer es)) as [|[k' v] r] eqn:F; [contradiction|].
      assert (In (k', v) (filter (fun p => bytes_eqb k (fst p)) (pairs decode_peer es))) as Hin by (rewrite F; left; reflexivity).
      apply filter_In in Hin as [Hin E]. cbn in E. apply bytes_eqb_spec in E. subst k'.
      apply in_map_iff. exists (k, v). split; [reflexivity|exact Hin].
  - rewrite (map_fst_map_values (fun x => compact (isort x))). apply (add_all_keys decode_peer (pairs decode_peer es) [] (NoDup_nil _)).
  - reflexivity.
Qed.

(* ---- wrappers around stdlib parsers ---- *)
Section WrapperLaws.
  Context {T : Type}.
  Variable std_parse : bytes -> outcome T.
  Variable fmt : T -> bytes.
  Variable zero : T.
  Variable is_zero : T -> bool.
  Hypothesis is_zero_spec : forall t, is_zero t = true <-> t = zero.
  (* the stdlib law: what the parser produced, once formatted, parses back to the same value *)
  Hypothesis std_roundtrip : forall s t, std_parse s = Ok t -> is_zero t = false ->
                                          fmt t <> [] /\ std_parse (fmt t) = Ok t.
  Hypothesis std_total : forall s, std_parse s <> Panic.

  Lemma wrapper_total s : parse_or_zero std_parse zero s <> Panic.
  Proof. unfold parse_or_zero. destruct (negb (nonempty s)); [discriminate|apply std_total]. Qed.

  Lemma wrapper_roundtrip s t :
    parse_or_zero std_parse zero s = Ok t ->
    parse_or_zero std_parse zero (if is_zero t then [] else fmt t) = Ok t.
  Proof.
    intros H. destruct (is_zero t) eqn:Z.
    - apply is_zero_spec in Z. subst. reflexivity.
    - unfold parse_or_zero in H. destruct (nonempty s) eqn:N; cbn [negb] in H.
      + destruct (std_roundtrip s t H Z) as [Hne Hp]. unfold parse_or_zero.
        apply nonempty_true in Hne. rewrite Hne. cbn [negb]. exact Hp.
      + injection H as H1. assert (is_zero zero = true) as X by (apply is_zero_spec; reflexivity).
        rewrite H1 in X. congruence.
  Qed.
End WrapperLaws.

(* durations: time.ParseDuration / Duration.String as oracles *)
Section Duration.
  Variable std_parse : bytes -> outcome Z.
  Variable fmt : Z -> bytes.
  Hypothesis dur_roundtrip : forall d, fmt d <> [] /\ std_parse (fmt d) = Ok d.

  Lemma duration_roundtrip s d ignore_empty :
    parse_or_zero std_parse 0 s = Ok d ->
    parse_or_zero std_parse 0 (marshal_duration fmt d ignore_empty) = Ok d.
  Proof.
    intros _. unfold marshal_duration. destruct ((d =? 0) && negb ignore_empty) eqn:E.
    - apply andb_true_iff in E as [E _]. apply Z.eqb_eq in E. subst. reflexivity.
    - destruct (dur_roundtrip d) as [Hne Hp]. unfold parse_or_zero.
      apply nonempty_true in Hne. rewrite Hne. exact Hp.
  Qed.
End Duration.

(* timestamps: strconv.Quote, timestamppb UnmarshalJSON, Time.Format(layout) as oracles *)
Section Timestamp.
  Variable quote : bytes -> bytes.
  Variable ujson : bytes -> option ts.
  Variable fmt : ts -> bytes.
  (* law of the layout in use: a timestamp the parser produced, formatted and quoted, parses back *)
  Hypothesis ts_roundtrip : forall s t, ujson s = Some t -> ts_check_valid t = true ->
                                        fmt t <> [] /\ ujson (quote (fmt t)) = Some t.

  Lemma timestamp_roundtrip s ot :
    parse_timestamp quote ujson s = Ok ot ->
    parse_timestamp quote ujson (marshal_timestamp fmt ot) = Ok ot.
  Proof.
    unfold parse_timestamp. destruct (nonempty s) eqn:N; cbn [negb].
    - set (parsed := match ujson (quote s) with Some t => Some t | None => ujson s end).
      assert (forall t, parsed = Some t -> exists s', ujson s' = Some t) as Src.
      { unfold parsed. intros t. destruct (ujson (quote s)) eqn:E1; intros H; inversion H; subst; eauto. }
      destruct parsed as [t|]; [|discriminate].
      destruct (ts_check_valid t) eqn:V; [|discriminate].
      intros H; inversion H; subst. cbn [marshal_timestamp].
      destruct (Src t eq_refl) as [s' E].
      destruct (ts_roundtrip _ _ E V) as [Hne Hp]. apply nonempty_true in Hne. rewrite Hne. cbn [negb].
      rewrite Hp, V. reflexivity.
    - intros H; inversion H; subst. reflexivity.
  Qed.

  Lemma timestamp_total s : parse_timestamp quote ujson s <> Panic.
  Proof.
    unfold parse_timestamp. destruct (negb (nonempty s)); [discriminate|].
    destruct (match ujson (quote s) with Some t => Some t | None => ujson s end) as [t|]; [|discriminate].
    destruct (ts_check_valid t); discriminate.
  Qed.

  (* only representable timestamps are ever returned *)
  Lemma timestamp_valid s t : parse_timestamp quote ujson s = Ok (Some t) -> ts_check_valid t = true.
  Proof.
    unfold parse_timestamp. destruct (negb (nonempty s)); [discriminate|].
    destruct (match ujson (quote s) with Some t => Some t | None => ujson s end) as [t'|]; [|discriminate].
    destruct (ts_check_valid t') eqn:V; [|discriminate]. intros H; inversion H; subst; exact V.
  Qed.
End Timestamp.

Lemma layout_keeps_nanos_now : layout_keeps_nanos = true.
Proof. reflexivity. Qed.

Lemma parse_protocol_id_id s ae p : parse_protocol_id s ae = Ok p -> p = s.
Proof.
  destruct ae; intros H.
  - apply parse_protocol_id_allow_empty in H. apply H.
  - apply parse_protocol_id_spec in H. apply H.
Qed.

Lemma unique_from_spec l ae : forall seen r,
  parse_protocol_ids_unique_from seen l ae = Ok r ->
  NoDup r /\ (forall x, In x r <-> In x l /\ ~ In x seen).
Proof.
  induction l as [|s l IH]; intros seen r H; cbn [parse_protocol_ids_unique_from] in H.
  - inversion H; subst. split; [constructor|]. intros x. cbn. tauto.
  - destruct (parse_protocol_id s ae) as [p|k|] eqn:E; cbn [obind] in H; try discriminate.
    apply parse_protocol_id_id in E. subst p.
    destruct (mem s seen) eqn:M.
    + apply mem_spec in M. destruct (IH _ _ H) as [ND K]. split; [exact ND|].
      intros x. rewrite K. cbn. split; [tauto|]. intros [[<-|Hx] Hn]; [contradiction|tauto].
    + assert (~ In s seen) as Ns by (intros X; apply mem_spec in X; congruence).
      destruct (parse_protocol_ids_unique_from (s :: seen) l ae) as [r'|k|] eqn:E2; cbn [obind] in H; try discriminate.
      inversion H; subst. destruct (IH _ _ E2) as [ND K]. split.
      * constructor; [|exact ND]. intros X. apply K in X. apply (proj2 X). left; reflexivity.
      * intros x. cbn [In]. rewrite K. cbn [In]. split.
        -- intros [<-|[Hx Hn]]; [tauto|]. split; [tauto|]. intros X. apply Hn. right; exact X.
        -- intros [[<-|Hx] Hn]; [tauto|]. destruct (list_eq_dec Z.eq_dec s x) as [<-|Ne]; [tauto|].
           right. split; [exact Hx|]. intros [X|X]; [contradiction|contradiction].
Qed.

(* ParseProtocolIDsUnique: duplicate free, exactly the ids given (first occurrence order) *)
Lemma parse_protocol_ids_unique_spec l ae r :
  parse_protocol_ids_unique l ae = Ok r -> NoDup r /\ forall x, In x r <-> In x l.
Proof.
  intros H. destruct (unique_from_spec l ae [] r H) as [ND K]. split; [exact ND|].
  intros x. rewrite K. cbn. tauto.
Qed.
