(* Preservation of the invariant by SessEnd: the cases (side A/B, partner attached or not,
   and for an attached partner the three outcomes of maybeReleasePeer) are proved in PresE_*.v
   so that they build in parallel. *)
From Bifrost Require Import Lib.Base SignalRelay.Model SignalRelay.Inv
  SignalRelay.PresE_ts1 SignalRelay.PresE_ts2 SignalRelay.PresE_ts3 SignalRelay.PresE_tn
  SignalRelay.PresE_fs1 SignalRelay.PresE_fs2 SignalRelay.PresE_fs3 SignalRelay.PresE_fn.
Local Open Scope nat_scope.

Lemma sess_end_inv c cancel st : Inv st -> Inv (sess_end c cancel st).
Proof.
  intros H. destruct (sc_isA (scalls st c)) eqn:Ea.
  - destruct (s_b (ses st (sc_s (scalls st c)))) as [d|] eqn:Ed.
    + assert (Hp : s_b (ses st (sc_s (scalls st c))) <> None) by congruence.
      destruct (t_listening (trk st (sc_dt (scalls st c)))) eqn:El; [apply sess_end_inv_ts1; auto|].
      destruct (is_nil (remove (sc_src (scalls st c)) (t_wants (trk st (sc_dt (scalls st c)))))) eqn:En; [apply sess_end_inv_ts2; auto|apply sess_end_inv_ts3; auto].
    + apply sess_end_inv_tn; auto.
  - destruct (s_a (ses st (sc_s (scalls st c)))) as [d|] eqn:Ed.
    + assert (Hp : s_a (ses st (sc_s (scalls st c))) <> None) by congruence.
      destruct (t_listening (trk st (sc_dt (scalls st c)))) eqn:El; [apply sess_end_inv_fs1; auto|].
      destruct (is_nil (remove (sc_src (scalls st c)) (t_wants (trk st (sc_dt (scalls st c)))))) eqn:En; [apply sess_end_inv_fs2; auto|apply sess_end_inv_fs3; auto].
    + apply sess_end_inv_fn; auto.
Qed.
