(* Correspondence: replay the scripted operations the harness applied to the real
   relay on the model, letting the internal actions (write loops) run to
   quiescence after every scripted operation, and compare what every stream
   received, how every call ended and the sizes/contents of the relay maps. *)
From Bifrost Require Import Lib.Base SignalRelay.Model.
Local Open Scope nat_scope.

(* deterministic choice for the map-iteration nondeterminism of Listen *)
Definition pick (l avoid : list nat) : option nat := find (fun q => negb (memb q avoid)) l.

(* one enabled internal action of listen call c, if any *)
Definition linternal (st : state) (c : nat) : option action :=
  let k := lcalls st c in
  match lc_st k with
  | Running =>
    if lwoken st c then
      let tr := trk st (lc_t k) in
      Some (ListenIter c (pick (t_wants tr) (lc_sent k)) (pick (lc_sent k) (t_wants tr)))
    else None
  | Ending _ => Some (ListenEnd c)
  | _ => None
  end.

Definition sinternal (st : state) (c : nat) : option action :=
  let k := scalls st c in
  match sc_st k with
  | Running =>
    if swoken st c then Some (SessIter c)
    else if is_some (sc_perr k) then Some (SessEnd c false)
    else None
  | Ending _ => Some (SessEnd c false)
  | _ => None
  end.

Fixpoint first_some {A} (f : nat -> option A) (l : list nat) : option A :=
  match l with
  | [] => None
  | c :: l' => match f c with Some a => Some a | None => first_some f l' end
  end.

Definition next_internal (nl ns : nat) (st : state) : option action :=
  match first_some (linternal st) (seq 0 nl) with
  | Some a => Some a
  | None => first_some (sinternal st) (seq 0 ns)
  end.

(* Evaluation strategy only: the state is a record of functions, and every
   update wraps one more closure around them, so lookups get slower with every
   step. `compact` re-tabulates every field on the finite index range a script
   can touch (peer ids < np, allocated trackers/sessions, call ids < nl/ns);
   on that range it is the identity (tab_spec in Proofs.v). *)
Definition tab {A} (n : nat) (d : A) (f : nat -> A) : nat -> A :=
  let t := map f (seq 0 n) in fun x => nth x t d.
Fixpoint assoc {A} (k : nat * nat) (l : list ((nat * nat) * A)) (d : A) : A :=
  match l with
  | [] => d
  | (k', v) :: l' => if key_eqb k k' then v else assoc k l' d
  end.
Definition tabk {A} (keys : list (nat * nat)) (d : A) (f : nat * nat -> A) : nat * nat -> A :=
  let t := map (fun k => (k, f k)) keys in fun k => assoc k t d.
Definition all_keys (np : nat) : list (nat * nat) :=
  flat_map (fun p => map (fun q => (p, q)) (seq (S p) (np - S p))) (seq 0 np).

Definition compact (np nl ns : nat) (st : state) : state :=
  {| peers := tab np None (peers st);
     trk := tab (next_tid st) empty_tracker (trk st);
     next_tid := next_tid st;
     sessions := tabk (all_keys np) None (sessions st);
     ses := tab (next_sid st) empty_session (ses st);
     next_sid := next_sid st;
     lcalls := tab nl fresh_lcall (lcalls st);
     lwoken := tab nl false (lwoken st);
     scalls := tab ns fresh_scall (scalls st);
     swoken := tab ns false (swoken st);
     sbox := tab ns empty_box (sbox st);
     spend := tab ns None (spend st) |}.

Definition cstep (np nl ns : nat) (st : state) (a : action) : state := compact np nl ns (step st a).

(* Back-pressure: the harness can gate the stream of a call. An armed call runs
   normally until one of its passes has something to send; it then stays
   parked inside strm.Send (between two lock regions: its pass is complete in
   the model, it takes no further action) until the script opens the gate. *)
Record gates := { g_al : list nat; g_as : list nat;
  g_pl : list (nat * nat); g_ps : list (nat * nat) (* parked call, length of its output before the pass that parked it *) }.
Definition no_gates : gates := {| g_al := []; g_as := []; g_pl := []; g_ps := [] |}.
Definition parked (c : nat) (l : list (nat * nat)) : bool := memb c (map fst l).
Fixpoint prelen (c : nat) (l : list (nat * nat)) : option nat :=
  match l with
  | [] => None
  | (c', n) :: l' => if c =? c' then Some n else prelen c l'
  end.
Definition unpark (c : nat) (l : list (nat * nat)) : list (nat * nat) := filter (fun x => negb (fst x =? c)) l.

Definition next_internal_g (nl ns : nat) (g : gates) (st : state) : option action :=
  match first_some (fun c => if parked c (g_pl g) then None else linternal st c) (seq 0 nl) with
  | Some a => Some a
  | None => first_some (fun c => if parked c (g_ps g) then None else sinternal st c) (seq 0 ns)
  end.

(* after an internal action of an armed call that produced output the call is parked *)
Definition park (g : gates) (st st' : state) (a : action) : gates :=
  match a with
  | ListenIter c _ _ =>
    if memb c (g_al g) && (length (lc_out (lcalls st c)) <? length (lc_out (lcalls st' c)))
    then {| g_al := g_al g; g_as := g_as g; g_pl := (c, length (lc_out (lcalls st c))) :: g_pl g; g_ps := g_ps g |} else g
  | SessIter c =>
    if memb c (g_as g) && (length (sc_out (scalls st c)) <? length (sc_out (scalls st' c)))
    then {| g_al := g_al g; g_as := g_as g; g_pl := g_pl g; g_ps := (c, length (sc_out (scalls st c))) :: g_ps g |} else g
  | _ => g
  end.

Fixpoint settle (fuel np nl ns : nat) (g : gates) (st : state) : state * gates :=
  match fuel with
  | 0 => (st, g)
  | S f => match next_internal_g nl ns g st with
           | Some a => let st' := cstep np nl ns st a in settle f np nl ns (park g st st' a) st'
           | None => (st, g)
           end
  end.

Fixpoint insert (x : nat) (l : list nat) : list nat :=
  match l with
  | [] => [x]
  | y :: l' => if x <=? y then x :: l else y :: insert x l'
  end.
Definition sort (l : list nat) : list nat := fold_right insert [] l.

Definition enc_lresp (r : lresp) : nat := match r with LSet q => 2 * q + 1 | LClear q => 2 * q end.

Definition count_peers (np : nat) (st : state) : nat :=
  length (filter (fun p => is_some (peers st p)) (seq 0 np)).
Definition count_sessions (np : nat) (st : state) : nat :=
  length (filter (fun k => is_some (sessions st k)) (all_keys np)).
Definition count_alive (nl ns : nat) (st : state) : nat :=
  length (filter (fun c => alive (lc_st (lcalls st c))) (seq 0 nl)) +
  length (filter (fun c => alive (sc_st (scalls st c))) (seq 0 ns)).

(* scripted operations: relay actions, or arming/opening the gate of a stream *)
Inductive sop := Act (a : action) | GateL (c : nat) | GateS (c : nat) | OpenL (c : nat) | OpenS (c : nat)
| AbortL (c : nat)                   (* context cancelled while the call is parked in Send: Send fails, the call returns *)
| AbortS (c : nat) (cancel : bool).  (* same for a Session call; cancel=false: the stream broke (Recv and Send fail) *)

(* A Send that fails: the outputs of the pass that was parked were never
   delivered, the call returns the error and runs its cleanup. (The model merges
   the Sends into the pass; a failing Send is expressed here, in the
   correspondence, by removing the undelivered outputs.) *)
Definition trunc_l (c n : nat) (st : state) : state :=
  let k := lcalls st c in
  put_lcall c {| lc_st := lc_st k; lc_p := lc_p k; lc_t := lc_t k; lc_n := lc_n k; lc_sent := lc_sent k;
                 lc_out := firstn n (lc_out k) |} st.
Definition trunc_s (c n : nat) (st : state) : state :=
  let k := scalls st c in
  put_scall c {| sc_st := sc_st k; sc_src := sc_src k; sc_dst := sc_dst k; sc_isA := sc_isA k; sc_s := sc_s k;
                 sc_dt := sc_dt k; sc_prev := sc_prev k; sc_perr := sc_perr k; sc_out := firstn n (sc_out k) |} st.

Record acc := {
  a_st : state;
  a_g : gates;
  a_seen : list nat;                 (* per listen call: length of lc_out already put in a segment *)
  a_segs : list (list (list nat));   (* per listen call: sorted encoded segments, newest first *)
  a_sizes : list (nat * nat * nat) } (* newest first *).

(* the output of a parked listen call is not visible before its gate opens *)
Fixpoint zip3 (parked : list nat) (cs : list nat) (seen : list nat) (segs : list (list (list nat))) (st : state)
  : list nat * list (list (list nat)) :=
  match cs, seen, segs with
  | c :: cs', n :: seen', sg :: segs' =>
    let out := lc_out (lcalls st c) in
    let fresh := skipn n out in
    let '(s', g') := zip3 parked cs' seen' segs' st in
    if memb c parked then (n :: s', sg :: g')
    else (length out :: s', (if is_nil fresh then sg else sort (map enc_lresp fresh) :: sg) :: g')
  | _, _, _ => ([], [])
  end.

Definition apply_sop (np nl ns : nat) (g : gates) (st : state) (op : sop) : state * gates :=
  match op with
  | Act a => (cstep np nl ns st a, g)
  | GateL c => (st, {| g_al := c :: g_al g; g_as := g_as g; g_pl := g_pl g; g_ps := g_ps g |})
  | GateS c => (st, {| g_al := g_al g; g_as := c :: g_as g; g_pl := g_pl g; g_ps := g_ps g |})
  | OpenL c => (st, {| g_al := remove c (g_al g); g_as := g_as g; g_pl := unpark c (g_pl g); g_ps := g_ps g |})
  | OpenS c => (st, {| g_al := g_al g; g_as := remove c (g_as g); g_pl := g_pl g; g_ps := unpark c (g_ps g) |})
  | AbortL c =>
    let st1 := cstep np nl ns st (ListenEnd c) in
    let st2 := match prelen c (g_pl g) with Some n => compact np nl ns (trunc_l c n st1) | None => st1 end in
    (st2, {| g_al := remove c (g_al g); g_as := g_as g; g_pl := unpark c (g_pl g); g_ps := g_ps g |})
  | AbortS c cancel =>
    (* the parked Send returns the error: the call returns it (whatever the read goroutine
       has queued meanwhile) and runs the cleanup *)
    let st1 := cstep np nl ns st (SessEnd c true) in
    let st2 := match prelen c (g_ps g) with Some n => trunc_s c n st1 | None => st1 end in
    let st3 := if cancel then st2 else put_scall c (set_sst (scalls st2 c) (Ended EStream)) st2 in
    (compact np nl ns st3, {| g_al := g_al g; g_as := remove c (g_as g); g_pl := g_pl g; g_ps := unpark c (g_ps g) |})
  end.

Definition do_op (np nl ns : nat) (a : acc) (op : sop) : acc :=
  let '(st0, g0) := apply_sop np nl ns (a_g a) (a_st a) op in
  let '(st, g) := settle 400 np nl ns g0 st0 in
  let '(seen, segs) := zip3 (map fst (g_pl g)) (seq 0 nl) (a_seen a) (a_segs a) st in
  {| a_st := st; a_g := g; a_seen := seen; a_segs := segs;
     a_sizes := (count_peers np st, count_sessions np st, count_alive nl ns st) :: a_sizes a |}.

Definition run_script (np nl ns : nat) (ops : list sop) : acc :=
  fold_left (do_op np nl ns) ops
    {| a_st := init; a_g := no_gates; a_seen := repeat 0 nl; a_segs := repeat [] nl; a_sizes := [] |}.

Definition fin (s : status) : option nat := match s with Ended e => Some e | _ => None end.

Definition peer_view (st : state) (p : nat) : option (bool * list nat) :=
  match peers st p with
  | Some t => Some (t_listening (trk st t), sort (t_wants (trk st t)))
  | None => None
  end.
Definition sess_view (st : state) (k : nat * nat) : option (nat * bool * bool) :=
  match sessions st k with
  | Some s => Some (s_epoch (ses st s), is_some (s_a (ses st s)), is_some (s_b (ses st s)))
  | None => None
  end.

Record relay_case := {
  rc_np : nat; rc_nl : nat; rc_ns : nat;
  rc_ops : list sop;
  rc_lobs : list (list (list nat) * option nat);   (* per listen call: segments (oldest first), final error *)
  rc_sobs : list (list sresp * option nat);        (* per session call: responses, final error *)
  rc_sizes : list (nat * nat * nat);               (* after every op: |peers|, |sessions|, calls not returned *)
  rc_peers : list (option (bool * list nat));      (* final, per peer id *)
  rc_sess : list (option (nat * bool * bool)) }.   (* final, per key (p<q) in all_keys order *)

Definition msg_eqb (a b : msg) : bool :=
  (m_seqno a =? m_seqno b) && (m_tag a =? m_tag b) && Bool.eqb (m_ver a) (m_ver b) && (m_from a =? m_from b) &&
  (m_pk a =? m_pk b).
Definition sresp_eqb (a b : sresp) : bool :=
  match a, b with
  | SOpened x, SOpened y => x =? y
  | SClosed, SClosed => true
  | SAck x, SAck y => x =? y
  | SClear x, SClear y => x =? y
  | SRecv x, SRecv y => msg_eqb x y
  | _, _ => false
  end.
Definition lobs_eqb (a b : list (list nat) * option nat) : bool :=
  list_eqb (list_eqb Nat.eqb) (fst a) (fst b) && onat_eqb (snd a) (snd b).
Definition sobs_eqb (a b : list sresp * option nat) : bool :=
  list_eqb sresp_eqb (fst a) (fst b) && onat_eqb (snd a) (snd b).
Definition size_eqb (a b : nat * nat * nat) : bool :=
  let '(a1, a2, a3) := a in let '(b1, b2, b3) := b in (a1 =? b1) && (a2 =? b2) && (a3 =? b3).
Definition pview_eqb (a b : bool * list nat) : bool :=
  Bool.eqb (fst a) (fst b) && list_eqb Nat.eqb (snd a) (snd b).
Definition sview_eqb (a b : nat * bool * bool) : bool :=
  let '(a1, a2, a3) := a in let '(b1, b2, b3) := b in (a1 =? b1) && Bool.eqb a2 b2 && Bool.eqb a3 b3.

(* what the model predicts for a script *)
Definition model_lobs (nl : nat) (a : acc) : list (list (list nat) * option nat) :=
  map (fun c => (rev (nth c (a_segs a) []), fin (lc_st (lcalls (a_st a) c)))) (seq 0 nl).
Definition model_sobs (ns : nat) (a : acc) : list (list sresp * option nat) :=
  map (fun c => (sc_out (scalls (a_st a) c), fin (sc_st (scalls (a_st a) c)))) (seq 0 ns).

(* component-wise comparison: [lobs; sobs; sizes; peers; sessions] *)
Definition relay_diag (c : relay_case) : list bool :=
  let a := run_script (rc_np c) (rc_nl c) (rc_ns c) (rc_ops c) in
  [ list_eqb lobs_eqb (model_lobs (rc_nl c) a) (rc_lobs c);
    list_eqb sobs_eqb (model_sobs (rc_ns c) a) (rc_sobs c);
    list_eqb size_eqb (rev (a_sizes a)) (rc_sizes c);
    list_eqb (option_eqb pview_eqb) (map (peer_view (a_st a)) (seq 0 (rc_np c))) (rc_peers c);
    list_eqb (option_eqb sview_eqb) (map (sess_view (a_st a)) (all_keys (rc_np c))) (rc_sess c) ].

Definition relay_agree (c : relay_case) : bool := forallb (fun b => b) (relay_diag c).

(* what the model computes, for debugging a disagreement by hand *)
Definition relay_model (c : relay_case) :=
  let a := run_script (rc_np c) (rc_nl c) (rc_ns c) (rc_ops c) in
  (model_lobs (rc_nl c) a, model_sobs (rc_ns c) a, rev (a_sizes a),
   map (peer_view (a_st a)) (seq 0 (rc_np c)), map (sess_view (a_st a)) (all_keys (rc_np c))).
