(* Preservation of the invariant by SessEnd. *)
From Bifrost Require Import Lib.Base SignalRelay.Model SignalRelay.Inv SignalRelay.PresL SignalRelay.PresS.
Local Open Scope nat_scope.

Lemma cur_detach (sm sm' : nat * nat -> option nat) (se se' : nat -> session) q p src dst s a :
  q <> p -> src <> dst -> a = is_a src dst -> ~ (q = src /\ p = dst) ->
  sm (mkkey src dst) = Some s ->
  (forall k0, k0 <> mkkey src dst -> sm' k0 = sm k0) ->
  (forall s0 k0, sm k0 = Some s0 -> k0 <> mkkey src dst -> se' s0 = se s0) ->
  (side (se s) (negb a) <> None -> sm' (mkkey src dst) = Some s /\ side (se' s) (negb a) = side (se s) (negb a)) ->
  cur sm se q p <> None -> cur sm' se' q p <> None.
Proof.
  intros Hqp Hne Ha Hnot Hs Hsm Hse Hoth Hold. unfold cur in *.
  destruct (key_eqb_spec (mkkey q p) (mkkey src dst)) as [Ek|Ek].
  - destruct (mkkey_eq _ _ _ _ Hqp Hne Ek) as [[? ?]|[? ?]]; subst q p; [tauto|].
    rewrite Ek in *. rewrite Hs in Hold. rewrite (is_a_swap src dst Hne), <- Ha in *.
    destruct (Hoth Hold) as [X Y]. rewrite X, Y. auto.
  - rewrite Hsm by auto. destruct (sm (mkkey q p)) as [s0|] eqn:E0; auto.
    rewrite (Hse s0 _ E0 Ek). auto.
Qed.

Ltac end_b3 st c a hA1 hA3 hB3 Hpd Hne Hia Hmap :=
  let p0 := fresh "p0" in let t0 := fresh "t0" in let q := fresh "q" in
  intros p0 t0 q Hp Hq;
  assert (Hold : peers st p0 = Some t0 /\ In q (t_wants (trk st t0)) /\ ~ (q = sc_src (scalls st c) /\ p0 = sc_dst (scalls st c)));
  [ revert Hp Hq; pose proof (hA1 p0 t0); unfold upd; cbn;
    repeat match goal with |- context[Nat.eqb ?x ?y] => destruct (Nat.eqb_spec x y); subst end; cbn;
    rewrite ?in_remove; intros; repeat split; try tauto; try congruence;
    try (intros [? ?]; subst; rewrite Hpd in *; intuition congruence)
  | destruct Hold as (Hp' & Hq' & Hnot); destruct (hB3 p0 t0 q Hp' Hq') as [X1 X2]; split; [exact X1|];
    eapply (cur_detach (sessions st) _ (ses st) _ q p0 (sc_src (scalls st c)) (sc_dst (scalls st c)) (sc_s (scalls st c)) a X1 Hne Hia Hnot Hmap);
    [ intros k0 Hk0; unfold updk; try destruct (key_eqb_spec k0 (mkkey (sc_src (scalls st c)) (sc_dst (scalls st c)))); congruence
    | let s0 := fresh "s0" in let k0 := fresh "k0" in let E0 := fresh "E0" in
      intros s0 k0 E0 ?; destruct (hA3 _ _ E0); unfold upd;
      destruct (Nat.eqb_spec s0 (sc_s (scalls st c))); subst; try lia; try congruence
    | cbn; rw_side; rewrite ?upd_same; cbn; rw_side; intros X; try (exfalso; apply X; reflexivity); split; auto
    | exact X2 ] ].

Ltac end_b4 st c hB2 hB4 Huniq :=
  let s0 := fresh "s0" in let b := fresh "b" in let c0 := fresh "c0" in
  intros s0 b c0 Hs0;
  assert (Hc0 : c0 <> c /\ side (ses st s0) b = Some c0);
  [ revert Hs0; unfold upd;
    destruct (Nat.eqb_spec s0 (sc_s (scalls st c)));
    [ subst s0; destruct b; cbn; rw_side; intros X; try discriminate; inversion X; subst; split; auto; try congruence
    | intros X; split; auto; intros ->; destruct (hB2 _ _ _ X) as (_ & Y & _); congruence ]
  | destruct Hc0 as [Hne0 Hold0]; unfold upd; destruct (Nat.eqb_spec c0 c); [contradiction|];
    pose proof (hB4 _ _ _ Hold0) as Hin0;
    destruct (Nat.eqb_spec (sc_dt (scalls st c0)) (sc_dt (scalls st c))) as [Edt|Edt]; cbn; auto;
    rewrite in_remove; split; [congruence|]; intros E; apply Hne0; eapply Huniq; eauto ].

Ltac end_b24 hB2 Hown :=
  let s0 := fresh "s0" in let b := fresh "b" in let c0 := fresh "c0" in
  intros s0 b c0 Hs0;
  match goal with c : nat |- _ =>
  match type of Hown with _ = Some c =>
  assert (Hc0 : c0 <> c /\ side (ses _ s0) b = Some c0);
  [ revert Hs0; unfold upd;
    destruct (Nat.eqb_spec s0 (sc_s (scalls _ c)));
    [ subst s0; destruct b; cbn; rw_side; intros X; try discriminate; inversion X; subst; split; auto; try congruence
    | intros X; split; auto; intros ->; destruct (hB2 _ _ _ X) as (_ & Y & _); congruence ]
  | ] end end.

Lemma sess_end_inv_tn c cancel st :
  sc_isA (scalls st c) = true -> s_b (ses st (sc_s (scalls st c))) = None -> Inv st -> Inv (sess_end c cancel st).
Proof.
  intros Hcase1 Hcase2 H. unfold sess_end.
  destruct (end_error (scalls st c) cancel) as [e|] eqn:Ee; [|exact H].
  assert (Hal : alive (sc_st (scalls st c)) = true).
  { unfold end_error in Ee. destruct (sc_st (scalls st c)); try discriminate; reflexivity. }
  unfold sess_cleanup.
  destruct (onat_eqb_spec (side (ses st (sc_s (scalls st c))) (sc_isA (scalls st c))) (Some c)) as [Hown|Hown]; cbn.
  - destruct (iB1 _ H c Hal) as (Hs & Hk & Hia & Hne & Hdt & Hot).
    pose proof (iB4 _ H _ _ _ Hown) as Hin.
    pose proof (iA4 _ H _ _ _ Hown) as Hmap. rewrite Hk in Hmap.
    assert (Hpd : peers st (sc_dst (scalls st c)) = Some (sc_dt (scalls st c))).
    { rewrite <- Hot.
      destruct (onat_eqb_spec (peers st (t_owner (trk st (sc_dt (scalls st c))))) (Some (sc_dt (scalls st c)))); auto.
      destruct (iA2 _ H _ n) as [X _]. rewrite X in Hin. destruct Hin. }
    assert (Huniq : forall s0 b c0, side (ses st s0) b = Some c0 ->
              sc_dt (scalls st c0) = sc_dt (scalls st c) -> sc_src (scalls st c0) = sc_src (scalls st c) -> c0 = c).
    { intros s0 b c0 Hs0 E1 E2.
      destruct (iB2 _ H _ _ _ Hs0) as (A0 & S0 & I0).
      destruct (iB1 _ H c0 A0) as (_ & K0 & I0' & _ & _ & O0).
      pose proof (iA4 _ H _ _ _ Hs0) as M0. rewrite <- S0, K0 in M0.
      assert (D0 : sc_dst (scalls st c0) = sc_dst (scalls st c)) by congruence.
      rewrite E2, D0, Hmap in M0. inversion M0 as [Ss].
      assert (Ib : b = sc_isA (scalls st c)) by congruence.
      rewrite Ib, <- S0, <- Ss in Hs0. congruence. }
    destruct (sc_isA (scalls st c)) eqn:Eia; cbn [side negb] in *.
    + destruct (s_b (ses st (sc_s (scalls st c)))) as [d|] eqn:Ed.
      * exfalso; congruence.
      * unfold maybe_release_session, wake_sess, clear_partner, put_ses, put_box.
        cbn. rewrite Hmap. cbn. rewrite !upd_same. cbn. rewrite Ed. cbn.
        unfold maybe_release_peer, del_want, put_trk, wake_trk. cbn. rewrite Hpd. cbn. rewrite !upd_same. cbn.
        destruct (t_listening (trk st (sc_dt (scalls st c)))) eqn:El; cbn.
        {
          inv_split H. unfold put_scall.
          constructor; cbn; auto; try reg_clause.
          all: try (end_b3 st c true hA1 hA3 hB3 Hpd Hne Hia Hmap).
          all: try (end_b4 st c hB2 hB4 Huniq).
        }
        destruct (is_nil (remove (sc_src (scalls st c)) (t_wants (trk st (sc_dt (scalls st c)))))) eqn:Enil; cbn.
        { apply is_nil_spec in Enil.
          inv_split H. unfold put_scall.
          constructor; cbn; auto; try reg_clause.
          all: try (end_b3 st c true hA1 hA3 hB3 Hpd Hne Hia Hmap).
          all: try (end_b4 st c hB2 hB4 Huniq).
        }
        { assert (Hnn : remove (sc_src (scalls st c)) (t_wants (trk st (sc_dt (scalls st c)))) <> []) by (intros X; rewrite X in Enil; discriminate).
          inv_split H. unfold put_scall.
          constructor; cbn; auto; try reg_clause.
          all: try (end_b3 st c true hA1 hA3 hB3 Hpd Hne Hia Hmap).
          all: try (end_b4 st c hB2 hB4 Huniq).
        }
    + exfalso; congruence.
  - (* not registered any more: cleanup is a no-op *)
    inv_split H. unfold put_scall.
    assert (Hns : forall s b, side (ses st s) b <> Some c).
    { intros s b Hs. destruct (hB2 _ _ _ Hs) as (_ & X & Y). subst. contradiction. }
    constructor; cbn; auto; try reg_clause.
Qed.
