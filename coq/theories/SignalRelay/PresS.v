(* Preservation of the invariant by the Session actions. *)
From Bifrost Require Import Lib.Base SignalRelay.Model SignalRelay.Inv SignalRelay.PresL.
Local Open Scope nat_scope.

Lemma gate_go c seq st d :
  req_gate c seq st = GGo d ->
  s_epoch (ses st (sc_s (scalls st c))) = seq /\
  side (ses st (sc_s (scalls st c))) (sc_isA (scalls st c)) = Some c /\
  side (ses st (sc_s (scalls st c))) (negb (sc_isA (scalls st c))) = Some d.
Proof.
  unfold req_gate. intros H.
  destruct (s_epoch (ses st (sc_s (scalls st c))) <? seq); try discriminate.
  destruct (Nat.eqb_spec (s_epoch (ses st (sc_s (scalls st c)))) seq); cbn in H; try discriminate.
  destruct (side _ (sc_isA (scalls st c))) as [o|]; try discriminate.
  destruct (side _ (negb (sc_isA (scalls st c)))) as [d'|]; try discriminate.
  destruct (Nat.eqb_spec o c); try discriminate. inversion H; subst. auto.
Qed.

Lemma fail_inv c e st : Inv st -> Inv (fail c e st).
Proof.
  intros H. inv_split H. unfold fail, put_scall.
  constructor; cbn; auto.
  - intros c0 Ha. specialize (hB1 c0). t1.
  - intros s b c0 Hs. specialize (hB2 s b c0 Hs). t1.
  - intros s b c0 Hs. specialize (hB4 s b c0 Hs). t1.
  - intros c0. specialize (hD1 c0). unfold cur_open in *. t1.
  - intros c0. specialize (hD2 c0). t1.
  - intros c0 m. specialize (hD3 c0 m). t1.
  - intros c0 m. specialize (hD4 c0 m). t1.
  - intros c0 m. specialize (hD5 c0 m). t1.
  - intros c0 e0. specialize (hD6 c0 e0). t1.
Qed.

(* the partner found by the gate is the call on the other side: it is alive,
   on the same session, and talks back to c *)
Lemma partner_facts st c d : Inv st ->
  alive (sc_st (scalls st c)) = true ->
  side (ses st (sc_s (scalls st c))) (negb (sc_isA (scalls st c))) = Some d ->
  alive (sc_st (scalls st d)) = true /\ sc_s (scalls st d) = sc_s (scalls st c) /\
  sc_isA (scalls st d) = negb (sc_isA (scalls st c)) /\
  sc_src (scalls st c) = sc_dst (scalls st d) /\ sc_dst (scalls st c) = sc_src (scalls st d) /\ d <> c.
Proof.
  intros H Ha Hs. inv_split H.
  destruct (hB2 _ _ _ Hs) as (Hda & Hds & Hdi).
  destruct (hB1 c Ha) as (_ & Hk & Hi & Hne & _).
  destruct (hB1 d Hda) as (_ & Hk' & Hi' & Hne' & _).
  rewrite Hds in Hk'. rewrite Hk in Hk'. rewrite Hi' in Hdi. rewrite Hi in Hdi.
  destruct (opposite_sides _ _ _ _ Hne' Hne (eq_sym Hk') Hdi) as [X Y].
  repeat split; auto; try congruence.
Qed.

Lemma handle_send_inv c seq m st : Inv st -> alive (sc_st (scalls st c)) = true -> Inv (handle_send c seq m st).
Proof.
  intros H Hal. unfold handle_send.
  destruct (m_ver m) eqn:Ev; cbn; [|apply fail_inv; auto].
  destruct (Nat.eqb_spec (m_from m) (sc_src (scalls st c))) as [Ef|]; cbn; [|apply fail_inv; auto].
  destruct (req_gate c seq st) as [| |d] eqn:Eg; [apply fail_inv; auto|auto|].
  destruct (gate_go _ _ _ _ Eg) as (Hep & Hown & Hpar).
  destruct (partner_facts st c d H Hal Hpar) as (Hda & Hds & Hdi & Hsd & Hds' & Hdc).
  inv_split H. unfold wake_sess, put_box.
  constructor; cbn; auto.
  - intros c0. specialize (hD1 c0). unfold cur_open in *. t1.
  - intros c0 m0. specialize (hD3 c0 m0). t1.
  - intros c0 m0. specialize (hD5 c0 m0). t1.
Qed.

Lemma handle_ack_inv c seq n st : Inv st -> alive (sc_st (scalls st c)) = true -> Inv (handle_ack c seq n st).
Proof.
  intros H Hal. unfold handle_ack.
  destruct (req_gate c seq st) as [| |d] eqn:Eg; [apply fail_inv; auto|auto|].
  destruct (gate_go _ _ _ _ Eg) as (Hep & Hown & Hpar).
  destruct (partner_facts st c d H Hal Hpar) as (Hda & Hds & Hdi & Hsd & Hds' & Hdc).
  destruct (onat_eqb (mb_recvSent (sbox st c)) (Some n)); auto.
  inv_split H. unfold wake_sess, put_box.
  constructor; cbn; auto.
  - intros c0. specialize (hD1 c0). unfold cur_open in *. t1.
  - intros c0 m0. specialize (hD3 c0 m0). t1.
  - intros c0 m0. specialize (hD5 c0 m0). t1.
Qed.

Lemma handle_clear_inv c seq n st : Inv st -> alive (sc_st (scalls st c)) = true -> Inv (handle_clear c seq n st).
Proof.
  intros H Hal. unfold handle_clear.
  destruct (req_gate c seq st) as [| |d] eqn:Eg; [apply fail_inv; auto|auto|].
  destruct (gate_go _ _ _ _ Eg) as (Hep & Hown & Hpar).
  destruct (partner_facts st c d H Hal Hpar) as (Hda & Hds & Hdi & Hsd & Hds' & Hdc).
  inv_split H. unfold put_box.
  destruct (match mb_recv (sbox st d) with Some m => m_seqno m =? n | None => false end).
  - constructor; cbn; auto.
    + intros c0 m0. specialize (hD3 c0 m0). t1.
    + intros c0 m0. specialize (hD5 c0 m0). t1.
  - destruct (onat_eqb (mb_recvSent (sbox st d)) (Some n)); [|constructor; auto].
    constructor; cbn; auto.
    + intros c0 m0. specialize (hD3 c0 m0). t1.
    + intros c0 m0. specialize (hD5 c0 m0). t1.
Qed.

Lemma sess_req_inv c seq r st : Inv st -> Inv (sess_req c seq r st).
Proof.
  intros H. unfold sess_req.
  destruct (alive (sc_st (scalls st c))) eqn:Ea; cbn; auto.
  destruct (negb (is_some (sc_perr (scalls st c)))); auto.
  destruct r; auto using fail_inv, handle_send_inv, handle_ack_inv, handle_clear_inv.
Qed.

Lemma last_open_app out l : last_open (out ++ l) = fold_left last_open_step l (last_open out).
Proof. unfold last_open. apply fold_left_app. Qed.

Lemma olist_no_ann {A} (o : option A) (f : A -> sresp) acc :
  (forall a, last_open_step acc (f a) = acc) -> fold_left last_open_step (olist o f) acc = acc.
Proof. destruct o; cbn; auto. Qed.

Lemma sess_iter_inv c st : Inv st -> Inv (sess_iter c st).
Proof.
  intros H. unfold sess_iter.
  destruct (is_running (sc_st (scalls st c)) && swoken st c) eqn:E0; [|exact H].
  apply andb_true_iff in E0 as [Er Ew].
  destruct (sc_st (scalls st c)) eqn:Est; try discriminate. clear Er.
  assert (Hal : alive (sc_st (scalls st c)) = true) by (rewrite Est; reflexivity).
  destruct (onat_eqb_spec (side (ses st (sc_s (scalls st c))) (sc_isA (scalls st c))) (Some c)) as [Hown|Hown]; cbn.
  - (* current *)
    destruct (side (ses st (sc_s (scalls st c))) (negb (sc_isA (scalls st c)))) as [d|] eqn:Hpar; cbn.
    + (* open: take the mailbox *)
      pose proof (iD3 _ H c) as Hbox. pose proof (iD2 _ H c) as Hprev.
      inv_split H. unfold put_scall, put_box, put_swoken, wake_sess.
      assert (Hout : last_open (sc_out (scalls st c) ++
                (if onat_eqb (sc_prev (scalls st c)) (Some (s_epoch (ses st (sc_s (scalls st c))))) then []
                 else [SOpened (s_epoch (ses st (sc_s (scalls st c))))]) ++
                olist (mb_outAcked (sbox st c)) SAck ++ olist (mb_recvClear (sbox st c)) SClear ++
                olist (mb_recv (sbox st c)) SRecv) = Some (s_epoch (ses st (sc_s (scalls st c))))).
      { rewrite last_open_app, !fold_left_app, !olist_no_ann by reflexivity.
        destruct (onat_eqb_spec (sc_prev (scalls st c)) (Some (s_epoch (ses st (sc_s (scalls st c)))))); cbn; congruence. }
      destruct (mb_recv (sbox st c)) as [m|] eqn:Em; cbn.
      * destruct (Hbox m Hal eq_refl) as [Hv Hf].
        constructor; cbn; auto.
        -- intros c0 Ha. specialize (hB1 c0). t1.
        -- intros s b c0 Hs. specialize (hB2 s b c0 Hs). t1.
        -- intros s b c0 Hs. specialize (hB4 s b c0 Hs). t1.
        -- intros c0. specialize (hD1 c0). unfold cur_open in *. t1. all: rewrite ?Hpar; fin.
        -- intros c0. specialize (hD2 c0). t1.
        -- intros c0 m0. specialize (hD3 c0 m0). t1.
        -- intros c0 m0. specialize (hD4 c0 m0). unfold upd; cbn. destruct (Nat.eqb_spec c0 c); subst; cbn; auto.
           rewrite !in_app_iff. intros [X|[X|[X|[X|X]]]]; auto.
           ++ destruct (onat_eqb _ _); cbn in X; intuition discriminate.
           ++ destruct (mb_outAcked (sbox st c)); cbn in X; intuition discriminate.
           ++ destruct (mb_recvClear (sbox st c)); cbn in X; intuition discriminate.
           ++ cbn in X. destruct X as [X|[]]. inversion X; subst; auto.
        -- intros c0 m0. specialize (hD5 c0 m0). t1.
        -- intros c0 e0. specialize (hD6 c0 e0). t1.
      * constructor; cbn; auto.
        -- intros c0 Ha. specialize (hB1 c0). t1.
        -- intros s b c0 Hs. specialize (hB2 s b c0 Hs). t1.
        -- intros s b c0 Hs. specialize (hB4 s b c0 Hs). t1.
        -- intros c0. specialize (hD1 c0). unfold cur_open in *. t1. all: rewrite ?Hpar; fin.
        -- intros c0. specialize (hD2 c0). t1.
        -- intros c0 m0. specialize (hD3 c0 m0). t1.
        -- intros c0 m0. specialize (hD4 c0 m0). unfold upd; cbn. destruct (Nat.eqb_spec c0 c); subst; cbn; auto.
           rewrite !in_app_iff. intros [X|[X|[X|[X|X]]]]; auto.
           ++ destruct (onat_eqb _ _); cbn in X; intuition discriminate.
           ++ destruct (mb_outAcked (sbox st c)); cbn in X; intuition discriminate.
           ++ destruct (mb_recvClear (sbox st c)); cbn in X; intuition discriminate.
           ++ destruct X.
        -- intros c0 m0. specialize (hD5 c0 m0). t1.
        -- intros c0 e0. specialize (hD6 c0 e0). t1.
    + (* partner not attached *)
      pose proof (iD2 _ H c) as Hprev.
      inv_split H. unfold put_scall, put_swoken.
      assert (Hout : last_open (sc_out (scalls st c) ++
                (if onat_eqb (sc_prev (scalls st c)) None then [] else [SClosed]) ++ []) = None).
      { rewrite last_open_app, !fold_left_app.
        destruct (onat_eqb_spec (sc_prev (scalls st c)) None); cbn; congruence. }
      constructor; cbn; auto.
      * intros c0 Ha. specialize (hB1 c0). t1.
      * intros s b c0 Hs. specialize (hB2 s b c0 Hs). t1.
      * intros s b c0 Hs. specialize (hB4 s b c0 Hs). t1.
      * intros c0. specialize (hD1 c0). unfold cur_open in *. t1. all: rewrite ?Hpar; fin.
      * intros c0. specialize (hD2 c0). t1.
      * intros c0 m0. specialize (hD3 c0 m0). t1.
      * intros c0 m0. specialize (hD4 c0 m0). unfold upd; cbn. destruct (Nat.eqb_spec c0 c); subst; cbn; auto.
        rewrite !in_app_iff. intros [X|[X|X]]; auto.
        -- destruct (onat_eqb _ _); cbn in X; intuition discriminate.
        -- destruct X.
      * intros c0 m0. specialize (hD5 c0 m0). t1.
      * intros c0 e0. specialize (hD6 c0 e0). t1.
  - (* usurped *)
    inv_split H. unfold put_scall, put_swoken.
    constructor; cbn; auto.
    + intros c0 Ha. specialize (hB1 c0). t1.
    + intros s b c0 Hs. specialize (hB2 s b c0 Hs). t1.
    + intros s b c0 Hs. specialize (hB4 s b c0 Hs). t1.
    + intros c0. specialize (hD1 c0). unfold cur_open in *. t1. all: rewrite ?Hpar; fin.
    + intros c0. specialize (hD2 c0). t1.
    + intros c0 m0. specialize (hD3 c0 m0). t1.
    + intros c0 m0. specialize (hD4 c0 m0). t1.
    + intros c0 m0. specialize (hD5 c0 m0). t1.
    + intros c0 e0. specialize (hD6 c0 e0). t1.
Qed.

Lemma last_open_nil : last_open [] = None.
Proof. reflexivity. Qed.

(* a call that is not alive is on no side of any session *)
Lemma not_alive_not_side st c s b : Inv st -> alive (sc_st (scalls st c)) = false -> side (ses st s) b <> Some c.
Proof. intros H Hn Hs. destruct (iB2 _ H _ _ _ Hs) as [X _]. congruence. Qed.

Lemma reject_inv c src e st : Inv st -> sc_st (scalls st c) = Fresh -> Inv (put_scall c (ended_scall src e) st).
Proof.
  intros H Hf.
  assert (Hns : forall s b, side (ses st s) b <> Some c).
  { intros. apply not_alive_not_side; auto. rewrite Hf; reflexivity. }
  inv_split H. unfold put_scall.
  constructor; cbn; auto.
  - intros c0 Ha. specialize (hB1 c0). t1.
  - intros s b c0 Hs. specialize (hB2 s b c0 Hs). specialize (Hns s b). t1.
  - intros s b c0 Hs. specialize (hB4 s b c0 Hs). specialize (Hns s b). t1.
  - intros c0. specialize (hD1 c0). unfold cur_open in *. t1.
  - intros c0. specialize (hD2 c0). t1.
  - intros c0 m. specialize (hD3 c0 m). t1.
  - intros c0 m. specialize (hD4 c0 m). t1.
  - intros c0 m. specialize (hD5 c0 m). specialize (Hns 0 false). t1.
  - intros c0 e0. specialize (hD6 c0 e0). t1.
Qed.

(* ---- SessStart ---- *)
Lemma key_eqb_refl k : key_eqb k k = true.
Proof. destruct (key_eqb_spec k k); congruence. Qed.

Lemma cur_preserved (sm sm' : nat * nat -> option nat) (se se' : nat -> session) q p src dst s a c :
  q <> p -> src <> dst -> a = is_a src dst ->
  sm' (mkkey src dst) = Some s ->
  (forall k0, k0 <> mkkey src dst -> sm' k0 = sm k0) ->
  (forall s0 k0, sm k0 = Some s0 -> k0 <> mkkey src dst -> se' s0 = se s0) ->
  side (se' s) a = Some c ->
  (match sm (mkkey src dst) with Some s1 => side (se s1) (negb a) | None => None end <> None ->
   side (se' s) (negb a) <> None) ->
  cur sm se q p <> None -> cur sm' se' q p <> None.
Proof.
  intros Hqp Hne Ha Hs Hsm Hse Hown Hoth Hold. unfold cur in *.
  destruct (key_eqb_spec (mkkey q p) (mkkey src dst)) as [Ek|Ek].
  - destruct (mkkey_eq _ _ _ _ Hqp Hne Ek) as [[? ?]|[? ?]]; subst q p.
    + rewrite Hs, <- Ha, Hown. discriminate.
    + rewrite Ek in *. rewrite Hs. rewrite (is_a_swap src dst Hne), <- Ha in *. auto.
  - rewrite Hsm by auto. destruct (sm (mkkey q p)) as [s0|] eqn:E0; auto.
    rewrite (Hse s0 _ E0 Ek). auto.
Qed.

Lemma upd_same {A} (f : nat -> A) k v : upd f k v k = v.
Proof. unfold upd. rewrite Nat.eqb_refl. reflexivity. Qed.
Lemma updk_same {A} (f : nat * nat -> A) k v : updk f k v k = v.
Proof. unfold updk. rewrite key_eqb_refl. reflexivity. Qed.

Ltac rw_side := repeat match goal with
  | E : s_a _ = _ |- _ => rewrite E in *
  | E : s_b _ = _ |- _ => rewrite E in *
  end.
Ltac t3 := intros; unfold upd, updk in *; cbn in *; beq; cbn in *; rw_side; fin;
  try solve [intuition fin]; try solve [intuition (rw_st; fin)]; try solve [intuition (rw_eqs; rw_st; fin)];
  try solve [rw_eqs; repeat match goal with E : t_wants _ = [] |- _ => rewrite E in * end; cbn in *; intuition fin].

Ltac reg_clause :=
  match goal with
  | hA1 : A1 _ _ _ |- A1 _ _ _ => intros p0 t0 Hp; specialize (hA1 p0 t0); t3
  | hA2 : A2 (peers ?S) _, hA1 : A1 _ _ _ |- A2 _ _ => intros t0; specialize (hA2 t0); pose proof (hA1 (t_owner (trk S t0)) (next_tid S)); t3
  | hA6 : A6 _ _, hA1 : A1 _ _ _ |- A6 _ _ => intros p0 t0 Hp; specialize (hA6 p0 t0); pose proof (hA1 p0 t0); t3
  | hA3 : A3 _ _ _ |- A3 _ _ _ => intros k0 s0 Hk0; specialize (hA3 k0 s0); t3
  | hA4 : A4 (sessions ?S) _, hA3 : A3 _ _ _ |- A4 _ _ => intros s0 b c0 Hs0; specialize (hA4 s0 b c0);
      first [ solve [destruct b; t3] | solve [pose proof (hA3 (s_key (ses S s0)) s0); destruct b; t3] ]
  | hA5 : A5 _ _, hA3 : A3 _ _ _ |- A5 _ _ => intros k0 s0 Hk0; specialize (hA5 k0 s0); pose proof (hA3 k0 s0); t3
  | hB1 : B1 _ _ _ _ _ |- B1 _ _ _ _ _ => intros c0 Ha; specialize (hB1 c0); t3
  | hB2 : B2 _ _, Hns : forall s b, side _ b <> Some _ |- B2 _ _ => intros s0 b c0 Hs0; specialize (hB2 s0 b c0); specialize (Hns s0 b); destruct b; t3
  | hB4 : B4 _ _ _, Hns : forall s b, side _ b <> Some _ |- B4 _ _ _ => intros s0 b c0 Hs0; specialize (hB4 s0 b c0); specialize (Hns s0 b); destruct b; t3
  | hB2 : B2 _ _ |- B2 _ _ => intros s0 b c0 Hs0; specialize (hB2 s0 b c0); destruct b; t3
  | hC1 : C1 _ _ _ |- C1 _ _ _ => intros c0; specialize (hC1 c0); t3
  | hC2 : C2 _ _, hC1 : C1 _ _ _ |- C2 _ _ => intros c0; specialize (hC2 c0); specialize (hC1 c0); t3
  | hC3 : C3 _ _ |- C3 _ _ => intros t0; specialize (hC3 t0); t3
  | hC4 : C4 _ _, hC1 : C1 _ _ _ |- C4 _ _ => intros c0 e9; specialize (hC4 c0 e9); specialize (hC1 c0); t3
  | hC5 : C5 _ _ _, hC1 : C1 _ _ _ |- C5 _ _ _ => intros c0; specialize (hC5 c0); specialize (hC1 c0); t3
  | hD1 : D1 (ses ?S) _ _ |- D1 _ _ _ => intros c0; specialize (hD1 c0); unfold cur_open in *; destruct (sc_isA (scalls S c0)) eqn:Eia9; t3
  | hD2 : D2 _ |- D2 _ => intros c0; specialize (hD2 c0); t3
  | hD3 : D3 _ _ |- D3 _ _ => intros c0 m; specialize (hD3 c0 m); t3
  | hD4 : D4 _ |- D4 _ => intros c0 m; specialize (hD4 c0 m); t3
  | hD5 : D5 (ses ?S) _ _ |- D5 _ _ _ => intros c0 m; specialize (hD5 c0 m); destruct (sc_isA (scalls S c0)) eqn:Eia9; t3
  | hD6 : D6 (ses ?S) _ |- D6 _ _ => intros c0 e9; specialize (hD6 c0 e9); destruct (sc_isA (scalls S c0)) eqn:Eia9; t3
  end.

Ltac b3_side hA3 s :=
  first
  [ solve [t3]
  | solve [unfold updk; rewrite key_eqb_refl; reflexivity]
  | solve [intros k0 Hk0; unfold updk; destruct (key_eqb_spec k0 (mkkey _ _)); congruence]
  | solve [let s0 := fresh "s0" in let k0 := fresh "k0" in let E0 := fresh "E0" in
           intros s0 k0 E0 ?; destruct (hA3 _ _ E0); unfold upd;
           repeat (destruct (Nat.eqb_spec s0 s); subst; try lia; try congruence)]
  | solve [unfold upd; rewrite ?Nat.eqb_refl; cbn; rw_side; congruence]
  | solve [intros X; exfalso; apply X; reflexivity]
  | solve [repeat match goal with E : sessions _ _ = _ |- _ => rewrite E end; rw_side;
           unfold upd; rewrite ?Nat.eqb_refl; cbn; rw_side; auto; try congruence;
           intros X; exfalso; apply X; reflexivity]
  | solve [rw_side; unfold upd; rewrite ?Nat.eqb_refl; cbn; rw_side; auto; congruence]
  | idtac ].

Ltac b3_tac st s a c src dst Hne hA1 hA3 hB3 :=
  let p0 := fresh "p0" in let t0 := fresh "t0" in let q := fresh "q" in
  intros p0 t0 q Hp Hq;
  assert (Hold : q <> p0 /\ (cur (sessions st) (ses st) q p0 <> None \/ (q = src /\ p0 = dst)));
  [ revert Hp Hq; pose proof (hB3 p0 t0 q); pose proof (hA1 p0 t0); t3
  | clear Hp Hq; destruct Hold as [X1 [X2|[? ?]]]; [split; [exact X1|] | subst q p0; split; [exact Hne|]];
    [ eapply (cur_preserved (sessions st) _ (ses st) _ q p0 src dst s a c X1 Hne); eauto; cbn; b3_side hA3 s
    | unfold cur, updk, upd; cbn; rewrite ?key_eqb_refl; rw_side; cbn;
      repeat match goal with E : sessions _ _ = _ |- _ => rewrite E end;
      repeat match goal with E : is_a _ _ = _ |- _ => rewrite E end; cbn;
      rewrite ?Nat.eqb_refl; cbn; try discriminate ] ].

Lemma sess_register_inv c src dst st : Inv st -> sc_st (scalls st c) = Fresh -> src <> dst -> Inv (sess_register c src dst st).
Proof.
  intros H Hf Hne.
  assert (Hns : forall s b, side (ses st s) b <> Some c).
  { intros. apply not_alive_not_side; auto. rewrite Hf; reflexivity. }
  unfold sess_register, ensure_peer, peer_tid, add_want, ensure_session, session_sid.
  destruct (peers st dst) as [t|] eqn:Ep; cbn; rewrite ?Ep; cbn.
  - destruct (memb_spec src (t_wants (trk st t))) as [Hm|Hm]; cbn.
    + {
      destruct (sessions st (mkkey src dst)) as [s|] eqn:Es; cbn; rewrite ?Es, ?key_eqb_refl; cbn.
      - inv_split H. destruct (hA1 _ _ Ep) as [Ht Ho]. destruct (hA3 _ _ Es) as [Hs Hk].
        unfold wake_sess, put_swoken, put_box, put_scall, clear_partner, put_ses, put_trk, wake_trk.
        destruct (is_a src dst) eqn:Ea; cbn.
        + destruct (s_b (ses st s)) as [d|] eqn:Ed; cbn.
          * constructor; cbn; auto; try reg_clause.
            all: try b3_tac st s true c src dst Hne hA1 hA3 hB3.
          * constructor; cbn; auto; try reg_clause.
            all: try b3_tac st s true c src dst Hne hA1 hA3 hB3.
        + destruct (s_a (ses st s)) as [d|] eqn:Ed; cbn.
          * constructor; cbn; auto; try reg_clause.
            all: try b3_tac st s false c src dst Hne hA1 hA3 hB3.
          * constructor; cbn; auto; try reg_clause.
            all: try b3_tac st s false c src dst Hne hA1 hA3 hB3.
      - inv_split H. destruct (hA1 _ _ Ep) as [Ht Ho].
        unfold wake_sess, put_swoken, put_box, put_scall, clear_partner, put_ses, put_trk, wake_trk.
        unfold updk, upd; cbn; rewrite ?key_eqb_refl, ?Nat.eqb_refl; cbn; rewrite ?key_eqb_refl, ?Nat.eqb_refl; cbn.
        destruct (is_a src dst) eqn:Ea; cbn.
        + constructor; cbn; auto; try reg_clause.
          all: try b3_tac st (next_sid st) true c src dst Hne hA1 hA3 hB3.
        + constructor; cbn; auto; try reg_clause.
          all: try b3_tac st (next_sid st) false c src dst Hne hA1 hA3 hB3.
      }
    + {
      destruct (sessions st (mkkey src dst)) as [s|] eqn:Es; cbn; rewrite ?Es, ?key_eqb_refl; cbn.
      - inv_split H. destruct (hA1 _ _ Ep) as [Ht Ho]. destruct (hA3 _ _ Es) as [Hs Hk].
        unfold wake_sess, put_swoken, put_box, put_scall, clear_partner, put_ses, put_trk, wake_trk.
        destruct (is_a src dst) eqn:Ea; cbn.
        + destruct (s_b (ses st s)) as [d|] eqn:Ed; cbn.
          * constructor; cbn; auto; try reg_clause.
            all: try b3_tac st s true c src dst Hne hA1 hA3 hB3.
          * constructor; cbn; auto; try reg_clause.
            all: try b3_tac st s true c src dst Hne hA1 hA3 hB3.
        + destruct (s_a (ses st s)) as [d|] eqn:Ed; cbn.
          * constructor; cbn; auto; try reg_clause.
            all: try b3_tac st s false c src dst Hne hA1 hA3 hB3.
          * constructor; cbn; auto; try reg_clause.
            all: try b3_tac st s false c src dst Hne hA1 hA3 hB3.
      - inv_split H. destruct (hA1 _ _ Ep) as [Ht Ho].
        unfold wake_sess, put_swoken, put_box, put_scall, clear_partner, put_ses, put_trk, wake_trk.
        unfold updk, upd; cbn; rewrite ?key_eqb_refl, ?Nat.eqb_refl; cbn; rewrite ?key_eqb_refl, ?Nat.eqb_refl; cbn.
        destruct (is_a src dst) eqn:Ea; cbn.
        + constructor; cbn; auto; try reg_clause.
          all: try b3_tac st (next_sid st) true c src dst Hne hA1 hA3 hB3.
        + constructor; cbn; auto; try reg_clause.
          all: try b3_tac st (next_sid st) false c src dst Hne hA1 hA3 hB3.
      }
  - rewrite ?upd_same; cbn; rewrite ?upd_same; cbn; unfold memb; cbn; rewrite ?upd_same; cbn.
    {
    destruct (sessions st (mkkey src dst)) as [s|] eqn:Es; cbn; rewrite ?Es, ?key_eqb_refl; cbn.
    - inv_split H. assert (Hfresh : forall p0, peers st p0 <> Some (next_tid st)) by (intros p0 Hp0; destruct (hA1 p0 _ Hp0); lia). destruct (hA2 (next_tid st)) as [Hw0 Hl0]; [apply Hfresh|]. destruct (hA3 _ _ Es) as [Hs Hk].
      unfold wake_sess, put_swoken, put_box, put_scall, clear_partner, put_ses, put_trk, wake_trk.
      destruct (is_a src dst) eqn:Ea; cbn.
      + destruct (s_b (ses st s)) as [d|] eqn:Ed; cbn.
        * constructor; cbn; auto; try reg_clause.
          all: try b3_tac st s true c src dst Hne hA1 hA3 hB3.
        * constructor; cbn; auto; try reg_clause.
          all: try b3_tac st s true c src dst Hne hA1 hA3 hB3.
      + destruct (s_a (ses st s)) as [d|] eqn:Ed; cbn.
        * constructor; cbn; auto; try reg_clause.
          all: try b3_tac st s false c src dst Hne hA1 hA3 hB3.
        * constructor; cbn; auto; try reg_clause.
          all: try b3_tac st s false c src dst Hne hA1 hA3 hB3.
    - inv_split H. assert (Hfresh : forall p0, peers st p0 <> Some (next_tid st)) by (intros p0 Hp0; destruct (hA1 p0 _ Hp0); lia). destruct (hA2 (next_tid st)) as [Hw0 Hl0]; [apply Hfresh|].
      unfold wake_sess, put_swoken, put_box, put_scall, clear_partner, put_ses, put_trk, wake_trk.
      unfold updk, upd; cbn; rewrite ?key_eqb_refl, ?Nat.eqb_refl; cbn; rewrite ?key_eqb_refl, ?Nat.eqb_refl; cbn.
      destruct (is_a src dst) eqn:Ea; cbn.
      + constructor; cbn; auto; try reg_clause.
        all: try b3_tac st (next_sid st) true c src dst Hne hA1 hA3 hB3.
      + constructor; cbn; auto; try reg_clause.
        all: try b3_tac st (next_sid st) false c src dst Hne hA1 hA3 hB3.
    }
Qed.

Lemma sess_start_inv c src seq r st : Inv st -> Inv (sess_start c src seq r st).
Proof.
  intros H. unfold sess_start.
  destruct (sc_st (scalls st c)) eqn:Ef; auto.
  destruct r as [[dst|]| | | | |]; try (apply reject_inv; auto).
  destruct (Nat.eqb_spec seq 0); cbn; try (apply reject_inv; auto).
  destruct (Nat.eqb_spec dst src); cbn; try (apply reject_inv; auto).
  apply sess_register_inv; auto.
Qed.
