(* Preservation of the invariant by the Session actions. *)
From Bifrost Require Import Lib.Base SignalRelay.Model SignalRelay.Inv SignalRelay.PresL.
Local Open Scope nat_scope.

Lemma gate_go c seq st d :
  req_gate c seq st = GGo d ->
  s_epoch (ses st (sc_s (scalls st c))) = seq /\
  side (ses st (sc_s (scalls st c))) (sc_isA (scalls st c)) = Some c /\
  side (ses st (sc_s (scalls st c))) (negb (sc_isA (scalls st c))) = Some d.
Proof.
  unfold req_gate. intros H.
  destruct (s_epoch (ses st (sc_s (scalls st c))) <? seq); try discriminate.
  destruct (Nat.eqb_spec (s_epoch (ses st (sc_s (scalls st c)))) seq); cbn in H; try discriminate.
  destruct (side _ (sc_isA (scalls st c))) as [o|]; try discriminate.
  destruct (side _ (negb (sc_isA (scalls st c)))) as [d'|]; try discriminate.
  destruct (Nat.eqb_spec o c); try discriminate. inversion H; subst. auto.
Qed.

Lemma fail_inv c e st : Inv st -> Inv (fail c e st).
Proof.
  intros H. inv_split H. unfold fail, put_scall.
  constructor; cbn; auto.
  - intros c0 Ha. specialize (hB1 c0). t1.
  - intros s b c0 Hs. specialize (hB2 s b c0 Hs). t1.
  - intros s b c0 Hs. specialize (hB4 s b c0 Hs). t1.
  - intros c0. specialize (hD1 c0). unfold cur_open in *. t1.
  - intros c0. specialize (hD2 c0). t1.
  - intros c0 m. specialize (hD3 c0 m). t1.
  - intros c0 m. specialize (hD4 c0 m). t1.
  - intros c0 m. specialize (hD5 c0 m). t1.
  - intros c0 e0. specialize (hD6 c0 e0). t1.
Qed.

(* the partner found by the gate is the call on the other side: it is alive,
   on the same session, and talks back to c *)
Lemma partner_facts st c d : Inv st ->
  alive (sc_st (scalls st c)) = true ->
  side (ses st (sc_s (scalls st c))) (negb (sc_isA (scalls st c))) = Some d ->
  alive (sc_st (scalls st d)) = true /\ sc_s (scalls st d) = sc_s (scalls st c) /\
  sc_isA (scalls st d) = negb (sc_isA (scalls st c)) /\
  sc_src (scalls st c) = sc_dst (scalls st d) /\ sc_dst (scalls st c) = sc_src (scalls st d) /\ d <> c.
Proof.
  intros H Ha Hs. inv_split H.
  destruct (hB2 _ _ _ Hs) as (Hda & Hds & Hdi).
  destruct (hB1 c Ha) as (_ & Hk & Hi & Hne & _).
  destruct (hB1 d Hda) as (_ & Hk' & Hi' & Hne' & _).
  rewrite Hds in Hk'. rewrite Hk in Hk'. rewrite Hi' in Hdi. rewrite Hi in Hdi.
  destruct (opposite_sides _ _ _ _ Hne' Hne (eq_sym Hk') Hdi) as [X Y].
  repeat split; auto; try congruence.
Qed.

Lemma handle_send_inv c seq m st : Inv st -> alive (sc_st (scalls st c)) = true -> Inv (handle_send c seq m st).
Proof.
  intros H Hal. unfold handle_send.
  destruct (m_ver m) eqn:Ev; cbn; [|apply fail_inv; auto].
  destruct (Nat.eqb_spec (m_from m) (sc_src (scalls st c))) as [Ef|]; cbn; [|apply fail_inv; auto].
  destruct (req_gate c seq st) as [| |d] eqn:Eg; [apply fail_inv; auto|auto|].
  destruct (gate_go _ _ _ _ Eg) as (Hep & Hown & Hpar).
  destruct (partner_facts st c d H Hal Hpar) as (Hda & Hds & Hdi & Hsd & Hds' & Hdc).
  inv_split H. unfold wake_sess, put_box.
  constructor; cbn; auto.
  - intros c0. specialize (hD1 c0). unfold cur_open in *. t1.
  - intros c0 m0. specialize (hD3 c0 m0). t1.
  - intros c0 m0. specialize (hD5 c0 m0). t1.
Qed.

Lemma handle_ack_inv c seq n st : Inv st -> alive (sc_st (scalls st c)) = true -> Inv (handle_ack c seq n st).
Proof.
  intros H Hal. unfold handle_ack.
  destruct (req_gate c seq st) as [| |d] eqn:Eg; [apply fail_inv; auto|auto|].
  destruct (gate_go _ _ _ _ Eg) as (Hep & Hown & Hpar).
  destruct (partner_facts st c d H Hal Hpar) as (Hda & Hds & Hdi & Hsd & Hds' & Hdc).
  destruct (onat_eqb (mb_recvSent (sbox st c)) (Some n)); auto.
  inv_split H. unfold wake_sess, put_box.
  constructor; cbn; auto.
  - intros c0. specialize (hD1 c0). unfold cur_open in *. t1.
  - intros c0 m0. specialize (hD3 c0 m0). t1.
  - intros c0 m0. specialize (hD5 c0 m0). t1.
Qed.

Lemma handle_clear_inv c seq n st : Inv st -> alive (sc_st (scalls st c)) = true -> Inv (handle_clear c seq n st).
Proof.
  intros H Hal. unfold handle_clear.
  destruct (req_gate c seq st) as [| |d] eqn:Eg; [apply fail_inv; auto|auto|].
  destruct (gate_go _ _ _ _ Eg) as (Hep & Hown & Hpar).
  destruct (partner_facts st c d H Hal Hpar) as (Hda & Hds & Hdi & Hsd & Hds' & Hdc).
  inv_split H. unfold put_box.
  destruct (match mb_recv (sbox st d) with Some m => m_seqno m =? n | None => false end).
  - constructor; cbn; auto.
    + intros c0 m0. specialize (hD3 c0 m0). t1.
    + intros c0 m0. specialize (hD5 c0 m0). t1.
  - destruct (onat_eqb (mb_recvSent (sbox st d)) (Some n)); [|constructor; auto].
    constructor; cbn; auto.
    + intros c0 m0. specialize (hD3 c0 m0). t1.
    + intros c0 m0. specialize (hD5 c0 m0). t1.
Qed.

Lemma sess_req_inv c seq r st : Inv st -> Inv (sess_req c seq r st).
Proof.
  intros H. unfold sess_req.
  destruct (alive (sc_st (scalls st c))) eqn:Ea; cbn; auto.
  destruct (negb (is_some (sc_perr (scalls st c)))); auto.
  destruct r; auto using fail_inv, handle_send_inv, handle_ack_inv, handle_clear_inv.
Qed.

Lemma last_open_app out l : last_open (out ++ l) = fold_left last_open_step l (last_open out).
Proof. unfold last_open. apply fold_left_app. Qed.

Lemma olist_no_ann {A} (o : option A) (f : A -> sresp) acc :
  (forall a, last_open_step acc (f a) = acc) -> fold_left last_open_step (olist o f) acc = acc.
Proof. destruct o; cbn; auto. Qed.

Lemma sess_iter_inv c st : Inv st -> Inv (sess_iter c st).
Proof.
  intros H. unfold sess_iter.
  destruct (is_running (sc_st (scalls st c)) && swoken st c) eqn:E0; [|exact H].
  apply andb_true_iff in E0 as [Er Ew].
  destruct (sc_st (scalls st c)) eqn:Est; try discriminate. clear Er.
  assert (Hal : alive (sc_st (scalls st c)) = true) by (rewrite Est; reflexivity).
  destruct (onat_eqb_spec (side (ses st (sc_s (scalls st c))) (sc_isA (scalls st c))) (Some c)) as [Hown|Hown]; cbn.
  - (* current *)
    destruct (side (ses st (sc_s (scalls st c))) (negb (sc_isA (scalls st c)))) as [d|] eqn:Hpar; cbn.
    + (* open: take the mailbox *)
      pose proof (iD3 _ H c) as Hbox. pose proof (iD2 _ H c) as Hprev.
      inv_split H. unfold put_scall, put_box, put_swoken, wake_sess.
      assert (Hout : last_open (sc_out (scalls st c) ++
                (if onat_eqb (sc_prev (scalls st c)) (Some (s_epoch (ses st (sc_s (scalls st c))))) then []
                 else [SOpened (s_epoch (ses st (sc_s (scalls st c))))]) ++
                olist (mb_outAcked (sbox st c)) SAck ++ olist (mb_recvClear (sbox st c)) SClear ++
                olist (mb_recv (sbox st c)) SRecv) = Some (s_epoch (ses st (sc_s (scalls st c))))).
      { rewrite last_open_app, !fold_left_app, !olist_no_ann by reflexivity.
        destruct (onat_eqb_spec (sc_prev (scalls st c)) (Some (s_epoch (ses st (sc_s (scalls st c)))))); cbn; congruence. }
      destruct (mb_recv (sbox st c)) as [m|] eqn:Em; cbn.
      * destruct (Hbox m Hal eq_refl) as [Hv Hf].
        constructor; cbn; auto.
        -- intros c0 Ha. specialize (hB1 c0). t1.
        -- intros s b c0 Hs. specialize (hB2 s b c0 Hs). t1.
        -- intros s b c0 Hs. specialize (hB4 s b c0 Hs). t1.
        -- intros c0. specialize (hD1 c0). unfold cur_open in *. t1. all: rewrite ?Hpar; fin.
        -- intros c0. specialize (hD2 c0). t1.
        -- intros c0 m0. specialize (hD3 c0 m0). t1.
        -- intros c0 m0. specialize (hD4 c0 m0). unfold upd; cbn. destruct (Nat.eqb_spec c0 c); subst; cbn; auto.
           rewrite !in_app_iff. intros [X|[X|[X|[X|X]]]]; auto.
           ++ destruct (onat_eqb _ _); cbn in X; intuition discriminate.
           ++ destruct (mb_outAcked (sbox st c)); cbn in X; intuition discriminate.
           ++ destruct (mb_recvClear (sbox st c)); cbn in X; intuition discriminate.
           ++ cbn in X. destruct X as [X|[]]. inversion X; subst; auto.
        -- intros c0 m0. specialize (hD5 c0 m0). t1.
        -- intros c0 e0. specialize (hD6 c0 e0). t1.
      * constructor; cbn; auto.
        -- intros c0 Ha. specialize (hB1 c0). t1.
        -- intros s b c0 Hs. specialize (hB2 s b c0 Hs). t1.
        -- intros s b c0 Hs. specialize (hB4 s b c0 Hs). t1.
        -- intros c0. specialize (hD1 c0). unfold cur_open in *. t1. all: rewrite ?Hpar; fin.
        -- intros c0. specialize (hD2 c0). t1.
        -- intros c0 m0. specialize (hD3 c0 m0). t1.
        -- intros c0 m0. specialize (hD4 c0 m0). unfold upd; cbn. destruct (Nat.eqb_spec c0 c); subst; cbn; auto.
           rewrite !in_app_iff. intros [X|[X|[X|[X|X]]]]; auto.
           ++ destruct (onat_eqb _ _); cbn in X; intuition discriminate.
           ++ destruct (mb_outAcked (sbox st c)); cbn in X; intuition discriminate.
           ++ destruct (mb_recvClear (sbox st c)); cbn in X; intuition discriminate.
           ++ destruct X.
        -- intros c0 m0. specialize (hD5 c0 m0). t1.
        -- intros c0 e0. specialize (hD6 c0 e0). t1.
    + (* partner not attached *)
      pose proof (iD2 _ H c) as Hprev.
      inv_split H. unfold put_scall, put_swoken.
      assert (Hout : last_open (sc_out (scalls st c) ++
                (if onat_eqb (sc_prev (scalls st c)) None then [] else [SClosed]) ++ []) = None).
      { rewrite last_open_app, !fold_left_app.
        destruct (onat_eqb_spec (sc_prev (scalls st c)) None); cbn; congruence. }
      constructor; cbn; auto.
      * intros c0 Ha. specialize (hB1 c0). t1.
      * intros s b c0 Hs. specialize (hB2 s b c0 Hs). t1.
      * intros s b c0 Hs. specialize (hB4 s b c0 Hs). t1.
      * intros c0. specialize (hD1 c0). unfold cur_open in *. t1. all: rewrite ?Hpar; fin.
      * intros c0. specialize (hD2 c0). t1.
      * intros c0 m0. specialize (hD3 c0 m0). t1.
      * intros c0 m0. specialize (hD4 c0 m0). unfold upd; cbn. destruct (Nat.eqb_spec c0 c); subst; cbn; auto.
        rewrite !in_app_iff. intros [X|[X|X]]; auto.
        -- destruct (onat_eqb _ _); cbn in X; intuition discriminate.
        -- destruct X.
      * intros c0 m0. specialize (hD5 c0 m0). t1.
      * intros c0 e0. specialize (hD6 c0 e0). t1.
  - (* usurped *)
    inv_split H. unfold put_scall, put_swoken.
    constructor; cbn; auto.
    + intros c0 Ha. specialize (hB1 c0). t1.
    + intros s b c0 Hs. specialize (hB2 s b c0 Hs). t1.
    + intros s b c0 Hs. specialize (hB4 s b c0 Hs). t1.
    + intros c0. specialize (hD1 c0). unfold cur_open in *. t1. all: rewrite ?Hpar; fin.
    + intros c0. specialize (hD2 c0). t1.
    + intros c0 m0. specialize (hD3 c0 m0). t1.
    + intros c0 m0. specialize (hD4 c0 m0). t1.
    + intros c0 m0. specialize (hD5 c0 m0). t1.
    + intros c0 e0. specialize (hD6 c0 e0). t1.
Qed.

Lemma last_open_nil : last_open [] = None.
Proof. reflexivity. Qed.

(* a call that is not alive is on no side of any session *)
Lemma not_alive_not_side st c s b : Inv st -> alive (sc_st (scalls st c)) = false -> side (ses st s) b <> Some c.
Proof. intros H Hn Hs. destruct (iB2 _ H _ _ _ Hs) as [X _]. congruence. Qed.

Lemma reject_inv c src e st : Inv st -> sc_st (scalls st c) = Fresh -> Inv (put_scall c (ended_scall src e) st).
Proof.
  intros H Hf.
  assert (Hns : forall s b, side (ses st s) b <> Some c).
  { intros. apply not_alive_not_side; auto. rewrite Hf; reflexivity. }
  inv_split H. unfold put_scall.
  constructor; cbn; auto.
  - intros c0 Ha. specialize (hB1 c0). t1.
  - intros s b c0 Hs. specialize (hB2 s b c0 Hs). specialize (Hns s b). t1.
  - intros s b c0 Hs. specialize (hB4 s b c0 Hs). specialize (Hns s b). t1.
  - intros c0. specialize (hD1 c0). unfold cur_open in *. t1.
  - intros c0. specialize (hD2 c0). t1.
  - intros c0 m. specialize (hD3 c0 m). t1.
  - intros c0 m. specialize (hD4 c0 m). t1.
  - intros c0 m. specialize (hD5 c0 m). specialize (Hns 0 false). t1.
  - intros c0 e0. specialize (hD6 c0 e0). t1.
Qed.
