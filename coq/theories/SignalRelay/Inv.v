(* Invariants of the relay LTS and the basic lemmas used to prove them. Every
   clause is a predicate over the state fields it reads, so that an action
   that does not write those fields preserves it by computation. *)
From Bifrost Require Import Lib.Base SignalRelay.Model.
Local Open Scope nat_scope.

Global Arguments announced : simpl never.
Global Arguments last_open : simpl never.
Global Arguments mkkey : simpl never.
Global Arguments is_a : simpl never.
Global Arguments remove : simpl never.
Global Arguments memb : simpl never.
Global Arguments subset : simpl never.

(* ---- basic facts ---- *)
Lemma key_eqb_spec a b : reflect (a = b) (key_eqb a b).
Proof.
  destruct a as [a1 a2], b as [b1 b2]; unfold key_eqb; cbn [fst snd].
  destruct (Nat.eqb_spec a1 b1), (Nat.eqb_spec a2 b2); cbn; constructor; congruence.
Qed.

Lemma onat_eqb_spec a b : reflect (a = b) (onat_eqb a b).
Proof.
  destruct a, b; cbn; try (constructor; congruence).
  destruct (Nat.eqb_spec n n0); constructor; congruence.
Qed.

Lemma memb_spec q l : reflect (In q l) (memb q l).
Proof.
  unfold memb. destruct (existsb (Nat.eqb q) l) eqn:E; constructor.
  - apply existsb_exists in E as (x & Hx & Ex). apply Nat.eqb_eq in Ex. subst; auto.
  - intros H. assert (existsb (Nat.eqb q) l = true); [|congruence].
    apply existsb_exists. exists q. split; auto. apply Nat.eqb_refl.
Qed.

Lemma in_remove q x l : In x (remove q l) <-> In x l /\ x <> q.
Proof.
  unfold remove. rewrite filter_In. destruct (Nat.eqb_spec x q); cbn; intuition congruence.
Qed.

Lemma subset_spec a b : subset a b = true <-> (forall x, In x a -> In x b).
Proof.
  unfold subset. rewrite forallb_forall. split; intros H x Hx.
  - specialize (H x Hx). destruct (memb_spec x b); auto; discriminate.
  - destruct (memb_spec x b); auto.
Qed.

Lemma is_nil_spec {A} (l : list A) : is_nil l = true <-> l = [].
Proof. destruct l; cbn; split; congruence. Qed.

Lemma mkkey_eq q p a b : q <> p -> a <> b ->
  mkkey q p = mkkey a b -> (q = a /\ p = b) \/ (q = b /\ p = a).
Proof.
  unfold mkkey. intros.
  destruct (Nat.ltb_spec q p), (Nat.ltb_spec a b); inversion H1; subst; auto; lia.
Qed.

Lemma mkkey_swap a b : a <> b -> mkkey a b = mkkey b a.
Proof. unfold mkkey. intros. destruct (Nat.ltb_spec a b), (Nat.ltb_spec b a); auto; lia. Qed.

Lemma is_a_swap a b : a <> b -> is_a b a = negb (is_a a b).
Proof. unfold is_a. intros. destruct (Nat.ltb_spec a b), (Nat.ltb_spec b a); auto; lia. Qed.

(* two calls on opposite sides of one session talk to each other *)
Lemma opposite_sides s1 d1 s2 d2 :
  s1 <> d1 -> s2 <> d2 -> mkkey s1 d1 = mkkey s2 d2 -> is_a s1 d1 = negb (is_a s2 d2) ->
  s1 = d2 /\ d1 = s2.
Proof.
  unfold mkkey, is_a. intros.
  destruct (Nat.ltb_spec s1 d1), (Nat.ltb_spec s2 d2); cbn in *; try discriminate; inversion H1; subst; auto.
Qed.

Lemma same_side s1 d1 s2 d2 :
  s1 <> d1 -> s2 <> d2 -> mkkey s1 d1 = mkkey s2 d2 -> is_a s1 d1 = is_a s2 d2 ->
  s1 = s2 /\ d1 = d2.
Proof.
  unfold mkkey, is_a. intros.
  destruct (Nat.ltb_spec s1 d1), (Nat.ltb_spec s2 d2); cbn in *; try discriminate; inversion H1; subst; auto.
Qed.

Lemma fold_left_app1 {A B} (f : A -> B -> A) l x a : fold_left f (l ++ [x]) a = f (fold_left f l a) x.
Proof. rewrite fold_left_app. reflexivity. Qed.

(* ---- the invariant, clause by clause ---- *)
Section Clauses.
  Variables (pe : nat -> option nat) (tk : nat -> tracker) (nt : nat)
            (sm : nat * nat -> option nat) (se : nat -> session) (nsd : nat)
            (lc : nat -> lcall) (lw : nat -> bool)
            (sc : nat -> scall) (sw : nat -> bool) (bx : nat -> mailbox).

  (* allocation and identity *)
  Definition A1 := forall p t, pe p = Some t -> t < nt /\ t_owner (tk t) = p.
  Definition A2 := forall t, pe (t_owner (tk t)) <> Some t -> t_wants (tk t) = [] /\ t_listening (tk t) = false.
  Definition A3 := forall k s, sm k = Some s -> s < nsd /\ s_key (se s) = k.
  Definition A4 := forall s b c, side (se s) b = Some c -> sm (s_key (se s)) = Some s.
  Definition A5 := forall k s, sm k = Some s -> s_a (se s) <> None \/ s_b (se s) <> None.
  Definition A6 := forall p t, pe p = Some t -> t_listening (tk t) = true \/ t_wants (tk t) <> [].

  (* session calls *)
  Definition B1 := forall c, alive (sc_st (sc c)) = true ->
    sc_s (sc c) < nsd /\ s_key (se (sc_s (sc c))) = mkkey (sc_src (sc c)) (sc_dst (sc c)) /\
    sc_isA (sc c) = is_a (sc_src (sc c)) (sc_dst (sc c)) /\ sc_src (sc c) <> sc_dst (sc c) /\
    sc_dt (sc c) < nt /\ t_owner (tk (sc_dt (sc c))) = sc_dst (sc c).
  Definition B2 := forall s b c, side (se s) b = Some c ->
    alive (sc_st (sc c)) = true /\ sc_s (sc c) = s /\ sc_isA (sc c) = b.
  Definition B4 := forall s b c, side (se s) b = Some c -> In (sc_src (sc c)) (t_wants (tk (sc_dt (sc c)))).
  Definition cur (q p : nat) : option nat :=
    match sm (mkkey q p) with Some s => side (se s) (is_a q p) | None => None end.
  Definition B3 := forall p t q, pe p = Some t -> In q (t_wants (tk t)) -> q <> p /\ cur q p <> None.

  (* listen calls *)
  Definition C1 := forall c, alive (lc_st (lc c)) = true ->
    lc_t (lc c) < nt /\ t_owner (tk (lc_t (lc c))) = lc_p (lc c) /\ lc_n (lc c) <= t_nonce (tk (lc_t (lc c))).
  Definition C2 := forall c, alive (lc_st (lc c)) = true -> lc_n (lc c) = t_nonce (tk (lc_t (lc c))) ->
    t_lcur (tk (lc_t (lc c))) = c /\ t_listening (tk (lc_t (lc c))) = true.
  Definition C3 := forall t, t_listening (tk t) = true ->
    alive (lc_st (lc (t_lcur (tk t)))) = true /\ lc_t (lc (t_lcur (tk t))) = t /\
    lc_n (lc (t_lcur (tk t))) = t_nonce (tk t).
  Definition C4 := forall c e, lc_st (lc c) = Ending e -> e = EReplaced /\ lc_n (lc c) < t_nonce (tk (lc_t (lc c))).
  Definition C5 := forall c, lc_st (lc c) = Running -> lw c = false ->
    t_nonce (tk (lc_t (lc c))) = lc_n (lc c) /\
    forall q, In q (lc_sent (lc c)) <-> In q (t_wants (tk (lc_t (lc c)))).
  Definition C6 := forall c, lc_sent (lc c) = announced (lc_out (lc c)).

  (* session dynamics *)
  Definition cur_open (c : nat) : option nat :=
    match side (se (sc_s (sc c))) (negb (sc_isA (sc c))) with
    | Some _ => Some (s_epoch (se (sc_s (sc c))))
    | None => None
    end.
  Definition D1 := forall c, sc_st (sc c) = Running -> sw c = false ->
    side (se (sc_s (sc c))) (sc_isA (sc c)) = Some c /\ sc_prev (sc c) = cur_open c.
  Definition D2 := forall c, sc_prev (sc c) = last_open (sc_out (sc c)).
  Definition D3 := forall c m, alive (sc_st (sc c)) = true -> mb_recv (bx c) = Some m ->
    m_ver m = true /\ m_from m = sc_dst (sc c).
  Definition D4 := forall c m, In (SRecv m) (sc_out (sc c)) -> m_ver m = true /\ m_from m = sc_dst (sc c).
  Definition D5 := forall c m, side (se (sc_s (sc c))) (sc_isA (sc c)) = Some c -> mb_recv (bx c) = Some m ->
    mb_gep (bx c) = s_epoch (se (sc_s (sc c))).
  Definition D6 := forall c e, sc_st (sc c) = Ending e ->
    e = EReplaced /\ side (se (sc_s (sc c))) (sc_isA (sc c)) <> Some c.
End Clauses.

Record Inv (st : state) : Prop := {
  iA1 : A1 (peers st) (trk st) (next_tid st);
  iA2 : A2 (peers st) (trk st);
  iA3 : A3 (sessions st) (ses st) (next_sid st);
  iA4 : A4 (sessions st) (ses st);
  iA5 : A5 (sessions st) (ses st);
  iA6 : A6 (peers st) (trk st);
  iB1 : B1 (trk st) (next_tid st) (ses st) (next_sid st) (scalls st);
  iB2 : B2 (ses st) (scalls st);
  iB3 : B3 (peers st) (trk st) (sessions st) (ses st);
  iB4 : B4 (trk st) (ses st) (scalls st);
  iC1 : C1 (trk st) (next_tid st) (lcalls st);
  iC2 : C2 (trk st) (lcalls st);
  iC3 : C3 (trk st) (lcalls st);
  iC4 : C4 (trk st) (lcalls st);
  iC5 : C5 (trk st) (lcalls st) (lwoken st);
  iC6 : C6 (lcalls st);
  iD1 : D1 (ses st) (scalls st) (swoken st);
  iD2 : D2 (scalls st);
  iD3 : D3 (scalls st) (sbox st);
  iD4 : D4 (scalls st);
  iD5 : D5 (ses st) (scalls st) (sbox st);
  iD6 : D6 (ses st) (scalls st) }.
