(* Preservation of the invariant by the Listen actions. *)
From Bifrost Require Import Lib.Base SignalRelay.Model SignalRelay.Inv.
Local Open Scope nat_scope.

Ltac inv_split H :=
  destruct H as [hA1 hA2 hA3 hA4 hA5 hA6 hB1 hB2 hB3 hB4 hC1 hC2 hC3 hC4 hC5 hC6 hD1 hD2 hD3 hD4 hD5 hD6].

Ltac beq :=
  repeat match goal with
  | |- context[Nat.eqb ?a ?b] => destruct (Nat.eqb_spec a b); subst
  | H : context[Nat.eqb ?a ?b] |- _ => destruct (Nat.eqb_spec a b); subst
  | |- context[key_eqb ?a ?b] => destruct (key_eqb_spec a b); subst
  | H : context[key_eqb ?a ?b] |- _ => destruct (key_eqb_spec a b); subst
  | |- context[onat_eqb ?a ?b] => destruct (onat_eqb_spec a b); subst
  | H : context[onat_eqb ?a ?b] |- _ => destruct (onat_eqb_spec a b); subst
  end.

Ltac upd_case x c := unfold upd in *; destruct (Nat.eqb_spec x c); subst; cbn in *.

Ltac fin := auto; try lia; try congruence; try discriminate.

Lemma listen_iter_inv c w u st : Inv st -> Inv (listen_iter c w u st).
Proof.
  intros H. unfold listen_iter.
  destruct (is_running (lc_st (lcalls st c)) && lwoken st c) eqn:E0; [|exact H].
  apply andb_true_iff in E0 as [Er Ew].
  destruct (lc_st (lcalls st c)) eqn:Est; try discriminate. clear Er.
  inv_split H.
  assert (Hc1 := hC1 c). rewrite Est in Hc1. specialize (Hc1 eq_refl). destruct Hc1 as (Hc1a & Hc1b & Hc1c).
  destruct (negb (t_nonce (trk st (lc_t (lcalls st c))) =? lc_n (lcalls st c))) eqn:En.
  - (* usurped: return ErrUserpedListen *)
    apply negb_true_iff, Nat.eqb_neq in En.
    constructor; cbn; auto.
    + intros c0 Ha. upd_case c0 c; fin.
    + intros c0 Ha Hn. upd_case c0 c; fin.
    + intros t Ht. destruct (hC3 t Ht) as (X1 & X2 & X3). upd_case (t_lcur (trk st t)) c; fin.
    + intros c0 e He. upd_case c0 c; eauto. inversion He; subst. split; fin.
    + intros c0 Hr Hw. upd_case c0 c; fin.
    + intros c0. upd_case c0 c; fin.
  - apply negb_false_iff, Nat.eqb_eq in En.
    destruct (want_guard w _ _ && want_guard u _ _) eqn:Eg;
      [|constructor; auto].
    apply andb_true_iff in Eg as [Gw Gu].
    constructor; cbn; auto.
    + intros c0 Ha. upd_case c0 c; fin.
    + intros c0 Ha Hn. upd_case c0 c; fin. apply hC2; fin. rewrite Est; fin.
    + intros t Ht. destruct (hC3 t Ht) as (X1 & X2 & X3). upd_case (t_lcur (trk st t)) c; fin.
    + intros c0 e He. upd_case c0 c; eauto. discriminate.
    + intros c0 Hr Hw. upd_case c0 c; fin.
      split; fin.
      destruct w as [qw|], u as [qu|]; cbn in Hw; try discriminate.
      cbn in Gw, Gu. rewrite subset_spec in Gw, Gu. intros q; split; auto.
    + intros c0. upd_case c0 c; fin.
      unfold announced. rewrite !fold_left_app. fold (announced (lc_out (lcalls st c))). rewrite <- hC6.
      destruct w, u; cbn; reflexivity.
Qed.

Ltac t0 := intros; unfold upd in *; cbn in *; beq; cbn in *; fin.

Ltac rw_st := repeat match goal with
  | E : lc_st _ = _ |- _ => rewrite E in *
  | E : sc_st _ = _ |- _ => rewrite E in *
  | E : sc_isA _ = _ |- _ => rewrite E in *
  end; cbn in *.
Ltac rw_eqs := repeat match goal with
  | E : lc_t _ = _ |- _ => rewrite E in *; clear E
  | E : sc_s _ = _ |- _ => rewrite E in *; clear E
  | E : sc_dt _ = _ |- _ => rewrite E in *; clear E
  end.
Ltac t1 := t0; try solve [intuition fin]; try solve [intuition (rw_st; fin)]; try solve [intuition (rw_eqs; rw_st; fin)].

Lemma listen_start_inv c p st : Inv st -> Inv (listen_start c p st).
Proof.
  intros H. unfold listen_start.
  destruct (lc_st (lcalls st c)) eqn:Est; try exact H.
  inv_split H.
  destruct (peers st p) as [t|] eqn:Ep.
  - destruct (hA1 p t Ep) as [Ht Ho].
    constructor; unfold put_lwoken, put_lcall, wake_trk, put_trk; cbn; auto.
    + intros p0 t0 Hp. destruct (hA1 p0 t0 Hp). t1.
    + intros t0. specialize (hA2 t0). t1.
    + intros p0 t0 Hp. specialize (hA6 p0 t0 Hp). t1.
    + intros c0 Ha. specialize (hB1 c0 Ha). t1.
    + intros p0 t0 q Hp. specialize (hB3 p0 t0 q Hp). t1.
    + intros s b c0 Hs. specialize (hB4 s b c0 Hs). t1.
    + intros c0. specialize (hC1 c0). t1.
    + intros c0. specialize (hC2 c0). specialize (hC1 c0). t1.
    + intros t0. specialize (hC3 t0). t1.
    + intros c0 e. specialize (hC4 c0 e). t1.
    + intros c0. specialize (hC5 c0). t1.
    + intros c0. specialize (hC6 c0). t1.
  - assert (Hfresh : forall p0, peers st p0 <> Some (next_tid st)).
    { intros p0 Hp. destruct (hA1 p0 _ Hp). lia. }
    destruct (hA2 (next_tid st)) as [Hw0 Hl0]; [apply Hfresh|].
    constructor; unfold put_lwoken, put_lcall, wake_trk, put_trk; cbn; auto.
    + intros p0 t0 Hp. specialize (hA1 p0 t0). t1.
    + intros t0. specialize (hA2 t0). specialize (Hfresh (t_owner (trk st t0))). t1.
    + intros p0 t0 Hp. specialize (hA6 p0 t0). specialize (Hfresh p0). t1.
    + intros c0 Ha. specialize (hB1 c0 Ha). t1.
    + intros p0 t0 q Hp. specialize (hB3 p0 t0 q). specialize (Hfresh p0). t1.
    + intros s b c0 Hs. specialize (hB4 s b c0 Hs). specialize (hB1 c0). specialize (hB2 s b c0 Hs). t1.
    + intros c0. specialize (hC1 c0). t1.
    + intros c0. specialize (hC2 c0). specialize (hC1 c0). t1.
    + intros t0. specialize (hC3 t0). t1.
    + intros c0 e. specialize (hC4 c0 e). specialize (hC1 c0). t1.
    + intros c0. specialize (hC5 c0). specialize (hC1 c0). t1.
    + intros c0. specialize (hC6 c0). t1.
Qed.

Lemma listen_end_inv c st : Inv st -> Inv (listen_end c st).
Proof.
  intros H. unfold listen_end.
  destruct (alive (lc_st (lcalls st c))) eqn:Ea; [|exact H].
  inv_split H.
  destruct (hC1 c Ea) as (Hc1a & Hc1b & Hc1c).
  destruct (onat_eqb (peers st (lc_p (lcalls st c))) (Some (lc_t (lcalls st c))) &&
            (t_nonce (trk st (lc_t (lcalls st c))) =? lc_n (lcalls st c))) eqn:Ec.
  - apply andb_true_iff in Ec as [Ep En].
    destruct (onat_eqb_spec (peers st (lc_p (lcalls st c))) (Some (lc_t (lcalls st c)))) as [Ep'|]; try discriminate.
    apply Nat.eqb_eq in En. clear Ep.
    destruct (hC2 c Ea (eq_sym En)) as [Hcur Hlis].
    unfold maybe_release_peer, wake_trk, put_trk, put_lcall. cbn. rewrite Ep'. unfold upd. cbn. rewrite !Nat.eqb_refl. cbn.
    destruct (is_nil (t_wants (trk st (lc_t (lcalls st c))))) eqn:Enil; cbn.
    + apply is_nil_spec in Enil.
      constructor; cbn; auto.
      * intros p0 t0 Hp. specialize (hA1 p0 t0). t1.
      * intros t0. specialize (hA2 t0). t1.
      * intros p0 t0 Hp. specialize (hA6 p0 t0). pose proof (hA1 p0 t0). t1.
      * intros c0 Ha. specialize (hB1 c0 Ha). t1.
      * intros p0 t0 q Hp. specialize (hB3 p0 t0 q). pose proof (hA1 p0 t0). t1.
      * intros s b c0 Hs. specialize (hB4 s b c0 Hs). t1.
      * intros c0. specialize (hC1 c0). t1.
      * intros c0. specialize (hC2 c0). specialize (hC1 c0). t1.
      * intros t0. specialize (hC3 t0). t1.
      * intros c0 e. specialize (hC4 c0 e). specialize (hC1 c0). t1.
      * intros c0. specialize (hC5 c0). specialize (hC1 c0). t1.
      * intros c0. specialize (hC6 c0). t1.
    + assert (Hnn : t_wants (trk st (lc_t (lcalls st c))) <> []).
      { intros X. rewrite X in Enil. discriminate. }
      constructor; cbn; auto.
      * intros p0 t0 Hp. specialize (hA1 p0 t0). t1.
      * intros t0. specialize (hA2 t0). t1.
      * intros p0 t0 Hp. specialize (hA6 p0 t0). pose proof (hA1 p0 t0). t1.
      * intros c0 Ha. specialize (hB1 c0 Ha). t1.
      * intros p0 t0 q Hp. specialize (hB3 p0 t0 q). pose proof (hA1 p0 t0). t1.
      * intros s b c0 Hs. specialize (hB4 s b c0 Hs). t1.
      * intros c0. specialize (hC1 c0). t1.
      * intros c0. specialize (hC2 c0). specialize (hC1 c0). t1.
      * intros t0. specialize (hC3 t0). t1.
      * intros c0 e. specialize (hC4 c0 e). specialize (hC1 c0). t1.
      * intros c0. specialize (hC5 c0). specialize (hC1 c0). t1.
      * intros c0. specialize (hC6 c0). t1.
  - assert (Hnot : ~ (lc_n (lcalls st c) = t_nonce (trk st (lc_t (lcalls st c))))).
    { intros Hn. destruct (hC2 c Ea Hn) as [_ Hl].
      destruct (onat_eqb_spec (peers st (lc_p (lcalls st c))) (Some (lc_t (lcalls st c)))) as [Ep|Ep].
      - rewrite Hn, Nat.eqb_refl in Ec. discriminate.
      - rewrite <- Hc1b in Ep. destruct (hA2 _ Ep). congruence. }
    unfold put_lcall. constructor; cbn; auto.
    + intros c0. specialize (hC1 c0). t1.
    + intros c0. specialize (hC2 c0). specialize (hC1 c0). t1.
    + intros t0. specialize (hC3 t0). t1.
    + intros c0 e. specialize (hC4 c0 e). specialize (hC1 c0). t1.
    + intros c0. specialize (hC5 c0). specialize (hC1 c0). t1.
    + intros c0. specialize (hC6 c0). t1.
Qed.
