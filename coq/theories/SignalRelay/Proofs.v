(* Theorems about the relay LTS: step-level facts (direct), the invariant over
   all action sequences, and the property statements derived from it. *)
From Bifrost Require Import Lib.Base SignalRelay.Model SignalRelay.Inv SignalRelay.PresL.
Local Open Scope nat_scope.

(* ---------------------------------------------------------------- *)
(* step-level facts about requests (C20)                             *)
(* ---------------------------------------------------------------- *)

(* a request that passes the authenticity checks of its handler *)
Definition admissible (st : state) (c : nat) (r : req) : Prop :=
  match r with
  | RSend m => m_ver m = true /\ m_from m = sc_src (scalls st c)
  | RAck _ | RClear _ => True
  | _ => False
  end.

Definition epoch_of (st : state) (c : nat) : nat := s_epoch (ses st (sc_s (scalls st c))).

Lemma gate_stale st c seq : seq < epoch_of st c -> req_gate c seq st = GDrop.
Proof.
  unfold req_gate, epoch_of. intros H.
  destruct (Nat.ltb_spec (s_epoch (ses st (sc_s (scalls st c)))) seq); try lia.
  destruct (Nat.eqb_spec (s_epoch (ses st (sc_s (scalls st c)))) seq); try lia. reflexivity.
Qed.

Lemma gate_future st c seq : epoch_of st c < seq -> req_gate c seq st = GErr.
Proof.
  unfold req_gate, epoch_of. intros H.
  destruct (Nat.ltb_spec (s_epoch (ses st (sc_s (scalls st c)))) seq); try lia. reflexivity.
Qed.

(* messages for an older epoch are not forwarded: the relay state is unchanged *)
Lemma stale_no_effect st c seq r :
  admissible st c r -> seq < epoch_of st c -> sess_req c seq r st = st.
Proof.
  intros Ha Hs. unfold sess_req.
  destruct (alive (sc_st (scalls st c)) && negb (is_some (sc_perr (scalls st c)))); auto.
  destruct r; cbn in Ha; try contradiction.
  - destruct Ha as [Hv Hf]. unfold handle_send. rewrite Hv, Hf, Nat.eqb_refl. cbn.
    rewrite gate_stale; auto.
  - unfold handle_ack. rewrite gate_stale; auto.
  - unfold handle_clear. rewrite gate_stale; auto.
Qed.

(* messages for a newer epoch are rejected: the only effect is the pending error *)
Lemma future_rejected st c seq r :
  admissible st c r -> epoch_of st c < seq ->
  alive (sc_st (scalls st c)) = true -> sc_perr (scalls st c) = None ->
  sess_req c seq r st = fail c ERejected st.
Proof.
  intros Ha Hs Hal Hp. unfold sess_req. rewrite Hal, Hp. cbn.
  destruct r; cbn in Ha; try contradiction.
  - destruct Ha as [Hv Hf]. unfold handle_send. rewrite Hv, Hf, Nat.eqb_refl. cbn.
    rewrite gate_future; auto.
  - unfold handle_ack. rewrite gate_future; auto.
  - unfold handle_clear. rewrite gate_future; auto.
Qed.

(* an unauthentic SendMsg (bad signature, or signed by another identity than the
   stream's) has no effect but the pending error, whatever the epoch *)
Lemma unauthentic_rejected st c seq m :
  (m_ver m = false \/ m_from m <> sc_src (scalls st c)) ->
  alive (sc_st (scalls st c)) = true -> sc_perr (scalls st c) = None ->
  sess_req c seq (RSend m) st = fail c ERejected st.
Proof.
  intros Hb Hal Hp. unfold sess_req. rewrite Hal, Hp. cbn. unfold handle_send.
  destruct (m_ver m); cbn; auto.
  destruct Hb as [Hb|Hb]; try discriminate.
  destruct (Nat.eqb_spec (m_from m) (sc_src (scalls st c))); try contradiction. reflexivity.
Qed.

(* a pending error ends the call with that error, and the read goroutine
   handles no further request *)
Lemma pending_error_ends st c e :
  sc_st (scalls st c) = Running -> sc_perr (scalls st c) = Some e ->
  sc_st (scalls (sess_end c false st) c) = Ended e /\
  forall seq r, sess_req c seq r st = st.
Proof.
  intros Hr Hp. split.
  - unfold sess_end, end_error. rewrite Hr, Hp. unfold put_scall. cbn. unfold upd. rewrite Nat.eqb_refl. reflexivity.
  - intros. unfold sess_req. rewrite Hr, Hp. reflexivity.
Qed.

Lemma fail_only_perr c e st :
  peers (fail c e st) = peers st /\ trk (fail c e st) = trk st /\ sessions (fail c e st) = sessions st /\
  ses (fail c e st) = ses st /\ sbox (fail c e st) = sbox st /\ swoken (fail c e st) = swoken st /\
  sc_perr (scalls (fail c e st) c) = Some e /\ sc_out (scalls (fail c e st) c) = sc_out (scalls st c) /\
  forall c', c' <> c -> scalls (fail c e st) c' = scalls st c'.
Proof.
  unfold fail, put_scall. cbn. unfold upd. rewrite Nat.eqb_refl. cbn. repeat split; auto.
  intros c' Hc. destruct (Nat.eqb_spec c' c); congruence.
Qed.

(* the first request must be Init with session seqno 0, a parsable non-empty
   peer id different from the caller: otherwise the call ends at once and the
   relay registers nothing *)
Definition valid_init (src seq : nat) (r : req) : Prop :=
  exists dst, r = RInit (Some dst) /\ seq = 0 /\ dst <> src.

Lemma bad_first_request st c src seq r :
  sc_st (scalls st c) = Fresh -> ~ valid_init src seq r ->
  let st' := sess_start c src seq r st in
  (exists e, sc_st (scalls st' c) = Ended e /\ (e = ERejected \/ e = EStream)) /\
  peers st' = peers st /\ trk st' = trk st /\ sessions st' = sessions st /\ ses st' = ses st /\
  sbox st' = sbox st /\ swoken st' = swoken st /\ lwoken st' = lwoken st /\
  forall c', c' <> c -> scalls st' c' = scalls st c'.
Proof.
  intros Hf Hv. unfold sess_start. rewrite Hf.
  assert (X : forall e, (e = ERejected \/ e = EStream) ->
     let st' := put_scall c (ended_scall src e) st in
     (exists e, sc_st (scalls st' c) = Ended e /\ (e = ERejected \/ e = EStream)) /\
     peers st' = peers st /\ trk st' = trk st /\ sessions st' = sessions st /\ ses st' = ses st /\
     sbox st' = sbox st /\ swoken st' = swoken st /\ lwoken st' = lwoken st /\
     forall c', c' <> c -> scalls st' c' = scalls st c').
  { intros e He. unfold put_scall. cbn. unfold upd. rewrite Nat.eqb_refl. cbn.
    repeat split; eauto. intros c' Hc. destruct (Nat.eqb_spec c' c); congruence. }
  destruct r as [[dst|]| | | | |]; try (apply X; auto).
  destruct (Nat.eqb_spec seq 0); cbn; try (apply X; auto).
  destruct (Nat.eqb_spec dst src); cbn; try (apply X; auto).
  exfalso. apply Hv. exists dst. auto.
Qed.
