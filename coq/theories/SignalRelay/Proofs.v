(* Theorems about the relay LTS: step-level facts (direct), the invariant over
   all action sequences, and the property statements derived from it. *)
From Bifrost Require Import Lib.Base SignalRelay.Model SignalRelay.Inv SignalRelay.PresL SignalRelay.PresS.
Local Open Scope nat_scope.

(* ---------------------------------------------------------------- *)
(* step-level facts about requests (C20)                             *)
(* ---------------------------------------------------------------- *)

(* a request that passes the authenticity checks of its handler *)
Definition admissible (st : state) (c : nat) (r : req) : Prop :=
  match r with
  | RSend m => m_ver m = true /\ m_from m = sc_src (scalls st c)
  | RAck _ | RClear _ => True
  | _ => False
  end.

Definition epoch_of (st : state) (c : nat) : nat := s_epoch (ses st (sc_s (scalls st c))).

Lemma gate_stale st c seq : seq < epoch_of st c -> req_gate c seq st = GDrop.
Proof.
  unfold req_gate, epoch_of. intros H.
  destruct (Nat.ltb_spec (s_epoch (ses st (sc_s (scalls st c)))) seq); try lia.
  destruct (Nat.eqb_spec (s_epoch (ses st (sc_s (scalls st c)))) seq); try lia. reflexivity.
Qed.

Lemma gate_future st c seq : epoch_of st c < seq -> req_gate c seq st = GErr.
Proof.
  unfold req_gate, epoch_of. intros H.
  destruct (Nat.ltb_spec (s_epoch (ses st (sc_s (scalls st c)))) seq); try lia. reflexivity.
Qed.

(* messages for an older epoch are not forwarded: the relay state is unchanged *)
Lemma stale_no_effect st c seq r :
  admissible st c r -> seq < epoch_of st c -> sess_req c seq r st = st.
Proof.
  intros Ha Hs. unfold sess_req.
  destruct (alive (sc_st (scalls st c)) && negb (is_some (sc_perr (scalls st c)))); auto.
  destruct r; cbn in Ha; try contradiction.
  - destruct Ha as [Hv Hf]. unfold handle_send. rewrite Hv, Hf, Nat.eqb_refl. cbn.
    rewrite gate_stale; auto.
  - unfold handle_ack. rewrite gate_stale; auto.
  - unfold handle_clear. rewrite gate_stale; auto.
Qed.

(* messages for a newer epoch are rejected: the only effect is the pending error *)
Lemma future_rejected st c seq r :
  admissible st c r -> epoch_of st c < seq ->
  alive (sc_st (scalls st c)) = true -> sc_perr (scalls st c) = None ->
  sess_req c seq r st = fail c ERejected st.
Proof.
  intros Ha Hs Hal Hp. unfold sess_req. rewrite Hal, Hp. cbn.
  destruct r; cbn in Ha; try contradiction.
  - destruct Ha as [Hv Hf]. unfold handle_send. rewrite Hv, Hf, Nat.eqb_refl. cbn.
    rewrite gate_future; auto.
  - unfold handle_ack. rewrite gate_future; auto.
  - unfold handle_clear. rewrite gate_future; auto.
Qed.

(* an unauthentic SendMsg (bad signature, or signed by another identity than the
   stream's) has no effect but the pending error, whatever the epoch *)
Lemma unauthentic_rejected st c seq m :
  (m_ver m = false \/ m_from m <> sc_src (scalls st c)) ->
  alive (sc_st (scalls st c)) = true -> sc_perr (scalls st c) = None ->
  sess_req c seq (RSend m) st = fail c ERejected st.
Proof.
  intros Hb Hal Hp. unfold sess_req. rewrite Hal, Hp. cbn. unfold handle_send.
  destruct (m_ver m); cbn; auto.
  destruct Hb as [Hb|Hb]; try discriminate.
  destruct (Nat.eqb_spec (m_from m) (sc_src (scalls st c))); try contradiction. reflexivity.
Qed.

(* a pending error ends the call with that error, and the read goroutine
   handles no further request *)
Lemma pending_error_ends st c e :
  sc_st (scalls st c) = Running -> sc_perr (scalls st c) = Some e ->
  sc_st (scalls (sess_end c false st) c) = Ended e /\
  forall seq r, sess_req c seq r st = st.
Proof.
  intros Hr Hp. split.
  - unfold sess_end, end_error. rewrite Hr, Hp. unfold put_scall. cbn. unfold upd. rewrite Nat.eqb_refl. reflexivity.
  - intros. unfold sess_req. rewrite Hr, Hp. reflexivity.
Qed.

Lemma fail_only_perr c e st :
  peers (fail c e st) = peers st /\ trk (fail c e st) = trk st /\ sessions (fail c e st) = sessions st /\
  ses (fail c e st) = ses st /\ sbox (fail c e st) = sbox st /\ swoken (fail c e st) = swoken st /\
  sc_perr (scalls (fail c e st) c) = Some e /\ sc_out (scalls (fail c e st) c) = sc_out (scalls st c) /\
  forall c', c' <> c -> scalls (fail c e st) c' = scalls st c'.
Proof.
  unfold fail, put_scall. cbn. unfold upd. rewrite Nat.eqb_refl. cbn. repeat split; auto.
  intros c' Hc. destruct (Nat.eqb_spec c' c); congruence.
Qed.

(* the first request must be Init with session seqno 0, a parsable non-empty
   peer id different from the caller: otherwise the call ends at once and the
   relay registers nothing *)
Definition valid_init (src seq : nat) (r : req) : Prop :=
  exists dst, r = RInit (Some dst) /\ seq = 0 /\ dst <> src.

Lemma bad_first_request st c src seq r :
  sc_st (scalls st c) = Fresh -> ~ valid_init src seq r ->
  let st' := sess_start c src seq r st in
  (exists e, sc_st (scalls st' c) = Ended e /\ (e = ERejected \/ e = EStream)) /\
  peers st' = peers st /\ trk st' = trk st /\ sessions st' = sessions st /\ ses st' = ses st /\
  sbox st' = sbox st /\ swoken st' = swoken st /\ lwoken st' = lwoken st /\
  forall c', c' <> c -> scalls st' c' = scalls st c'.
Proof.
  intros Hf Hv. unfold sess_start. rewrite Hf.
  assert (X : forall e, (e = ERejected \/ e = EStream) ->
     let st' := put_scall c (ended_scall src e) st in
     (exists e, sc_st (scalls st' c) = Ended e /\ (e = ERejected \/ e = EStream)) /\
     peers st' = peers st /\ trk st' = trk st /\ sessions st' = sessions st /\ ses st' = ses st /\
     sbox st' = sbox st /\ swoken st' = swoken st /\ lwoken st' = lwoken st /\
     forall c', c' <> c -> scalls st' c' = scalls st c').
  { intros e He. unfold put_scall. cbn. unfold upd. rewrite Nat.eqb_refl. cbn.
    repeat split; eauto. intros c' Hc. destruct (Nat.eqb_spec c' c); congruence. }
  destruct r as [[dst|]| | | | |]; try (apply X; auto).
  destruct (Nat.eqb_spec seq 0); cbn; try (apply X; auto).
  destruct (Nat.eqb_spec dst src); cbn; try (apply X; auto).
  exfalso. apply Hv. exists dst. auto.
Qed.

(* ---------------------------------------------------------------- *)
(* consequences of the invariant                                     *)
(* ---------------------------------------------------------------- *)

(* C20: whatever a stream received as RecvMsg was verified and is signed by the
   identity this stream's session is with *)
Lemma forwarded_authentic st q m : Inv st ->
  In (SRecv m) (sc_out (scalls st q)) -> m_ver m = true /\ m_from m = sc_dst (scalls st q).
Proof. intros H. apply (iD4 _ H). Qed.

Lemma boxed_authentic st q m : Inv st -> alive (sc_st (scalls st q)) = true ->
  mb_recv (sbox st q) = Some m -> m_ver m = true /\ m_from m = sc_dst (scalls st q).
Proof. intros H. apply (iD3 _ H). Qed.

(* C20: a SendMsg changes a mailbox only if it is authentic, carries the current
   epoch and comes from the call registered on its side; the mailbox is then the
   one of the call on the other side of the sender's session, whose peer is the
   sender's destination and whose destination is the sender *)
Lemma send_routing st c seq m d : Inv st -> alive (sc_st (scalls st c)) = true ->
  sbox (sess_req c seq (RSend m) st) d <> sbox st d ->
  m_ver m = true /\ m_from m = sc_src (scalls st c) /\ seq = epoch_of st c /\
  side (ses st (sc_s (scalls st c))) (sc_isA (scalls st c)) = Some c /\
  side (ses st (sc_s (scalls st c))) (negb (sc_isA (scalls st c))) = Some d /\
  sc_src (scalls st d) = sc_dst (scalls st c) /\ sc_dst (scalls st d) = sc_src (scalls st c) /\
  mb_recv (sbox (sess_req c seq (RSend m) st) d) = Some m /\
  mb_gep (sbox (sess_req c seq (RSend m) st) d) = seq.
Proof.
  intros H Hal. unfold sess_req. rewrite Hal. cbn.
  destruct (negb (is_some (sc_perr (scalls st c)))); [|congruence].
  unfold handle_send.
  destruct (m_ver m) eqn:Ev; cbn; [|unfold fail, put_scall; cbn; congruence].
  destruct (Nat.eqb_spec (m_from m) (sc_src (scalls st c))); cbn; [|unfold fail, put_scall; cbn; congruence].
  destruct (req_gate c seq st) as [| |d'] eqn:Eg; try (unfold fail, put_scall; cbn; congruence).
  destruct (PresS.gate_go _ _ _ _ Eg) as (Hep & Hown & Hpar).
  destruct (PresS.partner_facts st c d' H Hal Hpar) as (Hda & Hds & Hdi & Hsd & Hds' & Hdc).
  unfold wake_sess, put_box. cbn. unfold upd. destruct (Nat.eqb_spec d d'); [subst d'|congruence].
  cbn. intros _. unfold epoch_of. repeat split; auto; congruence.
Qed.

(* C22: the last announcement of both attached peers is the current epoch at quiescence *)
Lemma told_at_quiescence st s a : Inv st -> quiescent st ->
  forall b, side (ses st s) b = Some a ->
  last_open (sc_out (scalls st a)) =
    match side (ses st s) (negb b) with Some _ => Some (s_epoch (ses st s)) | None => None end.
Proof.
  intros H Q b Hs.
  destruct (iB2 _ H _ _ _ Hs) as (Hal & Hss & Hia).
  destruct (Q a) as [_ Qs]. unfold squiet in Qs.
  destruct (sc_st (scalls st a)) eqn:Est; try discriminate; try contradiction.
  destruct Qs as [Qw _].
  destruct (iD1 _ H a Est Qw) as [_ Hp]. rewrite <- (iD2 _ H a), Hp.
  unfold cur_open. rewrite Hss, Hia. reflexivity.
Qed.

(* C22: a stale request is never dropped silently: when the relay drops a
   request of a running call as stale, either an announcement to that call is
   pending (its write loop has been woken), or the call has already been told
   the state the request is stale against *)
Lemma stale_drop_not_silent st c : Inv st -> sc_st (scalls st c) = Running ->
  swoken st c = true \/
  (side (ses st (sc_s (scalls st c))) (sc_isA (scalls st c)) = Some c /\
   last_open (sc_out (scalls st c)) = cur_open (ses st) (scalls st) c).
Proof.
  intros H Hr. destruct (swoken st c) eqn:Ew; auto. right.
  destruct (iD1 _ H c Hr Ew) as [X Y]. split; auto. rewrite <- (iD2 _ H c). exact Y.
Qed.

(* C22: a message waiting in the mailbox of the registered call was submitted in the current epoch *)
Lemma pending_is_current_epoch st c m : Inv st ->
  side (ses st (sc_s (scalls st c))) (sc_isA (scalls st c)) = Some c ->
  mb_recv (sbox st c) = Some m -> mb_gep (sbox st c) = s_epoch (ses st (sc_s (scalls st c))).
Proof. intros H. apply (iD5 _ H). Qed.

(* a RecvMsg emitted by a pass of the write loop is the mailbox content, taken
   while the call is registered and the partner attached *)
Lemma iter_delivers st c m : 
  In (SRecv m) (sc_out (scalls (sess_iter c st) c)) -> ~ In (SRecv m) (sc_out (scalls st c)) ->
  mb_recv (sbox st c) = Some m /\
  side (ses st (sc_s (scalls st c))) (sc_isA (scalls st c)) = Some c /\
  side (ses st (sc_s (scalls st c))) (negb (sc_isA (scalls st c))) <> None.
Proof.
  unfold sess_iter.
  destruct (is_running (sc_st (scalls st c)) && swoken st c); [|tauto].
  destruct (onat_eqb_spec (side (ses st (sc_s (scalls st c))) (sc_isA (scalls st c))) (Some c)) as [Ho|Ho]; cbn.
  - destruct (side (ses st (sc_s (scalls st c))) (negb (sc_isA (scalls st c)))) as [d|]; cbn.
    + destruct (mb_recv (sbox st c)) as [m'|]; unfold put_scall, put_box, put_swoken, wake_sess; cbn;
        unfold upd; rewrite Nat.eqb_refl; cbn; rewrite !in_app_iff; intros Hin Hn.
      * destruct Hin as [X|[X|[X|[X|X]]]]; try tauto.
        -- destruct (onat_eqb _ _); cbn in X; intuition discriminate.
        -- destruct (mb_outAcked (sbox st c)); cbn in X; intuition discriminate.
        -- destruct (mb_recvClear (sbox st c)); cbn in X; intuition discriminate.
        -- cbn in X. destruct X as [X|[]]. inversion X; subst. repeat split; auto. discriminate.
      * destruct Hin as [X|[X|[X|[X|X]]]]; try tauto.
        -- destruct (onat_eqb _ _); cbn in X; intuition discriminate.
        -- destruct (mb_outAcked (sbox st c)); cbn in X; intuition discriminate.
        -- destruct (mb_recvClear (sbox st c)); cbn in X; intuition discriminate.
        -- destruct X.
    + unfold put_scall, put_swoken; cbn. unfold upd; rewrite Nat.eqb_refl; cbn. rewrite !in_app_iff.
      intros [X|[X|X]] Hn; try tauto.
      * destruct (onat_eqb _ _); cbn in X; intuition discriminate.
      * destruct X.
  - unfold put_scall, put_swoken; cbn. unfold upd; rewrite Nat.eqb_refl; cbn. tauto.
Qed.

(* C24 *)
Lemma cur_sess_is_cur st q p : cur_sess st q p = cur (sessions st) (ses st) q p.
Proof. reflexivity. Qed.

Lemma listener_set st c : Inv st -> lc_st (lcalls st c) = Running -> lwoken st c = false ->
  peers st (lc_p (lcalls st c)) = Some (lc_t (lcalls st c)) /\
  t_nonce (trk st (lc_t (lcalls st c))) = lc_n (lcalls st c) /\
  forall q, In q (announced (lc_out (lcalls st c))) <-> cur_sess st q (lc_p (lcalls st c)) <> None.
Proof.
  intros H Hr Hw.
  assert (Hal : alive (lc_st (lcalls st c)) = true) by (rewrite Hr; reflexivity).
  destruct (iC5 _ H c Hr Hw) as [Hn Hset].
  destruct (iC1 _ H c Hal) as (Ht & Ho & _).
  destruct (iC2 _ H c Hal (eq_sym Hn)) as [_ Hl].
  assert (Hp : peers st (lc_p (lcalls st c)) = Some (lc_t (lcalls st c))).
  { rewrite <- Ho.
    destruct (onat_eqb_spec (peers st (t_owner (trk st (lc_t (lcalls st c))))) (Some (lc_t (lcalls st c)))); auto.
    destruct (iA2 _ H _ n). congruence. }
  repeat split; auto.
  - rewrite <- (iC6 _ H c). intros Hq. apply Hset in Hq. destruct (iB3 _ H _ _ _ Hp Hq). assumption.
  - intros Hc. rewrite <- (iC6 _ H c). apply Hset.
    unfold cur_sess in Hc. destruct (sessions st (mkkey q (lc_p (lcalls st c)))) as [s|] eqn:Es; try congruence.
    destruct (side (ses st s) (is_a q (lc_p (lcalls st c)))) as [c'|] eqn:Esd; try congruence.
    destruct (iB2 _ H _ _ _ Esd) as (Ha' & Hs' & Hi').
    destruct (iB1 _ H c' Ha') as (_ & Hk & Hia & Hne & _ & Hot).
    destruct (iA3 _ H _ _ Es) as [_ Hk'].
    assert (Hqp : q <> lc_p (lcalls st c)).
    { intros E. rewrite E in *. rewrite Hs', Hk' in Hk. unfold mkkey in Hk.
      destruct (Nat.ltb_spec (lc_p (lcalls st c)) (lc_p (lcalls st c))); try lia.
      destruct (Nat.ltb_spec (sc_src (scalls st c')) (sc_dst (scalls st c'))); inversion Hk; lia. }
    rewrite Hs', Hk' in Hk. rewrite Hi' in Hia.
    destruct (same_side _ _ _ _ Hqp Hne Hk Hia) as [E1 E2].
    pose proof (iB4 _ H _ _ _ Esd) as Hin. rewrite <- E1 in Hin.
    assert (Hpd : peers st (t_owner (trk st (sc_dt (scalls st c')))) = Some (sc_dt (scalls st c'))).
    { destruct (onat_eqb_spec (peers st (t_owner (trk st (sc_dt (scalls st c'))))) (Some (sc_dt (scalls st c')))); auto.
      destruct (iA2 _ H _ n) as [X _]. rewrite X in Hin. destruct Hin. }
    rewrite Hot, <- E2, Hp in Hpd. inversion Hpd as [Ht']. rewrite Ht'. assumption.
Qed.

(* C25 *)
Definition listen_current (st : state) (c : nat) : Prop :=
  alive (lc_st (lcalls st c)) = true /\ lc_n (lcalls st c) = t_nonce (trk st (lc_t (lcalls st c))).

Lemma listen_current_holds_tracker st c : Inv st -> listen_current st c ->
  peers st (lc_p (lcalls st c)) = Some (lc_t (lcalls st c)) /\ t_listening (trk st (lc_t (lcalls st c))) = true.
Proof.
  intros H [Hal Hn]. destruct (iC2 _ H c Hal Hn) as [_ Hl]. destruct (iC1 _ H c Hal) as (_ & Ho & _).
  split; auto. rewrite <- Ho.
  destruct (onat_eqb_spec (peers st (t_owner (trk st (lc_t (lcalls st c))))) (Some (lc_t (lcalls st c)))); auto.
  destruct (iA2 _ H _ n). congruence.
Qed.

Lemma one_listen st c1 c2 : Inv st -> listen_current st c1 -> listen_current st c2 ->
  lc_p (lcalls st c1) = lc_p (lcalls st c2) -> c1 = c2.
Proof.
  intros H H1 H2 Hp.
  destruct (listen_current_holds_tracker _ _ H H1) as [P1 _].
  destruct (listen_current_holds_tracker _ _ H H2) as [P2 _].
  rewrite Hp, P2 in P1. inversion P1 as [Ht].
  destruct H1 as [A1' N1], H2 as [A2' N2].
  destruct (iC2 _ H c1 A1' N1) as [L1 _]. destruct (iC2 _ H c2 A2' N2) as [L2 _]. congruence.
Qed.

(* a listen call that has been replaced is woken, its next pass returns the
   replaced error and its cleanup leaves the relay maps alone *)
Lemma replaced_listen st c : Inv st -> lc_st (lcalls st c) = Running ->
  lc_n (lcalls st c) <> t_nonce (trk st (lc_t (lcalls st c))) ->
  lwoken st c = true /\
  forall w u, let st1 := listen_iter c w u st in
    lc_st (lcalls st1 c) = Ending EReplaced /\
    let st2 := listen_end c st1 in
    lc_st (lcalls st2 c) = Ended EReplaced /\ peers st2 = peers st /\ trk st2 = trk st.
Proof.
  intros H Hr Hn.
  assert (Hw : lwoken st c = true).
  { destruct (lwoken st c) eqn:E; auto. destruct (iC5 _ H c Hr E). congruence. }
  assert (Hneq : (t_nonce (trk st (lc_t (lcalls st c))) =? lc_n (lcalls st c)) = false).
  { apply Nat.eqb_neq. congruence. }
  split; auto. intros w u. unfold listen_iter. rewrite Hr, Hw, Hneq. cbn.
  unfold put_lcall; cbn. unfold upd at 1. rewrite Nat.eqb_refl. cbn. split; auto.
  unfold listen_end; cbn. unfold upd at 1 2 3 4 5 6 7 8. rewrite !Nat.eqb_refl. cbn.
  rewrite Hneq, andb_false_r. unfold put_lcall; cbn. unfold upd. rewrite Nat.eqb_refl. cbn.
  rewrite ?Hneq, ?andb_false_r; cbn; auto.
Qed.

Definition sess_current (st : state) (c : nat) : Prop :=
  side (ses st (sc_s (scalls st c))) (sc_isA (scalls st c)) = Some c.

Lemma one_session st c1 c2 : Inv st -> sess_current st c1 -> sess_current st c2 ->
  sc_src (scalls st c1) = sc_src (scalls st c2) -> sc_dst (scalls st c1) = sc_dst (scalls st c2) -> c1 = c2.
Proof.
  unfold sess_current. intros H H1 H2 Es Ed.
  destruct (iB2 _ H _ _ _ H1) as (A1' & _ & _). destruct (iB2 _ H _ _ _ H2) as (A2' & _ & _).
  destruct (iB1 _ H c1 A1') as (_ & K1 & I1 & _). destruct (iB1 _ H c2 A2') as (_ & K2 & I2 & _).
  pose proof (iA4 _ H _ _ _ H1) as M1. pose proof (iA4 _ H _ _ _ H2) as M2.
  rewrite K1 in M1. rewrite K2 in M2. rewrite Es, Ed, M2 in M1. inversion M1 as [Hs].
  rewrite <- Hs, I1, Es, Ed, <- I2, H2 in H1. congruence.
Qed.

Lemma replaced_session st c : Inv st -> sc_st (scalls st c) = Running -> ~ sess_current st c ->
  swoken st c = true /\
  let st1 := sess_iter c st in
  sc_st (scalls st1 c) = Ending EReplaced /\
  let st2 := sess_end c false st1 in
  sc_st (scalls st2 c) = Ended EReplaced /\ peers st2 = peers st /\ trk st2 = trk st /\
  sessions st2 = sessions st /\ ses st2 = ses st /\ sbox st2 = sbox st.
Proof.
  unfold sess_current. intros H Hr Hn.
  assert (Hw : swoken st c = true).
  { destruct (swoken st c) eqn:E; auto. destruct (iD1 _ H c Hr E). contradiction. }
  assert (Hno : onat_eqb (side (ses st (sc_s (scalls st c))) (sc_isA (scalls st c))) (Some c) = false).
  { destruct (onat_eqb_spec (side (ses st (sc_s (scalls st c))) (sc_isA (scalls st c))) (Some c)); auto; contradiction. }
  split; auto. unfold sess_iter. rewrite Hr, Hw, Hno. cbn.
  unfold put_scall, put_swoken; cbn. unfold upd at 1. rewrite Nat.eqb_refl. cbn. split; auto.
  unfold sess_end, end_error, sess_cleanup; cbn. unfold upd at 1. rewrite Nat.eqb_refl. cbn.
  unfold upd at 1 2 3. rewrite !Nat.eqb_refl. cbn. rewrite ?Hno.
  unfold put_scall; cbn. unfold upd. rewrite ?Nat.eqb_refl. cbn. rewrite ?Hno. cbn. auto 10.
Qed.

(* once all calls have ended the relay keeps no state *)
Lemma no_leftover st : Inv st ->
  (forall c, alive (lc_st (lcalls st c)) = false /\ alive (sc_st (scalls st c)) = false) ->
  (forall p, peers st p = None) /\ (forall k, sessions st k = None).
Proof.
  intros H Hd. split.
  - intros p. destruct (peers st p) as [t|] eqn:Ep; auto. exfalso.
    destruct (iA6 _ H _ _ Ep) as [Hl|Hw].
    + destruct (iC3 _ H t Hl) as [X _]. destruct (Hd (t_lcur (trk st t))). congruence.
    + destruct (t_wants (trk st t)) as [|q l] eqn:Ew; try congruence.
      destruct (iB3 _ H p t q Ep) as [_ Hc]; [rewrite Ew; left; reflexivity|].
      unfold cur in Hc. destruct (sessions st (mkkey q p)) as [s|]; try congruence.
      destruct (side (ses st s) (is_a q p)) as [c|] eqn:Es; try congruence.
      destruct (iB2 _ H _ _ _ Es) as [X _]. destruct (Hd c). congruence.
  - intros k. destruct (sessions st k) as [s|] eqn:Es; auto. exfalso.
    destruct (iA5 _ H _ _ Es) as [X|X].
    + destruct (s_a (ses st s)) as [c|] eqn:E; try congruence.
      destruct (iB2 _ H s true c E) as [Y _]. destruct (Hd c). congruence.
    + destruct (s_b (ses st s)) as [c|] eqn:E; try congruence.
      destruct (iB2 _ H s false c E) as [Y _]. destruct (Hd c). congruence.
Qed.

(* ---------------------------------------------------------------- *)
(* the finer request steps: SessReqBegin (unlocked part) / SessReqStore *)
(* ---------------------------------------------------------------- *)
Lemma set_spend_inv st v : Inv st -> Inv (set_spend st v).
Proof. intros H. destruct H. constructor; cbn; assumption. Qed.

Lemma sess_req_begin_inv c seq r st : Inv st -> Inv (sess_req_begin c seq r st).
Proof.
  intros H. unfold sess_req_begin.
  destruct (alive (sc_st (scalls st c)) && negb (is_some (sc_perr (scalls st c))) && negb (is_some (spend st c))); auto.
  destruct r; auto using PresS.fail_inv, set_spend_inv.
  destruct (negb (m_ver m)); auto using PresS.fail_inv.
  destruct (negb (m_from m =? sc_src (scalls st c))); auto using PresS.fail_inv, set_spend_inv.
Qed.

Lemma sess_req_store_inv c st : Inv st -> Inv (sess_req_store c st).
Proof.
  intros H. unfold sess_req_store. destruct (spend st c) as [[seq r]|]; auto.
  apply PresS.sess_req_inv, set_spend_inv, H.
Qed.

(* the Store step of a pending SendMsg writes a mailbox only under the
   conditions of send_routing evaluated in the state in which the STORE happens
   (whatever happened since Begin): the session seqno the message was stamped
   with is the relay epoch at that moment, and it is recorded with the message *)
Lemma store_routing st c seq m d : Inv st -> alive (sc_st (scalls st c)) = true ->
  spend st c = Some (seq, RSend m) ->
  sbox (sess_req_store c st) d <> sbox st d ->
  m_ver m = true /\ m_from m = sc_src (scalls st c) /\ seq = epoch_of st c /\
  side (ses st (sc_s (scalls st c))) (negb (sc_isA (scalls st c))) = Some d /\
  mb_recv (sbox (sess_req_store c st) d) = Some m /\
  mb_gep (sbox (sess_req_store c st) d) = seq.
Proof.
  intros H Hal Ep. unfold sess_req_store. rewrite Ep.
  set (st0 := set_spend st (upd (spend st) c None)).
  assert (H0 : Inv st0) by (apply set_spend_inv, H).
  intros Hd. change (sbox st d) with (sbox st0 d) in Hd.
  destruct (send_routing st0 c seq m d H0 Hal Hd) as (A & B & C & _ & E & _ & _ & F & G).
  repeat split; auto.
Qed.

(* a pending SendMsg whose stamp is older than the epoch at Store time is dropped without any effect on the relay *)
Lemma store_stale_no_effect st c seq m :
  spend st c = Some (seq, RSend m) -> m_ver m = true -> m_from m = sc_src (scalls st c) ->
  seq < epoch_of st c ->
  sess_req_store c st = set_spend st (upd (spend st) c None).
Proof.
  intros Ep Hv Hf Hs. unfold sess_req_store. rewrite Ep.
  apply stale_no_effect; cbn; auto.
Qed.

(* the optional signature.pub_key attached to a message is carried as data only:
   two messages that differ in nothing but m_pk are treated alike *)
Definition with_pk (m : msg) (k : nat) : msg :=
  {| m_seqno := m_seqno m; m_tag := m_tag m; m_ver := m_ver m; m_from := m_from m; m_pk := k |}.

Lemma attached_key_ignored st c seq m k :
  let s1 := sess_req c seq (RSend m) st in
  let s2 := sess_req c seq (RSend (with_pk m k)) st in
  scalls s1 = scalls s2 /\ swoken s1 = swoken s2 /\ ses s1 = ses s2 /\ sessions s1 = sessions s2 /\
  peers s1 = peers s2 /\ trk s1 = trk s2 /\
  forall d, option_map m_tag (mb_recv (sbox s1 d)) = option_map m_tag (mb_recv (sbox s2 d)) /\
            mb_recvSent (sbox s1 d) = mb_recvSent (sbox s2 d) /\ mb_gep (sbox s1 d) = mb_gep (sbox s2 d).
Proof.
  cbn zeta. unfold sess_req.
  destruct (alive (sc_st (scalls st c)) && negb (is_some (sc_perr (scalls st c)))); [|repeat split; auto].
  unfold handle_send. cbn [m_ver m_from with_pk].
  destruct (negb (m_ver m)); [repeat split; auto|].
  destruct (negb (m_from m =? sc_src (scalls st c))); [repeat split; auto|].
  destruct (req_gate c seq st) as [| |d']; [repeat split; auto|repeat split; auto|].
  unfold wake_sess, put_box; cbn. repeat split; auto; unfold upd; destruct (d =? d'); reflexivity.
Qed.
