(* Relay LTS: hand translation of signaling/rpc/server/{server,peer,listen,session}.go
   as it is in /repo now (after the four fix commits).

   One action per region of Go code executed while holding Server.mtx:
     ListenStart  listen.go  Listen, first Lock..Unlock (register / usurp)
     ListenIter   listen.go  one pass of the for loop (Lock..Unlock + the Sends after it)
     ListenEnd    listen.go  deferred cleanup
     SessStart    session.go Session up to the first Unlock (init checks + registration)
     SessReq      session.go handleSendMsg / handleAckMsg / handleClearMsg (read goroutine)
     SessIter     session.go one pass of the write loop (Lock..Unlock + the Sends after it)
     SessEnd      session.go `case <-ctx.Done()` / `case err := <-errCh` + deferred cleanup

   Trackers and sessions live in heaps indexed by identities (tid, sid) because
   calls keep pointers to them after the maps dropped them.  The wait channels
   are modelled by a per-call flag `woken` ("the channel this call holds has been
   closed"): a broadcast on an object sets it for every call that points to that
   object, a call clears it when it re-takes the channel inside its lock region.

   Clients are an arbitrary environment: any request on any call at any time.
   The result of ExtractAndVerify on a SendMsg is an input (m_ver, m_from); C01
   covers verification itself.

   Ghost fields (written, never read by `step`): t_owner, t_lcur, s_key, mb_gep, m_pk.

   No proofs in this file. Everything is `nat`. *)
From Bifrost Require Import Lib.Base.
Local Open Scope nat_scope.

(* error classes of a finished call *)
Definition EReplaced : nat := 1.  (* ErrUserpedSession / ErrUserpedListen *)
Definition ECanceled : nat := 2.  (* context.Canceled *)
Definition EStream   : nat := 3.  (* the error returned by strm.Recv *)
Definition ERejected : nat := 4.  (* any other error: bad signature, wrong signer, seqno too high, unexpected message, bad init *)

Inductive status := Fresh | Running | Ending (e : nat) | Ended (e : nat).

Definition alive (s : status) : bool :=
  match s with Running | Ending _ => true | _ => false end.
Definition is_running (s : status) : bool :=
  match s with Running => true | _ => false end.

(* a SessionMsg as the relay sees it: its seqno, an opaque tag standing for the
   signed bytes, and the outcome of ExtractAndVerify (ok?, peer id extracted) *)
Record msg := { m_seqno : nat; m_tag : nat; m_ver : bool; m_from : nat;
  m_pk : nat (* the optional signature.pub_key attached to the message (0 = none, k+1 = key of peer k,
                other = unparsable): carried as data; a malformed one makes ExtractAndVerify fail (that is
                part of m_ver), otherwise verification ignores it *) }.

Record tracker := {
  t_listening : bool; t_nonce : nat; t_wants : list nat;
  t_owner : nat (* ghost: the peer id the tracker was created for *);
  t_lcur : nat  (* ghost: the listen call that last registered on it *) }.

Record mailbox := {
  mb_recv : option msg; mb_recvSent : option nat; mb_recvClear : option nat; mb_outAcked : option nat;
  mb_gep : nat (* ghost: session epoch at which mb_recv was stored *) }.

Record session := {
  s_epoch : nat; s_a : option nat; s_b : option nat;
  s_key : nat * nat (* ghost: the map key the session was created for *) }.

Inductive lresp := LSet (q : nat) | LClear (q : nat).
Inductive sresp := SOpened (n : nat) | SClosed | SAck (n : nat) | SClear (n : nat) | SRecv (m : msg).

Record lcall := {
  lc_st : status; lc_p : nat; lc_t : nat; lc_n : nat; lc_sent : list nat; lc_out : list lresp }.

Record scall := {
  sc_st : status; sc_src : nat; sc_dst : nat; sc_isA : bool; sc_s : nat; sc_dt : nat;
  sc_prev : option nat; sc_perr : option nat; sc_out : list sresp }.

(* requests a client can put on a Session stream *)
Inductive req :=
| RInit (dst : option nat)   (* None: empty or unparsable peer id *)
| RSend (m : msg)
| RAck (n : nat)
| RClear (n : nat)
| RUnknown                   (* no body *)
| REof.                      (* strm.Recv returns an error *)

Record state := {
  peers : nat -> option nat; trk : nat -> tracker; next_tid : nat;
  sessions : nat * nat -> option nat; ses : nat -> session; next_sid : nat;
  lcalls : nat -> lcall; lwoken : nat -> bool;
  scalls : nat -> scall; swoken : nat -> bool; sbox : nat -> mailbox;
  spend : nat -> option (nat * req) (* request read by the read goroutine, handler not yet in its lock region *) }.

Inductive action :=
| ListenStart (c p : nat)
| ListenIter (c : nat) (w u : option nat)   (* w: peer announced, u: peer withdrawn (map order: chosen by the environment) *)
| ListenEnd (c : nat)
| SessStart (c src seq : nat) (r : req)
| SessReq (c seq : nat) (r : req)          (* a request handled without interleaving: SessReqBegin then SessReqStore *)
| SessReqBegin (c seq : nat) (r : req)     (* read goroutine: Recv + what the handler does before taking Server.mtx (ExtractAndVerify, signer check) *)
| SessReqStore (c : nat)                   (* the handler's Server.mtx region: checkSeqno, current-side test, mailbox update, broadcast *)
| SessIter (c : nat)
| SessEnd (c : nat) (cancel : bool).        (* cancel=false: SessFail (pending error) or end of a returning call *)

(* ---- small utilities ---- *)
Definition upd {A} (f : nat -> A) (k : nat) (v : A) : nat -> A :=
  fun x => if x =? k then v else f x.

Definition key_eqb (a b : nat * nat) : bool := (fst a =? fst b) && (snd a =? snd b).
Definition updk {A} (f : nat * nat -> A) (k : nat * nat) (v : A) : nat * nat -> A :=
  fun x => if key_eqb x k then v else f x.

(* newSessionKey: the lower peer id is peer A *)
Definition mkkey (p1 p2 : nat) : nat * nat := if p1 <? p2 then (p1, p2) else (p2, p1).
Definition is_a (p1 p2 : nat) : bool := p1 <? p2.

Definition memb (q : nat) (l : list nat) : bool := existsb (Nat.eqb q) l.
Definition remove (q : nat) (l : list nat) : list nat := filter (fun x => negb (x =? q)) l.
Definition subset (a b : list nat) : bool := forallb (fun x => memb x b) a.
Definition is_nil {A} (l : list A) : bool := match l with [] => true | _ => false end.
Definition is_some {A} (o : option A) : bool := match o with Some _ => true | None => false end.
Definition onat_eqb (a b : option nat) : bool := option_eqb Nat.eqb a b.
Definition olist {A B} (o : option A) (f : A -> B) : list B := match o with Some a => [f a] | None => [] end.

(* ---- setters ---- *)
Definition set_peers st v := {| peers := v; trk := trk st; next_tid := next_tid st; sessions := sessions st; ses := ses st; next_sid := next_sid st; lcalls := lcalls st; lwoken := lwoken st; scalls := scalls st; swoken := swoken st; sbox := sbox st; spend := spend st |}.
Definition set_trk st v := {| peers := peers st; trk := v; next_tid := next_tid st; sessions := sessions st; ses := ses st; next_sid := next_sid st; lcalls := lcalls st; lwoken := lwoken st; scalls := scalls st; swoken := swoken st; sbox := sbox st; spend := spend st |}.
Definition set_next_tid st v := {| peers := peers st; trk := trk st; next_tid := v; sessions := sessions st; ses := ses st; next_sid := next_sid st; lcalls := lcalls st; lwoken := lwoken st; scalls := scalls st; swoken := swoken st; sbox := sbox st; spend := spend st |}.
Definition set_sessions st v := {| peers := peers st; trk := trk st; next_tid := next_tid st; sessions := v; ses := ses st; next_sid := next_sid st; lcalls := lcalls st; lwoken := lwoken st; scalls := scalls st; swoken := swoken st; sbox := sbox st; spend := spend st |}.
Definition set_ses st v := {| peers := peers st; trk := trk st; next_tid := next_tid st; sessions := sessions st; ses := v; next_sid := next_sid st; lcalls := lcalls st; lwoken := lwoken st; scalls := scalls st; swoken := swoken st; sbox := sbox st; spend := spend st |}.
Definition set_next_sid st v := {| peers := peers st; trk := trk st; next_tid := next_tid st; sessions := sessions st; ses := ses st; next_sid := v; lcalls := lcalls st; lwoken := lwoken st; scalls := scalls st; swoken := swoken st; sbox := sbox st; spend := spend st |}.
Definition set_lcalls st v := {| peers := peers st; trk := trk st; next_tid := next_tid st; sessions := sessions st; ses := ses st; next_sid := next_sid st; lcalls := v; lwoken := lwoken st; scalls := scalls st; swoken := swoken st; sbox := sbox st; spend := spend st |}.
Definition set_lwoken st v := {| peers := peers st; trk := trk st; next_tid := next_tid st; sessions := sessions st; ses := ses st; next_sid := next_sid st; lcalls := lcalls st; lwoken := v; scalls := scalls st; swoken := swoken st; sbox := sbox st; spend := spend st |}.
Definition set_scalls st v := {| peers := peers st; trk := trk st; next_tid := next_tid st; sessions := sessions st; ses := ses st; next_sid := next_sid st; lcalls := lcalls st; lwoken := lwoken st; scalls := v; swoken := swoken st; sbox := sbox st; spend := spend st |}.
Definition set_swoken st v := {| peers := peers st; trk := trk st; next_tid := next_tid st; sessions := sessions st; ses := ses st; next_sid := next_sid st; lcalls := lcalls st; lwoken := lwoken st; scalls := scalls st; swoken := v; sbox := sbox st; spend := spend st |}.
Definition set_sbox st v := {| peers := peers st; trk := trk st; next_tid := next_tid st; sessions := sessions st; ses := ses st; next_sid := next_sid st; lcalls := lcalls st; lwoken := lwoken st; scalls := scalls st; swoken := swoken st; sbox := v; spend := spend st |}.

Definition set_spend st v := {| peers := peers st; trk := trk st; next_tid := next_tid st; sessions := sessions st; ses := ses st; next_sid := next_sid st; lcalls := lcalls st; lwoken := lwoken st; scalls := scalls st; swoken := swoken st; sbox := sbox st; spend := v |}.

Definition put_trk (t : nat) (v : tracker) st := set_trk st (upd (trk st) t v).
Definition put_ses (s : nat) (v : session) st := set_ses st (upd (ses st) s v).
Definition put_lcall (c : nat) (v : lcall) st := set_lcalls st (upd (lcalls st) c v).
Definition put_scall (c : nat) (v : scall) st := set_scalls st (upd (scalls st) c v).
Definition put_box (c : nat) (v : mailbox) st := set_sbox st (upd (sbox st) c v).
Definition put_lwoken (c : nat) (v : bool) st := set_lwoken st (upd (lwoken st) c v).
Definition put_swoken (c : nat) (v : bool) st := set_swoken st (upd (swoken st) c v).

Definition empty_tracker : tracker :=
  {| t_listening := false; t_nonce := 0; t_wants := []; t_owner := 0; t_lcur := 0 |}.
Definition empty_box : mailbox :=
  {| mb_recv := None; mb_recvSent := None; mb_recvClear := None; mb_outAcked := None; mb_gep := 0 |}.
Definition empty_session : session := {| s_epoch := 0; s_a := None; s_b := None; s_key := (0, 0) |}.
Definition fresh_lcall : lcall :=
  {| lc_st := Fresh; lc_p := 0; lc_t := 0; lc_n := 0; lc_sent := []; lc_out := [] |}.
Definition fresh_scall : scall :=
  {| sc_st := Fresh; sc_src := 0; sc_dst := 0; sc_isA := false; sc_s := 0; sc_dt := 0;
     sc_prev := None; sc_perr := None; sc_out := [] |}.

(* NewServerWithIdentify: empty maps *)
Definition init : state :=
  {| peers := fun _ => None; trk := fun _ => empty_tracker; next_tid := 0;
     sessions := fun _ => None; ses := fun _ => empty_session; next_sid := 0;
     lcalls := fun _ => fresh_lcall; lwoken := fun _ => false;
     scalls := fun _ => fresh_scall; swoken := fun _ => false; sbox := fun _ => empty_box;
     spend := fun _ => None |}.

(* serverPeerTracker.broadcast: every Listen call that points to tracker t holds
   a closed channel afterwards *)
Definition wake_trk (t : nat) (st : state) : state :=
  set_lwoken st (fun c => if lc_t (lcalls st c) =? t then true else lwoken st c).

(* sessionTracker.broadcast *)
Definition wake_sess (s : nat) (st : state) : state :=
  set_swoken st (fun c => if sc_s (scalls st c) =? s then true else swoken st c).

(* Server.getPeer: create the tracker if absent *)
Definition ensure_peer (p : nat) (st : state) : state :=
  match peers st p with
  | Some _ => st
  | None =>
    let t := next_tid st in
    set_next_tid
      (put_trk t {| t_listening := false; t_nonce := 0; t_wants := []; t_owner := p; t_lcur := 0 |}
         (set_peers st (upd (peers st) p (Some t))))
      (S t)
  end.
Definition peer_tid (p : nat) (st : state) : nat :=
  match peers st p with Some t => t | None => 0 end.

(* Server.maybeReleasePeer *)
Definition maybe_release_peer (p : nat) (st : state) : state :=
  match peers st p with
  | None => st
  | Some t =>
    if t_listening (trk st t) || negb (is_nil (t_wants (trk st t))) then st
    else wake_trk t (set_peers st (upd (peers st) p None))
  end.

(* Server.getSession *)
Definition ensure_session (k : nat * nat) (st : state) : state :=
  match sessions st k with
  | Some _ => st
  | None =>
    let s := next_sid st in
    set_next_sid
      (put_ses s {| s_epoch := 0; s_a := None; s_b := None; s_key := k |}
         (set_sessions st (updk (sessions st) k (Some s))))
      (S s)
  end.
Definition session_sid (k : nat * nat) (st : state) : nat :=
  match sessions st k with Some s => s | None => 0 end.

(* Server.maybeReleaseSession *)
Definition maybe_release_session (k : nat * nat) (st : state) : state :=
  match sessions st k with
  | None => st
  | Some s =>
    if is_some (s_a (ses st s)) || is_some (s_b (ses st s)) then st
    else wake_sess s (set_sessions st (updk (sessions st) k None))
  end.

(* sessionTracker.getCurrPeers *)
Definition side (se : session) (a : bool) : option nat := if a then s_a se else s_b se.
Definition set_side (se : session) (a : bool) (v : option nat) : session :=
  if a then {| s_epoch := s_epoch se; s_a := v; s_b := s_b se; s_key := s_key se |}
  else {| s_epoch := s_epoch se; s_a := s_a se; s_b := v; s_key := s_key se |}.
Definition bump (se : session) : session :=
  {| s_epoch := S (s_epoch se); s_a := s_a se; s_b := s_b se; s_key := s_key se |}.

(* prevRemotePeer.recv, prevRemotePeer.recvSent = nil, nil;
   prevRemotePeer.recvClear, prevRemotePeer.outAcked = nil, nil *)
Definition clear_pending (b : mailbox) : mailbox :=
  {| mb_recv := None; mb_recvSent := None; mb_recvClear := None; mb_outAcked := None; mb_gep := mb_gep b |}.
Definition clear_partner (o : option nat) (st : state) : state :=
  match o with Some d => put_box d (clear_pending (sbox st d)) st | None => st end.

(* ---- Listen ---- *)
Definition set_lst (k : lcall) (s : status) : lcall :=
  {| lc_st := s; lc_p := lc_p k; lc_t := lc_t k; lc_n := lc_n k; lc_sent := lc_sent k; lc_out := lc_out k |}.

Definition listen_start (c p : nat) (st : state) : state :=
  match lc_st (lcalls st c) with
  | Fresh =>
    match peers st p with
    | Some t =>
      (* existed: usurp any existing Listen call *)
      let tr := trk st t in
      let tr' := {| t_listening := true; t_nonce := S (t_nonce tr); t_wants := t_wants tr; t_owner := t_owner tr; t_lcur := c |} in
      let st1 := wake_trk t (put_trk t tr' st) in
      put_lwoken c true
        (put_lcall c {| lc_st := Running; lc_p := p; lc_t := t; lc_n := S (t_nonce tr); lc_sent := []; lc_out := [] |} st1)
    | None =>
      let t := next_tid st in
      let tr' := {| t_listening := true; t_nonce := 0; t_wants := []; t_owner := p; t_lcur := c |} in
      let st1 := set_next_tid (put_trk t tr' (set_peers st (upd (peers st) p (Some t)))) (S t) in
      put_lwoken c true
        (put_lcall c {| lc_st := Running; lc_p := p; lc_t := t; lc_n := 0; lc_sent := []; lc_out := [] |} st1)
    end
  | _ => st
  end.

Definition want_guard (w : option nat) (wants sent : list nat) : bool :=
  match w with
  | Some q => memb q wants && negb (memb q sent)
  | None => subset wants sent
  end.

Definition listen_iter (c : nat) (w u : option nat) (st : state) : state :=
  let k := lcalls st c in
  if is_running (lc_st k) && lwoken st c then
    let tr := trk st (lc_t k) in
    if negb (t_nonce tr =? lc_n k) then put_lcall c (set_lst k (Ending EReplaced)) st
    else if want_guard w (t_wants tr) (lc_sent k) && want_guard u (lc_sent k) (t_wants tr) then
      let sent1 := match u with Some q => remove q (lc_sent k) | None => lc_sent k end in
      let sent2 := match w with Some q => q :: sent1 | None => sent1 end in
      let out' := lc_out k ++ olist u LClear ++ olist w LSet in
      put_lwoken c (is_some w || is_some u)
        (put_lcall c {| lc_st := Running; lc_p := lc_p k; lc_t := lc_t k; lc_n := lc_n k; lc_sent := sent2; lc_out := out' |} st)
    else st
  else st.

Definition listen_end (c : nat) (st : state) : state :=
  let k := lcalls st c in
  if alive (lc_st k) then
    let e := match lc_st k with Ending e => e | _ => ECanceled end in
    let t := lc_t k in
    let tr := trk st t in
    let st1 :=
      if onat_eqb (peers st (lc_p k)) (Some t) && (t_nonce tr =? lc_n k) then
        maybe_release_peer (lc_p k)
          (wake_trk t
             (put_trk t {| t_listening := false; t_nonce := S (t_nonce tr); t_wants := t_wants tr; t_owner := t_owner tr; t_lcur := t_lcur tr |} st))
      else st in
    put_lcall c (set_lst k (Ended e)) st1
  else st.

(* ---- Session ---- *)
Definition set_sst (k : scall) (s : status) : scall :=
  {| sc_st := s; sc_src := sc_src k; sc_dst := sc_dst k; sc_isA := sc_isA k; sc_s := sc_s k; sc_dt := sc_dt k;
     sc_prev := sc_prev k; sc_perr := sc_perr k; sc_out := sc_out k |}.
Definition set_perr (k : scall) (e : nat) : scall :=
  {| sc_st := sc_st k; sc_src := sc_src k; sc_dst := sc_dst k; sc_isA := sc_isA k; sc_s := sc_s k; sc_dt := sc_dt k;
     sc_prev := sc_prev k; sc_perr := Some e; sc_out := sc_out k |}.

Definition ended_scall (src e : nat) : scall :=
  {| sc_st := Ended e; sc_src := src; sc_dst := 0; sc_isA := false; sc_s := 0; sc_dt := 0;
     sc_prev := None; sc_perr := None; sc_out := [] |}.

Definition add_want (dt src : nat) (st : state) : state :=
  let tr := trk st dt in
  if memb src (t_wants tr) then st
  else wake_trk dt
         (put_trk dt {| t_listening := t_listening tr; t_nonce := t_nonce tr; t_wants := src :: t_wants tr;
                        t_owner := t_owner tr; t_lcur := t_lcur tr |} st).

Definition del_want (dt src : nat) (st : state) : state :=
  let tr := trk st dt in
  wake_trk dt
    (put_trk dt {| t_listening := t_listening tr; t_nonce := t_nonce tr; t_wants := remove src (t_wants tr);
                   t_owner := t_owner tr; t_lcur := t_lcur tr |} st).

Definition sess_register (c src dst : nat) (st : state) : state :=
  let st1 := ensure_peer dst st in
  let dt := peer_tid dst st1 in
  let st2 := add_want dt src st1 in
  let k := mkkey src dst in
  let a := is_a src dst in
  let st3 := ensure_session k st2 in
  let s := session_sid k st3 in
  let se := ses st3 s in
  let st4 := put_ses s (bump (set_side se a (Some c))) st3 in
  let st5 := clear_partner (side se (negb a)) st4 in
  let st6 := put_box c empty_box
               (put_scall c {| sc_st := Running; sc_src := src; sc_dst := dst; sc_isA := a; sc_s := s; sc_dt := dt;
                               sc_prev := None; sc_perr := None; sc_out := [] |} st5) in
  (* waitCh := sess.getWaitCh(); sess.broadcast(): the new call holds a closed channel too *)
  wake_sess s (put_swoken c true st6).

Definition sess_start (c src seq : nat) (r : req) (st : state) : state :=
  match sc_st (scalls st c) with
  | Fresh =>
    match r with
    | REof => put_scall c (ended_scall src EStream) st
    | RInit (Some dst) =>
      if (seq =? 0) && negb (dst =? src) then sess_register c src dst st
      else put_scall c (ended_scall src ERejected) st
    | _ => put_scall c (ended_scall src ERejected) st
    end
  | _ => st
  end.

Definition fail (c : nat) (e : nat) (st : state) : state :=
  put_scall c (set_perr (scalls st c) e) st.

(* sessionTracker.checkSeqno + the current-side test shared by the three handlers:
   returns the partner call when the request is to be acted upon *)
Inductive gate := GErr | GDrop | GGo (d : nat).
Definition req_gate (c seq : nat) (st : state) : gate :=
  let k := scalls st c in
  let se := ses st (sc_s k) in
  if s_epoch se <? seq then GErr
  else if negb (s_epoch se =? seq) then GDrop
  else match side se (sc_isA k), side se (negb (sc_isA k)) with
       | Some o, Some d => if o =? c then GGo d else GDrop
       | _, _ => GDrop
       end.

Definition handle_send (c seq : nat) (m : msg) (st : state) : state :=
  let k := scalls st c in
  if negb (m_ver m) then fail c ERejected st
  else if negb (m_from m =? sc_src k) then fail c ERejected st
  else match req_gate c seq st with
       | GErr => fail c ERejected st
       | GDrop => st
       | GGo d =>
         let b := sbox st d in
         wake_sess (sc_s k)
           (put_box d {| mb_recv := Some m; mb_recvSent := None; mb_recvClear := mb_recvClear b;
                         mb_outAcked := mb_outAcked b; mb_gep := s_epoch (ses st (sc_s k)) |} st)
       end.

Definition handle_ack (c seq n : nat) (st : state) : state :=
  let k := scalls st c in
  match req_gate c seq st with
  | GErr => fail c ERejected st
  | GDrop => st
  | GGo d =>
    let bc := sbox st c in
    if onat_eqb (mb_recvSent bc) (Some n) then
      let st1 := put_box c {| mb_recv := mb_recv bc; mb_recvSent := None; mb_recvClear := mb_recvClear bc;
                              mb_outAcked := mb_outAcked bc; mb_gep := mb_gep bc |} st in
      let bd := sbox st1 d in
      wake_sess (sc_s k)
        (put_box d {| mb_recv := mb_recv bd; mb_recvSent := mb_recvSent bd; mb_recvClear := mb_recvClear bd;
                      mb_outAcked := Some n; mb_gep := mb_gep bd |} st1)
    else st
  end.

Definition handle_clear (c seq n : nat) (st : state) : state :=
  match req_gate c seq st with
  | GErr => fail c ERejected st
  | GDrop => st
  | GGo d =>
    let bd := sbox st d in
    let hit := match mb_recv bd with Some m => m_seqno m =? n | None => false end in
    if hit then
      (* not transmitted yet: drop it *)
      put_box d {| mb_recv := None; mb_recvSent := mb_recvSent bd; mb_recvClear := mb_recvClear bd;
                   mb_outAcked := mb_outAcked bd; mb_gep := mb_gep bd |} st
    else if onat_eqb (mb_recvSent bd) (Some n) then
      put_box d {| mb_recv := mb_recv bd; mb_recvSent := None; mb_recvClear := Some n;
                   mb_outAcked := mb_outAcked bd; mb_gep := mb_gep bd |} st
    else st   (* note: the clear is NOT broadcast in the Go code *)
  end.

(* read goroutine: runs until its first error *)
Definition sess_req (c seq : nat) (r : req) (st : state) : state :=
  let k := scalls st c in
  if alive (sc_st k) && negb (is_some (sc_perr k)) then
    match r with
    | RSend m => handle_send c seq m st
    | RAck n => handle_ack c seq n st
    | RClear n => handle_clear c seq n st
    | RInit _ | RUnknown => fail c ERejected st
    | REof => fail c EStream st
    end
  else st.

(* the read goroutine handles one request at a time: Begin does the unlocked
   part (for SendMsg: signature verification and signer check, which read only
   the message and the stream identity), Store runs the lock region against the
   state of THAT moment. The verification outcome is a function of the message,
   so re-evaluating it in Store changes nothing. *)
Definition sess_req_begin (c seq : nat) (r : req) (st : state) : state :=
  let k := scalls st c in
  if alive (sc_st k) && negb (is_some (sc_perr k)) && negb (is_some (spend st c)) then
    match r with
    | RSend m =>
      if negb (m_ver m) then fail c ERejected st
      else if negb (m_from m =? sc_src k) then fail c ERejected st
      else set_spend st (upd (spend st) c (Some (seq, r)))
    | RAck _ | RClear _ => set_spend st (upd (spend st) c (Some (seq, r)))
    | RInit _ | RUnknown => fail c ERejected st
    | REof => fail c EStream st
    end
  else st.

Definition sess_req_store (c : nat) (st : state) : state :=
  match spend st c with
  | Some (seq, r) => sess_req c seq r (set_spend st (upd (spend st) c None))
  | None => st
  end.

Definition sess_iter (c : nat) (st : state) : state :=
  let k := scalls st c in
  if is_running (sc_st k) && swoken st c then
    let s := sc_s k in
    let se := ses st s in
    let usurped := negb (onat_eqb (side se (sc_isA k)) (Some c)) in
    let cur_open := match side se (negb (sc_isA k)) with Some _ => Some (s_epoch se) | None => None end in
    let st1 := put_swoken c false st in   (* waitCh = sess.getWaitCh() *)
    if usurped then put_scall c (set_sst k (Ending EReplaced)) st1
    else
      let b := sbox st c in
      let taking := is_some cur_open in
      let st2 :=
        if taking then
          let st' := put_box c {| mb_recv := None;
                                  mb_recvSent := match mb_recv b with Some m => Some (m_seqno m) | None => mb_recvSent b end;
                                  mb_recvClear := None; mb_outAcked := None; mb_gep := mb_gep b |} st1 in
          if is_some (mb_recv b) then wake_sess s st' else st'
        else st1 in
      let ann := if onat_eqb (sc_prev k) cur_open then []
                 else [match cur_open with Some e => SOpened e | None => SClosed end] in
      let rest := if taking then olist (mb_outAcked b) SAck ++ olist (mb_recvClear b) SClear ++ olist (mb_recv b) SRecv
                  else [] in
      put_scall c {| sc_st := Running; sc_src := sc_src k; sc_dst := sc_dst k; sc_isA := sc_isA k; sc_s := s;
                     sc_dt := sc_dt k; sc_prev := cur_open; sc_perr := sc_perr k;
                     sc_out := sc_out k ++ ann ++ rest |} st2
  else st.

Definition end_error (k : scall) (cancel : bool) : option nat :=
  match sc_st k with
  | Running => if cancel then Some ECanceled else sc_perr k
  | Ending e => Some e
  | _ => None
  end.

Definition sess_cleanup (c : nat) (st : state) : state :=
  let k := scalls st c in
  let s := sc_s k in
  let se := ses st s in
  if onat_eqb (side se (sc_isA k)) (Some c) then
    let st1 := put_ses s (bump (set_side se (sc_isA k) None)) st in
    let st2 := clear_partner (side se (negb (sc_isA k))) st1 in
    let st3 := wake_sess s st2 in
    let st4 := maybe_release_session (mkkey (sc_src k) (sc_dst k)) st3 in
    let st5 := del_want (sc_dt k) (sc_src k) st4 in
    maybe_release_peer (sc_dst k) st5
  else st.

Definition sess_end (c : nat) (cancel : bool) (st : state) : state :=
  let k := scalls st c in
  match end_error k cancel with
  | Some e =>
    let st1 := sess_cleanup c st in
    put_scall c (set_sst (scalls st1 c) (Ended e)) st1
  | None => st
  end.

Definition step (st : state) (a : action) : state :=
  match a with
  | ListenStart c p => listen_start c p st
  | ListenIter c w u => listen_iter c w u st
  | ListenEnd c => listen_end c st
  | SessStart c src seq r => sess_start c src seq r st
  | SessReq c seq r => sess_req c seq r st
  | SessReqBegin c seq r => sess_req_begin c seq r st
  | SessReqStore c => sess_req_store c st
  | SessIter c => sess_iter c st
  | SessEnd c cancel => sess_end c cancel st
  end.

Definition run (l : list action) : state := fold_left step l init.

(* quiescent: no Iter / Fail / pending cleanup is enabled *)
Definition lquiet (st : state) (c : nat) : Prop :=
  match lc_st (lcalls st c) with
  | Running => lwoken st c = false
  | Ending _ => False
  | _ => True
  end.
Definition squiet (st : state) (c : nat) : Prop :=
  match sc_st (scalls st c) with
  | Running => swoken st c = false /\ sc_perr (scalls st c) = None
  | Ending _ => False
  | _ => True
  end.
Definition quiescent (st : state) : Prop := forall c, lquiet st c /\ squiet st c.

(* the session call of src towards dst that is registered now, if any *)
Definition cur_sess (st : state) (src dst : nat) : option nat :=
  match sessions st (mkkey src dst) with
  | Some s => side (ses st s) (is_a src dst)
  | None => None
  end.

(* the set announced on a Listen stream: SetPeer adds, ClearPeer removes *)
Definition announce (acc : list nat) (r : lresp) : list nat :=
  match r with LSet q => q :: acc | LClear q => remove q acc end.
Definition announced (out : list lresp) : list nat := fold_left announce out [].

(* the last Opened/Closed on a Session stream: Some e after Opened e, None after Closed or nothing *)
Definition last_open_step (acc : option nat) (r : sresp) : option nat :=
  match r with SOpened e => Some e | SClosed => None | _ => acc end.
Definition last_open (out : list sresp) : option nat := fold_left last_open_step out None.
