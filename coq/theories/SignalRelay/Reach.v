(* The invariant holds in every reachable state of the relay LTS (all action
   sequences from the empty relay), and the property statements over runs. *)
From Bifrost Require Import Lib.Base SignalRelay.Model SignalRelay.Inv SignalRelay.PresL SignalRelay.PresS
  SignalRelay.PresE SignalRelay.Proofs SignalRelay.Run.
Local Open Scope nat_scope.

Lemma init_inv : Inv init.
Proof.
  constructor; unfold init; cbn;
    try (intros until 0; cbn; intros; try discriminate; try contradiction; auto; fail).
  - intros t _. cbn. auto.
  - intros s b c. destruct b; cbn; discriminate.
  - intros s b c. destruct b; cbn; discriminate.
  - intros s b c. destruct b; cbn; discriminate.
  - intros c. reflexivity.
  - intros c. reflexivity.
  - intros c m. cbn. contradiction.
Qed.

Theorem step_inv st a : Inv st -> Inv (step st a).
Proof.
  intros H. destruct a; cbn [step].
  - apply listen_start_inv; auto.
  - apply listen_iter_inv; auto.
  - apply listen_end_inv; auto.
  - apply sess_start_inv; auto.
  - apply sess_req_inv; auto.
  - apply sess_req_begin_inv; auto.
  - apply sess_req_store_inv; auto.
  - apply sess_iter_inv; auto.
  - apply sess_end_inv; auto.
Qed.

Lemma fold_inv l : forall st, Inv st -> Inv (fold_left step l st).
Proof. induction l as [|a l IH]; intros st H; cbn; auto. apply IH, step_inv, H. Qed.

Theorem run_inv l : Inv (run l).
Proof. apply fold_inv, init_inv. Qed.

(* ---- C20 ---- *)
Theorem forwarded_authentic_run l q m :
  In (SRecv m) (sc_out (scalls (run l) q)) ->
  m_ver m = true /\ m_from m = sc_dst (scalls (run l) q).
Proof. apply forwarded_authentic, run_inv. Qed.

Theorem send_routing_run l c seq m d :
  alive (sc_st (scalls (run l) c)) = true ->
  sbox (step (run l) (SessReq c seq (RSend m))) d <> sbox (run l) d ->
  m_ver m = true /\ m_from m = sc_src (scalls (run l) c) /\ seq = epoch_of (run l) c /\
  side (ses (run l) (sc_s (scalls (run l) c))) (sc_isA (scalls (run l) c)) = Some c /\
  side (ses (run l) (sc_s (scalls (run l) c))) (negb (sc_isA (scalls (run l) c))) = Some d /\
  sc_src (scalls (run l) d) = sc_dst (scalls (run l) c) /\ sc_dst (scalls (run l) d) = sc_src (scalls (run l) c) /\
  mb_recv (sbox (step (run l) (SessReq c seq (RSend m))) d) = Some m /\
  mb_gep (sbox (step (run l) (SessReq c seq (RSend m))) d) = seq.
Proof. cbn [step]. apply send_routing, run_inv. Qed.

(* ---- C22 ---- *)
Theorem told_at_quiescence_run l s a b :
  quiescent (run l) -> side (ses (run l) s) b = Some a ->
  last_open (sc_out (scalls (run l) a)) =
    match side (ses (run l) s) (negb b) with Some _ => Some (s_epoch (ses (run l) s)) | None => None end.
Proof. intros Q. apply told_at_quiescence; auto. apply run_inv. Qed.

Theorem stale_drop_not_silent_run l c :
  sc_st (scalls (run l) c) = Running ->
  swoken (run l) c = true \/
  (side (ses (run l) (sc_s (scalls (run l) c))) (sc_isA (scalls (run l) c)) = Some c /\
   last_open (sc_out (scalls (run l) c)) = cur_open (ses (run l)) (scalls (run l)) c).
Proof. apply stale_drop_not_silent, run_inv. Qed.

(* the epoch recorded when a message was stored (= the session seqno it was
   submitted with, send_routing) is the epoch in which it is delivered *)
Theorem no_cross_epoch_run l c m :
  In (SRecv m) (sc_out (scalls (step (run l) (SessIter c)) c)) ->
  ~ In (SRecv m) (sc_out (scalls (run l) c)) ->
  mb_recv (sbox (run l) c) = Some m /\
  mb_gep (sbox (run l) c) = s_epoch (ses (run l) (sc_s (scalls (run l) c))) /\
  side (ses (run l) (sc_s (scalls (run l) c))) (negb (sc_isA (scalls (run l) c))) <> None.
Proof.
  cbn [step]. intros Hi Hn. destruct (iter_delivers _ _ _ Hi Hn) as (Hb & Ho & Hp).
  repeat split; auto. apply (pending_is_current_epoch _ _ m (run_inv l)); auto.
Qed.

Theorem stored_with_epoch_run l c seq m d :
  alive (sc_st (scalls (run l) c)) = true ->
  sbox (step (run l) (SessReq c seq (RSend m))) d <> sbox (run l) d ->
  seq = epoch_of (run l) c /\
  mb_recv (sbox (step (run l) (SessReq c seq (RSend m))) d) = Some m /\
  mb_gep (sbox (step (run l) (SessReq c seq (RSend m))) d) = seq.
Proof. intros Ha Hd. destruct (send_routing_run l c seq m d Ha Hd) as (_ & _ & X & _ & _ & _ & _ & Y & Z). auto. Qed.

(* the same for the finer LTS in which verification (SessReqBegin) and the store
   region (SessReqStore) are separate actions with anything in between *)
Theorem store_routing_run l c seq m d :
  alive (sc_st (scalls (run l) c)) = true -> spend (run l) c = Some (seq, RSend m) ->
  sbox (step (run l) (SessReqStore c)) d <> sbox (run l) d ->
  m_ver m = true /\ m_from m = sc_src (scalls (run l) c) /\ seq = epoch_of (run l) c /\
  side (ses (run l) (sc_s (scalls (run l) c))) (negb (sc_isA (scalls (run l) c))) = Some d /\
  mb_recv (sbox (step (run l) (SessReqStore c)) d) = Some m /\
  mb_gep (sbox (step (run l) (SessReqStore c)) d) = seq.
Proof. intros Ha Hp. cbn [step]. apply store_routing; auto. apply run_inv. Qed.

(* ---- C24 ---- *)
Theorem listener_set_run l c :
  lc_st (lcalls (run l) c) = Running -> lwoken (run l) c = false ->
  peers (run l) (lc_p (lcalls (run l) c)) = Some (lc_t (lcalls (run l) c)) /\
  t_nonce (trk (run l) (lc_t (lcalls (run l) c))) = lc_n (lcalls (run l) c) /\
  forall q, In q (announced (lc_out (lcalls (run l) c))) <-> cur_sess (run l) q (lc_p (lcalls (run l) c)) <> None.
Proof. apply listener_set, run_inv. Qed.

Theorem listen_current_holds_tracker_run l c : listen_current (run l) c ->
  peers (run l) (lc_p (lcalls (run l) c)) = Some (lc_t (lcalls (run l) c)) /\
  t_listening (trk (run l) (lc_t (lcalls (run l) c))) = true.
Proof. apply listen_current_holds_tracker, run_inv. Qed.

(* ---- C25 ---- *)
Theorem one_listen_run l c1 c2 : listen_current (run l) c1 -> listen_current (run l) c2 ->
  lc_p (lcalls (run l) c1) = lc_p (lcalls (run l) c2) -> c1 = c2.
Proof. apply one_listen, run_inv. Qed.

Theorem replaced_listen_run l c : lc_st (lcalls (run l) c) = Running ->
  lc_n (lcalls (run l) c) <> t_nonce (trk (run l) (lc_t (lcalls (run l) c))) ->
  lwoken (run l) c = true /\
  forall w u, let st1 := step (run l) (ListenIter c w u) in
    lc_st (lcalls st1 c) = Ending EReplaced /\
    let st2 := step st1 (ListenEnd c) in
    lc_st (lcalls st2 c) = Ended EReplaced /\ peers st2 = peers (run l) /\ trk st2 = trk (run l).
Proof. cbn [step]. apply replaced_listen, run_inv. Qed.

Theorem one_session_run l c1 c2 : sess_current (run l) c1 -> sess_current (run l) c2 ->
  sc_src (scalls (run l) c1) = sc_src (scalls (run l) c2) ->
  sc_dst (scalls (run l) c1) = sc_dst (scalls (run l) c2) -> c1 = c2.
Proof. apply one_session, run_inv. Qed.

Theorem replaced_session_run l c : sc_st (scalls (run l) c) = Running -> ~ sess_current (run l) c ->
  swoken (run l) c = true /\
  let st1 := step (run l) (SessIter c) in
  sc_st (scalls st1 c) = Ending EReplaced /\
  let st2 := step st1 (SessEnd c false) in
  sc_st (scalls st2 c) = Ended EReplaced /\ peers st2 = peers (run l) /\ trk st2 = trk (run l) /\
  sessions st2 = sessions (run l) /\ ses st2 = ses (run l) /\ sbox st2 = sbox (run l).
Proof. cbn [step]. apply replaced_session, run_inv. Qed.

Theorem no_leftover_run l :
  (forall c, alive (lc_st (lcalls (run l) c)) = false /\ alive (sc_st (scalls (run l) c)) = false) ->
  (forall p, peers (run l) p = None) /\ (forall k, sessions (run l) k = None).
Proof. apply no_leftover, run_inv. Qed.

(* Evaluation strategy of Run.v: re-tabulating a function on [0,n) is the
   identity on that range *)
Lemma tab_spec {A} n (d : A) f x : x < n -> Run.tab n d f x = f x.
Proof.
  unfold Run.tab. intros Hx.
  rewrite (nth_indep _ d (f 0)) by (rewrite map_length, seq_length; exact Hx).
  rewrite map_nth with (d := 0). rewrite seq_nth by exact Hx. reflexivity.
Qed.

(* The authenticity decision has no memory: in the model it reads only the
   submitted message (m_ver, m_from: the outcome of ExtractAndVerify on it) and
   the identity of the stream; so after ANY history - in particular after the
   same stream had an authentic message with the same seqno, sender and
   signature accepted - a message that does not verify, or verifies for another
   identity, is rejected. *)
Theorem unauthentic_rejected_run l c seq m :
  (m_ver m = false \/ m_from m <> sc_src (scalls (run l) c)) ->
  alive (sc_st (scalls (run l) c)) = true -> sc_perr (scalls (run l) c) = None ->
  step (run l) (SessReq c seq (RSend m)) = fail c ERejected (run l).
Proof. cbn [step]. apply unauthentic_rejected. Qed.
