(* C14, table soundness: every row of the regenerated blacklist encodes a point of
   order dividing 8 of the twisted Edwards curve -x^2 + y^2 = 1 + d x^2 y^2 over
   GF(2^255 - 19), d = -121665/121666; and the rows are exactly the encodings
   below 2^255 of the five y-coordinates {0, 1, -1, +-y8} of the small-order
   points (y8 computed from the curve constants, not copied from the source).
   All by computation in Z.  That there are no OTHER small-order points is the
   group structure of the curve (8-torsion cyclic of order 8), cited. *)
From Bifrost Require Import Lib.Base gen.LowOrder Derive.Model.

Definition fp : Z := 2 ^ 255 - 19.

Fixpoint pow_pos (b : Z) (e : positive) : Z :=
  match e with
  | xH => b mod fp
  | xO e' => let t := pow_pos b e' in (t * t) mod fp
  | xI e' => let t := pow_pos b e' in ((t * t) mod fp * b) mod fp
  end.
Definition fpow (b e : Z) : Z := match e with Zpos p => pow_pos b p | _ => 1 end.
Definition finv (a : Z) : Z := fpow a (fp - 2).
Definition fd : Z := ((fp - 121665) * finv 121666) mod fp.
Definition sqrtm1 : Z := fpow 2 ((fp - 1) / 4).

(* square root for p = 5 mod 8 *)
Definition fsqrt (a : Z) : option Z :=
  let a := a mod fp in
  let x := fpow a ((fp + 3) / 8) in
  if (x * x) mod fp =? a then Some x
  else let x' := (x * sqrtm1) mod fp in
       if (x' * x') mod fp =? a then Some x' else None.

Definition on_curve (P : Z * Z) : bool :=
  let '(x, y) := P in
  (y * y - x * x) mod fp =? (1 + (fd * ((x * x) mod fp)) mod fp * ((y * y) mod fp)) mod fp.

(* the Edwards addition law (a = -1), affine, with the denominators checked *)
Definition padd (P Q : Z * Z) : option (Z * Z) :=
  let '(x1, y1) := P in
  let '(x2, y2) := Q in
  let t := ((fd * ((x1 * x2) mod fp)) mod fp * ((y1 * y2) mod fp)) mod fp in
  let dx := (1 + t) mod fp in
  let dy := (1 - t) mod fp in
  if (dx =? 0) || (dy =? 0) then None
  else Some ((((x1 * y2 + x2 * y1) mod fp) * finv dx) mod fp,
             (((y1 * y2 + x1 * x2) mod fp) * finv dy) mod fp).

Definition pdbl (P : Z * Z) : option (Z * Z) := padd P P.

Definition is_identity (P : Z * Z) : bool := (fst P =? 0) && (snd P =? 1).

(* on the curve and 8P = O; order_exactly_8 additionally 4P <> O *)
Definition small_order_pt (P : Z * Z) : bool :=
  on_curve P &&
  match pdbl P with
  | Some P2 => match pdbl P2 with
               | Some P4 => match pdbl P4 with Some P8 => is_identity P8 | None => false end
               | None => false
               end
  | None => false
  end.

Definition recover_x (y : Z) : option Z :=
  let u := (y * y - 1) mod fp in
  let v := ((fd * ((y * y) mod fp)) mod fp + 1) mod fp in
  fsqrt ((u * finv v) mod fp).

Definition y_small_order (y : Z) : bool :=
  match recover_x y with Some x => small_order_pt (x, y) | None => false end.

(* little-endian value of a row; the rows have the sign bit clear *)
Definition le_value (row : list Z) : Z := fold_right (fun b acc => b + acc * 256) 0 row.

Definition row_small_order (row : list Z) : bool := y_small_order (le_value row mod fp).

Lemma table_small_order : forallb row_small_order ed_blacklist = true.
Proof. vm_compute. reflexivity. Qed.

(* y-coordinate of a point of order 8: 2P has y = 0, i.e. d y^4 + 2 y^2 - 1 = 0 *)
Definition y8 : Z :=
  match fsqrt ((1 + fd) mod fp) with
  | Some s =>
      match fsqrt (((s - 1) mod fp * finv fd) mod fp) with
      | Some y => y
      | None => match fsqrt (((0 - s - 1) mod fp * finv fd) mod fp) with Some y => y | None => 0 end
      end
  | None => 0
  end.

Definition small_order_ys : list Z := [0; 1; fp - 1; y8; fp - y8].

Lemma small_order_ys_sound : forallb y_small_order small_order_ys = true.
Proof. vm_compute. reflexivity. Qed.

Definition table_values : list Z := Eval vm_compute in map le_value ed_blacklist.
Definition ys_values : list Z := Eval vm_compute in small_order_ys.

Lemma table_values_eq : map le_value ed_blacklist = table_values.
Proof. vm_compute. reflexivity. Qed.
Lemma ys_values_eq : small_order_ys = ys_values.
Proof. vm_compute. reflexivity. Qed.

Definition mem (v : Z) (l : list Z) : bool := existsb (Z.eqb v) l.
Lemma mem_In v l : mem v l = true <-> In v l.
Proof.
  unfold mem. rewrite existsb_exists. split.
  - intros [x [Hx E]]. apply Z.eqb_eq in E. subst. assumption.
  - intros H. exists v. split; [assumption|apply Z.eqb_refl].
Qed.

(* the rows are exactly the 255-bit encodings of those y-coordinates *)
Theorem table_complete : forall y, 0 <= y < 2 ^ 255 ->
  (In (y mod fp) small_order_ys <-> In y (map le_value ed_blacklist)).
Proof.
  intros y Hy. rewrite table_values_eq, ys_values_eq. split.
  - intros H.
    assert (Hq : y = y mod fp \/ y = y mod fp + fp).
    { pose proof (Z.div_mod y fp ltac:(unfold fp; lia)) as D.
      pose proof (Z.mod_pos_bound y fp ltac:(unfold fp; lia)) as B.
      assert (0 <= y / fp < 2).
      { split; [apply Z.div_pos; unfold fp; lia|apply Z.div_lt_upper_bound; unfold fp in *; lia]. }
      assert (y / fp = 0 \/ y / fp = 1) as [E|E] by lia; rewrite E in D; lia. }
    set (c := y mod fp) in *. clearbody c.
    unfold ys_values in H. cbn [In] in H. unfold table_values. apply mem_In.
    change (2 ^ 255) with 57896044618658097711785492504343953926634992332820282019728792003956564819968 in Hy.
    unfold fp in Hq. 
    change (2 ^ 255 - 19) with 57896044618658097711785492504343953926634992332820282019728792003956564819949 in Hq.
    destruct H as [H|[H|[H|[H|[H|[]]]]]]; subst c; destruct Hq as [-> | ->];
      try (vm_compute; reflexivity); exfalso; lia.
  - intros H. apply mem_In. unfold table_values in H. cbn [In] in H.
    destruct H as [H|[H|[H|[H|[H|[H|[H|[]]]]]]]]; subst y; vm_compute; reflexivity.
Qed.

Print Assumptions table_small_order.
Print Assumptions small_order_ys_sound.
Print Assumptions table_complete.
