(* C13: DeriveKey / DeriveEd25519Key are total, and (with the primitives
   idealised as free functions) injective in (key, context, salt). *)
From Bifrost Require Import Lib.Base Lib.Sym Lib.SigSym gen.Derive Derive.Model Derive.ProofsLow.

(* ---- the xor loop ---- *)

(* the loop as a total function, valid when the context is not empty *)
Fixpoint xor_tot (ctx : bytes) (i : nat) (m : sbytes) : sbytes :=
  match m with
  | [] => []
  | x :: m' => sxor x (nth (i mod length ctx) ctx 0) :: xor_tot ctx (S i) m'
  end.

Definition xored (ctx : bytes) (m : sbytes) : sbytes :=
  if Nat.eqb (length ctx) 0 then m else xor_tot ctx 0 m.

Lemma xor_loop_tot ctx : length ctx <> 0%nat ->
  forall m i, xor_loop ctx i m = Ok (xor_tot ctx i m).
Proof.
  intros Hc. induction m as [|x m IH]; intros i; cbn [xor_loop xor_tot]; [reflexivity|].
  destruct (Nat.eqb_spec (length ctx) 0) as [E|_]; [contradiction|].
  assert (Hlt : (i mod length ctx < length ctx)%nat) by (apply Nat.mod_upper_bound; assumption).
  destruct (nth_error ctx (i mod length ctx)) as [c|] eqn:E.
  - rewrite IH. cbn [obind]. rewrite (nth_error_nth ctx _ 0 E). reflexivity.
  - apply nth_error_None in E. lia.
Qed.

Lemma xor_ctx_ok ctx m : xor_ctx ctx m = Ok (xored ctx m).
Proof.
  unfold xor_ctx, xored. destruct (Nat.eqb_spec (length ctx) 0) as [E|NE]; [reflexivity|].
  apply xor_loop_tot. assumption.
Qed.

(* without the guard the loop panics on an empty context as soon as there is a byte *)
Lemma xor_unguarded_panics x m : xor_ctx_unguarded [] (x :: m) = Panic.
Proof. reflexivity. Qed.

Lemma lxor_cancel z z' c : Z.lxor z c = Z.lxor z' c -> z = z'.
Proof.
  intros H. rewrite <- (Z.lxor_0_r z), <- (Z.lxor_0_r z'), <- (Z.lxor_nilpotent c).
  rewrite <- !Z.lxor_assoc, H. reflexivity.
Qed.

Lemma sxor_inj s s' c : sxor s c = sxor s' c -> s = s'.
Proof.
  destruct s as [z|f a i], s' as [z'|f' a' i']; cbn [sxor]; intros H; try discriminate.
  - injection H as H. apply lxor_cancel in H. congruence.
  - congruence.
Qed.

Lemma xor_tot_inj ctx : forall m m' i, xor_tot ctx i m = xor_tot ctx i m' -> m = m'.
Proof.
  induction m as [|x m IH]; intros [|y m'] i H; cbn [xor_tot] in H; try discriminate; auto.
  injection H as H1 H2. apply sxor_inj in H1. apply IH in H2. congruence.
Qed.

Lemma xored_inj ctx m m' : xored ctx m = xored ctx m' -> m = m'.
Proof. unfold xored. destruct (Nat.eqb (length ctx) 0); [auto|apply xor_tot_inj]. Qed.

Lemma sxor_is_F s c : is_F s = true -> is_F (sxor s c) = true.
Proof. destruct s; cbn; auto. Qed.

Lemma xor_tot_all_F ctx : forall m i, forallb is_F m = true -> forallb is_F (xor_tot ctx i m) = true.
Proof.
  induction m as [|x m IH]; intros i H; cbn [xor_tot forallb] in *; [reflexivity|].
  apply andb_true_iff in H as [H1 H2]. rewrite sxor_is_F, IH; auto.
Qed.

Lemma xored_no_lead ctx m : forallb is_F m = true -> no_lead_B (xored ctx m).
Proof.
  intros H. apply all_F_no_lead. unfold xored.
  destruct (Nat.eqb (length ctx) 0); [assumption|apply xor_tot_all_F; assumption].
Qed.

Lemma xor_tot_length ctx : forall m i, length (xor_tot ctx i m) = length m.
Proof. induction m as [|x m IH]; intros i; cbn [xor_tot length]; auto. Qed.

Lemma xored_length ctx m : length (xored ctx m) = length m.
Proof. unfold xored. destruct (Nat.eqb (length ctx) 0); [reflexivity|apply xor_tot_length]. Qed.

(* ---- closed form of DeriveKey on an Ed25519 key ---- *)

Definition derive_input (ctx salt : bytes) (k : edkey) : sbytes :=
  lift derive_kdf_label ++ lift salt ++ xored ctx (dh k (eph_key ctx k)).

Lemma derive_key_ed ctx salt k n :
  derive_key ctx salt (PrivEd k) n = Ok (kdf ctx (derive_input ctx salt k) n).
Proof.
  unfold derive_key. unfold xpriv at 1 2. rewrite firstn_length, fout_length.
  change take_n with 32%nat. cbn [Nat.ltb Nat.leb Nat.min Nat.eqb negb].
  rewrite xor_ctx_ok. reflexivity.
Qed.

(* ---- totality ---- *)

Theorem derive_key_total ctx salt priv n : derive_key ctx salt priv n <> Panic.
Proof.
  destruct priv as [|k|]; try (cbn; discriminate). rewrite derive_key_ed. discriminate.
Qed.

Theorem derive_key_result ctx salt priv n :
  match priv with
  | PrivEd k => exists o, derive_key ctx salt priv n = Ok o /\ length o = n
  | _ => exists e, derive_key ctx salt priv n = Err e
  end.
Proof.
  destruct priv as [|k|]; [eexists; reflexivity| |eexists; reflexivity].
  rewrite derive_key_ed. eexists. split; [reflexivity|]. unfold kdf. apply fout_length.
Qed.

Theorem derive_ed25519_total ctx salt priv : derive_ed25519 ctx salt priv <> Panic.
Proof.
  unfold derive_ed25519. destruct priv as [|k|]; try (cbn; discriminate).
  rewrite derive_key_ed. cbn [obind]. discriminate.
Qed.

(* ---- separation ---- *)

Lemma app_inj_length {A} (a a' b b' : list A) :
  length a = length a' -> a ++ b = a' ++ b' -> a = a' /\ b = b'.
Proof.
  revert a'; induction a as [|x a IH]; intros [|y a'] HL H; cbn in HL; try discriminate.
  - auto.
  - cbn [app] in H. injection H as H1 H2. apply IH in H2; [|lia]. destruct H2. subst. auto.
Qed.

Lemma fout_head fn n arg : In (F fn arg 0) (fout fn (S n) arg).
Proof. unfold fout. apply in_map. apply in_seq. lia. Qed.

(* the ephemeral key strictly contains the key it was generated for *)
Lemma eph_size ctx k : (sym_size (key_sym k) < sym_size (key_sym (eph_key ctx k)))%nat.
Proof.
  unfold eph_key. cbn [key_sym].
  eapply Nat.lt_trans; [|apply sym_size_arg; apply (fout_head FN_BLAKE3 31)].
  eapply Nat.lt_trans; [|apply sym_size_arg; apply in_or_app; left; apply (fout_head FN_XPRIV 63)].
  apply sym_size_arg. left. reflexivity.
Qed.

Lemma dh_all_F a b : forallb is_F (dh a b) = true.
Proof. apply fout_all_F. Qed.

Theorem derive_key_injective ctx salt k n ctx' salt' k' n' o :
  derive_key ctx salt (PrivEd k) n = Ok o ->
  derive_key ctx' salt' (PrivEd k') n' = Ok o ->
  (0 < n)%nat ->
  ctx = ctx' /\ salt = salt' /\ k = k' /\ n = n'.
Proof.
  rewrite !derive_key_ed. intros H1 H2 Hn.
  assert (H : kdf ctx (derive_input ctx salt k) n = kdf ctx' (derive_input ctx' salt' k') n')
    by congruence.
  clear H1 H2. unfold kdf in H.
  apply fout_inj2 in H; [|assumption]. destruct H as [_ [Hnn H]].
  apply app_inj_length in H; [|rewrite !fout_length; reflexivity].
  destruct H as [Hc Hi].
  apply fout_inj in Hc; [|lia]. destruct Hc as [_ Hc]. apply lift_inj in Hc. subst ctx'.
  unfold derive_input in Hi. apply app_inv_head in Hi.
  apply lift_app_inj in Hi; try (apply xored_no_lead, dh_all_F).
  destruct Hi as [Hs Hm]. apply xored_inj in Hm. apply dh_injective in Hm.
  destruct Hm as [[Hk _]|[Hk Hk']].
  - auto.
  - exfalso. pose proof (eph_size ctx k) as S1. pose proof (eph_size ctx k') as S2.
    rewrite <- Hk in S2. rewrite Hk' in S1. lia.
Qed.

Theorem derive_key_separated ctx salt k n ctx' salt' k' n' o o' :
  derive_key ctx salt (PrivEd k) n = Ok o ->
  derive_key ctx' salt' (PrivEd k') n' = Ok o' ->
  (0 < n)%nat ->
  (ctx, salt, k) <> (ctx', salt', k') -> o <> o'.
Proof.
  intros H1 H2 Hn Hne Heq. subst o'.
  destruct (derive_key_injective _ _ _ _ _ _ _ _ _ H1 H2 Hn) as [? [? [? ?]]]. subst. auto.
Qed.

(* same inputs, longer output: the shorter output is a prefix (XOF) *)
Theorem derive_key_prefix ctx salt priv n n' o o' :
  derive_key ctx salt priv n = Ok o -> derive_key ctx salt priv n' = Ok o' ->
  (n <= n')%nat -> o = firstn n o'.
Proof.
  destruct priv as [|k|]; try (cbn; discriminate). rewrite !derive_key_ed.
  intros H1 H2 Hle. injection H1 as <-. injection H2 as <-. unfold kdf, fout.
  rewrite firstn_map. f_equal. replace n' with (n + (n' - n))%nat by lia.
  rewrite seq_app, firstn_app, seq_length, Nat.sub_diag, firstn_O, app_nil_r.
  rewrite firstn_all2 by (rewrite seq_length; lia). reflexivity.
Qed.

Theorem derive_ed25519_injective ctx salt k ctx' salt' k' d :
  derive_ed25519 ctx salt (PrivEd k) = Ok d ->
  derive_ed25519 ctx' salt' (PrivEd k') = Ok d ->
  ctx = ctx' /\ salt = salt' /\ k = k'.
Proof.
  unfold derive_ed25519.
  destruct (derive_key ctx salt (PrivEd k) 32) as [s| |] eqn:E1; cbn [obind]; try discriminate.
  destruct (derive_key ctx' salt' (PrivEd k') 32) as [s'| |] eqn:E2; cbn [obind]; try discriminate.
  intros H1 H2. injection H1 as <-. injection H2 as H2. subst s'.
  destruct (derive_key_injective _ _ _ _ _ _ _ _ _ E1 E2 ltac:(lia)) as [? [? [? ?]]]. auto.
Qed.

