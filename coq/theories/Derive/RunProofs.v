(* The fast relation used when evaluating C13 cases is the model's relation,
   for all inputs. *)
From Bifrost Require Import Lib.Base Lib.Sym Lib.SigSym gen.Derive Derive.Model Derive.ProofsLow
  Derive.Proofs Derive.Run.

Lemma eval_key_ok : forall k, exists e, eval_key k = Ok e.
Proof.
  induction k as [n|c s k [e IH]]; cbn [eval_key]; [eauto|].
  rewrite IH. cbn [obind]. unfold derive_ed25519. rewrite derive_key_ed. cbn [obind]. eauto.
Qed.

Lemma eval_key_inj : forall k1 k2 e, eval_key k1 = Ok e -> eval_key k2 = Ok e -> k1 = k2.
Proof.
  induction k1 as [n|c s k1 IH]; intros [m|c' s' k2] e H1 H2; cbn [eval_key] in H1, H2.
  - congruence.
  - destruct (eval_key_ok k2) as [e2 E2]. rewrite E2 in H2. cbn [obind] in H2.
    unfold derive_ed25519 in H2. rewrite derive_key_ed in H2. cbn [obind] in H2. congruence.
  - destruct (eval_key_ok k1) as [e1 E1]. rewrite E1 in H1. cbn [obind] in H1.
    unfold derive_ed25519 in H1. rewrite derive_key_ed in H1. cbn [obind] in H1. congruence.
  - destruct (eval_key_ok k1) as [e1 E1], (eval_key_ok k2) as [e2 E2].
    rewrite E1 in H1. rewrite E2 in H2. cbn [obind] in H1, H2.
    destruct (derive_ed25519_injective _ _ _ _ _ _ _ H1 H2) as [-> [-> ->]].
    f_equal. eapply IH; eauto.
Qed.

Lemma keyt_eqb_spec : forall a b, keyt_eqb a b = true <-> a = b.
Proof.
  induction a as [n|c s k IH]; intros [m|c' s' k']; cbn [keyt_eqb]; try (split; congruence).
  - rewrite Nat.eqb_eq. split; congruence.
  - rewrite !andb_true_iff, !bytes_eqb_spec, IH. split; [intros [[-> ->] ->]; reflexivity|].
    intros H. inversion H. auto.
Qed.

(* ---- relation of two outputs of the same free function ---- *)

Lemma sym_eqb_refl x : sym_eqb x x = true.
Proof. apply sym_eqb_spec. reflexivity. Qed.

Lemma sprefix_seq fn arg : forall n1 n2 s,
  sprefix (map (F fn arg) (seq s n1)) (map (F fn arg) (seq s n2)) = (n1 <=? n2)%nat.
Proof.
  induction n1 as [|n1 IH]; intros [|n2] s; cbn [seq map sprefix]; try reflexivity.
  rewrite sym_eqb_refl, IH. reflexivity.
Qed.

Lemma sbytes_eqb_false a b : a <> b -> sbytes_eqb a b = false.
Proof. intros H. destruct (sbytes_eqb a b) eqn:E; [|reflexivity]. apply sbytes_eqb_spec in E. contradiction. Qed.

Lemma fout_eq_len fn arg n1 n2 : fout fn n1 arg = fout fn n2 arg -> n1 = n2.
Proof. intros H. rewrite <- (fout_length fn n1 arg), H. apply fout_length. Qed.

Lemma out_rel_fout fn a1 a2 n1 n2 same :
  (a1 = a2 <-> same = true) ->
  out_rel (Ok (fout fn n1 a1)) (Ok (fout fn n2 a2)) = rel_of same n1 n2.
Proof.
  intros Hs. unfold out_rel, rel_of. destruct same.
  - assert (a1 = a2) by (apply Hs; reflexivity). subst a2. cbn [orb].
    unfold fout at 3 4 5 6. rewrite !sprefix_seq.
    destruct (Nat.eqb_spec n1 n2) as [->|Hne].
    + rewrite (proj2 (sbytes_eqb_spec _ _) eq_refl). reflexivity.
    + rewrite sbytes_eqb_false by (intros E; apply fout_eq_len in E; contradiction).
      destruct (Nat.ltb_spec n1 n2) as [Hlt|Hge].
      * replace (n1 <=? n2)%nat with true by (symmetry; apply Nat.leb_le; lia). reflexivity.
      * replace (n1 <=? n2)%nat with false by (symmetry; apply Nat.leb_gt; lia).
        replace (n2 <=? n1)%nat with true by (symmetry; apply Nat.leb_le; lia). reflexivity.
  - assert (Hne : a1 <> a2) by (intros E; apply Hs in E; discriminate). cbn [orb].
    destruct n1 as [|n1], n2 as [|n2]; try reflexivity.
    cbn [Nat.eqb]. unfold fout. cbn [seq map sbytes_eqb list_eqb sprefix sym_eqb].
    assert (E : list_eqb sym_eqb a1 a2 = false) by (apply sbytes_eqb_false; assumption).
    assert (E' : list_eqb sym_eqb a2 a1 = false) by (apply sbytes_eqb_false; auto).
    rewrite E, E', !Nat.eqb_refl. cbn [andb].
    destruct (Nat.eqb n1 n2); [reflexivity|]. destruct (S n1 <? S n2)%nat; reflexivity.
Qed.

(* ---- DeriveKey ---- *)

Lemma kdf_arg_eq c1 s1 e1 c2 s2 e2 :
  fout FN_KDFCTX 32 (lift c1) ++ derive_input c1 s1 e1 =
  fout FN_KDFCTX 32 (lift c2) ++ derive_input c2 s2 e2 <->
  c1 = c2 /\ s1 = s2 /\ e1 = e2.
Proof.
  split; [|intros [-> [-> ->]]; reflexivity].
  intros H.
  assert (H1 : derive_key c1 s1 (PrivEd e1) 1 = Ok (kdf c1 (derive_input c1 s1 e1) 1)) by apply derive_key_ed.
  assert (H2 : derive_key c2 s2 (PrivEd e2) 1 = Ok (kdf c1 (derive_input c1 s1 e1) 1)).
  { rewrite derive_key_ed. unfold kdf. rewrite H. reflexivity. }
  destruct (derive_key_injective _ _ _ _ _ _ _ _ _ H1 H2 ltac:(lia)) as [? [? [? _]]]. auto.
Qed.

Lemma same_input_spec c1 s1 k1 c2 s2 k2 e1 e2 :
  eval_key k1 = Ok e1 -> eval_key k2 = Ok e2 ->
  (c1 = c2 /\ s1 = s2 /\ e1 = e2 <-> same_input c1 s1 k1 c2 s2 k2 = true).
Proof.
  intros E1 E2. unfold same_input. rewrite !andb_true_iff, !bytes_eqb_spec, keyt_eqb_spec.
  split.
  - intros [-> [-> ->]]. repeat split. eapply eval_key_inj; eauto.
  - intros [[-> ->] ->]. repeat split. congruence.
Qed.

Theorem fast_rel_sound c1 s1 p1 n1 c2 s2 p2 n2 :
  out_rel (run_derive c1 s1 p1 n1) (run_derive c2 s2 p2 n2) = fast_rel c1 s1 p1 n1 c2 s2 p2 n2.
Proof.
  unfold run_derive, fast_rel.
  destruct p1 as [|k1|]; cbn [eval_priv obind derive_key out_rel]; try reflexivity.
  destruct (eval_key_ok k1) as [e1 E1]. rewrite E1. cbn [obind]. rewrite derive_key_ed.
  destruct p2 as [|k2|]; cbn [eval_priv obind derive_key out_rel]; try reflexivity.
  destruct (eval_key_ok k2) as [e2 E2]. rewrite E2. cbn [obind]. rewrite derive_key_ed.
  unfold kdf. apply out_rel_fout.
  rewrite kdf_arg_eq. apply same_input_spec; assumption.
Qed.

(* ---- DeriveEd25519Key ---- *)

Theorem fast_same_sound c1 s1 p1 c2 s2 p2 :
  ed_same (run_derive_ed c1 s1 p1) (run_derive_ed c2 s2 p2) = fast_same c1 s1 p1 c2 s2 p2.
Proof.
  unfold run_derive_ed, fast_same, ed_same.
  destruct p1 as [|k1|]; cbn [eval_priv obind derive_ed25519 derive_key]; try reflexivity.
  destruct (eval_key_ok k1) as [e1 E1]. rewrite E1. cbn [obind].
  destruct p2 as [|k2|]; cbn [eval_priv obind derive_ed25519 derive_key];
    try (unfold derive_ed25519; rewrite derive_key_ed; reflexivity).
  destruct (eval_key_ok k2) as [e2 E2]. rewrite E2. cbn [obind].
  destruct (derive_ed25519 c1 s1 (PrivEd e1)) as [d1| |] eqn:D1;
    try (unfold derive_ed25519 in D1; rewrite derive_key_ed in D1; discriminate).
  destruct (derive_ed25519 c2 s2 (PrivEd e2)) as [d2| |] eqn:D2;
    try (unfold derive_ed25519 in D2; rewrite derive_key_ed in D2; discriminate).
  pose proof (same_input_spec c1 s1 k1 c2 s2 k2 e1 e2 E1 E2) as S.
  destruct (same_input c1 s1 k1 c2 s2 k2).
  - destruct (proj2 S eq_refl) as [-> [-> ->]]. rewrite D1 in D2. injection D2 as ->.
    unfold edkey_eqb. apply sym_eqb_refl.
  - unfold edkey_eqb. destruct (sym_eqb (key_sym d1) (key_sym d2)) eqn:E; [|reflexivity].
    apply sym_eqb_spec, key_sym_inj in E. subst d2.
    destruct (derive_ed25519_injective _ _ _ _ _ _ _ D1 D2) as [? [? ?]].
    assert (false = true) by (apply S; auto). discriminate.
Qed.
