(* Models of
     util/extra25519/lo25519.go   IsEdLowOrder            (C14)
     util/extra25519/extra25519.go PublicKeyToCurve25519  (C14)
     peer/derive.go               DeriveKey, DeriveEd25519Key (C13)
   No proofs here. *)
From Bifrost Require Import Lib.Base Lib.Sym Lib.SigSym gen.LowOrder gen.Derive.

(* ------------------------------------------------------------------ *)
(* C14: the constant-time small-order classifier, operation by operation *)

(* inner loop  for i: c[i] |= g ^ edBlacklist[i][j]   (c and the table walk together;
   the table rows are fixed-size arrays, so edBlacklist[i][j] cannot be out of range:
   nth's default is never used on a well-formed table, see lo_table_wf) *)
Fixpoint lo_inner (c : list Z) (tbl : list (list Z)) (g : Z) (j : nat) : list Z :=
  match c, tbl with
  | ci :: c', row :: tbl' => Z.lor ci (Z.lxor g (nth j row 0)) :: lo_inner c' tbl' g j
  | _, _ => []
  end.

(* outer loop  for j = 0; j < 31; j++ { ... ge[j] ... } ; ge[j] out of range panics *)
Fixpoint lo_outer (tbl : list (list Z)) (ge : bytes) (js : list nat) (c : list Z) : outcome (list Z) :=
  match js with
  | [] => Ok c
  | j :: js' =>
      match nth_error ge j with
      | None => Panic
      | Some g => lo_outer tbl ge js' (lo_inner c tbl g j)
      end
  end.

(* k = 0; for i: k |= int(c[i]) - 1 *)
Definition lo_k (c : list Z) : Z := fold_left (fun k ci => Z.lor k (ci - 1)) c 0.

Definition lo_split_n : nat := Z.to_nat lo_split.

Definition is_ed_low_order_t (tbl : list (list Z)) (ge : bytes) : outcome bool :=
  c <- lo_outer tbl ge (seq 0 lo_split_n) (map (fun _ => 0) tbl) ;;
  (* case j = 31 (j keeps its value after the loop), ignore highest bit *)
  match nth_error ge lo_split_n with
  | None => Panic
  | Some g =>
      let c' := lo_inner c tbl (Z.land g lo_mask) lo_split_n in
      Ok (Z.land (Z.shiftr (lo_k c') lo_shift) 1 =? 1)
  end.

Definition is_ed_low_order (ge : bytes) : outcome bool := is_ed_low_order_t ed_blacklist ge.

(* the encoding with the sign bit (top bit of the last byte) cleared *)
Definition clear_top (ge : bytes) : bytes :=
  firstn lo_split_n ge ++ [Z.land (nth lo_split_n ge 0) lo_mask].

(* shape of the regenerated table: declared dimensions, all bytes *)
Definition lo_table_wf (tbl : list (list Z)) : bool :=
  (Z.of_nat (length tbl) =? lo_rows) &&
  forallb (fun row => (Z.of_nat (length row) =? lo_cols) && all_bytes row) tbl.

(* every row has its top bit clear, so "equal ignoring the sign bit" is well defined *)
Definition lo_table_top_clear (tbl : list (list Z)) : bool :=
  forallb (fun row => Z.land (nth lo_split_n row 0) lo_mask =? nth lo_split_n row 0) tbl.

Definition E_REFUSED : nat := 1%nat.

(* PublicKeyToCurve25519: refuse low-order encodings, then refuse what
   edwards25519.Point.SetBytes rejects.  is_point is the oracle for SetBytes
   (third-party curve arithmetic), carried by the case. *)
Definition pk_to_curve (is_point : bool) (ge : bytes) : outcome unit :=
  lo <- is_ed_low_order ge ;;
  if lo then Err E_REFUSED
  else if is_point then Ok tt else Err E_REFUSED.

(* ------------------------------------------------------------------ *)
(* symbolic keys and primitives *)

Definition FN_BLAKE3 : nat := 3%nat.
Definition FN_XPRIV : nat := 5%nat.     (* clamp(SHA-512(seed)) : PrivateKeyToCurve25519 *)
Definition FN_KEYATOM : nat := 10%nat.
Definition FN_KEYSEED : nat := 11%nat.  (* ed25519.NewKeyFromSeed *)
Definition FN_DH : nat := 12%nat.       (* X25519 shared secret of two key pairs *)
Definition FN_KDFCTX : nat := 13%nat.   (* blake3.NewDeriveKey(context): context key *)
Definition FN_KDF : nat := 14%nat.      (* keyed BLAKE3 XOF output *)
Definition FN_XOR : nat := 15%nat.

(* an Ed25519 key pair: a long-term atom or the key generated from a seed *)
Inductive edkey :=
| KAtom (n : nat)
| KSeed (seed : sbytes).

Definition key_sym (k : edkey) : sym :=
  match k with
  | KAtom n => F FN_KEYATOM [] n
  | KSeed s => F FN_KEYSEED s 0
  end.

Definition edkey_eqb (a b : edkey) : bool := sym_eqb (key_sym a) (key_sym b).

(* PrivateKeyToCurve25519: 64 bytes *)
Definition xpriv (k : edkey) : sbytes := fout FN_XPRIV 64 [key_sym k].

(* X25519 between the converted private key of a and the converted public key
   of b.  Free and symmetric: the argument is the unordered pair. *)
Definition dh (a b : edkey) : sbytes := fout FN_DH 32 (norm2 (key_sym a) (key_sym b)).

(* ------------------------------------------------------------------ *)
(* C13: DeriveKey *)

Definition E_NILKEY : nat := 1%nat.
Definition E_KEYTYPE : nat := 2%nat.
Definition E_ECDHKEY : nat := 3%nat.
Definition E_CONVERT : nat := 4%nat.

Inductive privkey :=
| PrivNil
| PrivEd (k : edkey)
| PrivOther.

(* material[i] ^ contextb[...] on a symbolic byte *)
Definition sxor (s : sym) (c : Z) : sym :=
  match s with
  | B z => B (Z.lxor z c)
  | F _ _ _ => F FN_XOR [s; B c] 0
  end.

(* for i := range material { material[i] ^= contextb[i % len(contextb)] }
   i % 0 panics, an index out of range panics *)
Fixpoint xor_loop (ctx : bytes) (i : nat) (m : sbytes) : outcome sbytes :=
  match m with
  | [] => Ok []
  | x :: m' =>
      if Nat.eqb (length ctx) 0 then Panic
      else match nth_error ctx (i mod length ctx) with
           | None => Panic
           | Some c => r <- xor_loop ctx (S i) m' ;; Ok (sxor x c :: r)
           end
  end.

(* the code as it is now: if len(contextb) != 0 { loop } *)
Definition xor_ctx (ctx : bytes) (m : sbytes) : outcome sbytes :=
  if Nat.eqb (length ctx) 0 then Ok m else xor_loop ctx 0 m.

(* blake3.NewDeriveKey(context); Write(...); Digest().Read(out[0..n)) *)
Definition kdf (ctx : bytes) (input : sbytes) (n : nat) : sbytes :=
  fout FN_KDF n (fout FN_KDFCTX 32 (lift ctx) ++ input).

Definition take_n : nat := Z.to_nat derive_digest_take.

(* the ephemeral key pair: NewKeyFromSeed(BLAKE3(xpriv || context)) *)
Definition eph_key (ctx : bytes) (k : edkey) : edkey :=
  KSeed (fout FN_BLAKE3 32 (xpriv k ++ lift ctx)).

Definition derive_key (ctx salt : bytes) (priv : privkey) (n : nat) : outcome sbytes :=
  match priv with
  | PrivNil => Err E_NILKEY
  | PrivOther => Err E_KEYTYPE
  | PrivEd k =>
      let xp := xpriv k in
      (* tPrivKeyCurve25519[:32]: slicing beyond the length panics *)
      if (length xp <? take_n)%nat then Panic
      (* ecdh.X25519().NewPrivateKey: wrong size is an error *)
      else if negb (Nat.eqb (length (firstn take_n xp)) 32) then Err E_ECDHKEY
      else
        let eph := eph_key ctx k in
        (* PublicKeyToCurve25519(ephPubKey): the public key of a generated key
           pair is a point of large order; refusal is not reachable symbolically *)
        let material := dh k eph in
        m <- xor_ctx ctx material ;;
        (* Write(label); if len(salt) != 0 { Write(salt) }; Write(material) *)
        Ok (kdf ctx (lift derive_kdf_label ++ lift salt ++ m) n)
  end.

(* DeriveEd25519Key: seed of ed25519.SeedSize = 32 bytes, NewKeyFromSeed *)
Definition derive_ed25519 (ctx salt : bytes) (priv : privkey) : outcome edkey :=
  seed <- derive_key ctx salt priv 32 ;;
  Ok (KSeed seed).

(* the loop without the guard (the code before the fix commit), kept to show
   that the totality theorem is about the guard *)
Definition xor_ctx_unguarded (ctx : bytes) (m : sbytes) : outcome sbytes := xor_loop ctx 0 m.
