(* C14: the constant-time classifier accepts exactly the byte strings that
   equal a table row once the sign bit is cleared - for ALL 32-byte strings. *)
From Bifrost Require Import Lib.Base Lib.Sym Lib.SigSym gen.LowOrder Derive.Model.

(* ---- bit-level facts ---- *)

Lemma byte_log2 a : 0 <= a -> (a < 256 <-> Z.log2 a < 8).
Proof.
  intros Ha. destruct (Z.eq_dec a 0) as [->|Hn].
  - cbn. lia.
  - change 256 with (2 ^ 8). apply Z.log2_lt_pow2. lia.
Qed.

Lemma byte_lor a b : 0 <= a < 256 -> 0 <= b < 256 -> 0 <= Z.lor a b < 256.
Proof.
  intros [Ha1 Ha2] [Hb1 Hb2].
  assert (H0 : 0 <= Z.lor a b) by (apply Z.lor_nonneg; auto).
  split; [exact H0|]. apply byte_log2; [exact H0|].
  rewrite Z.log2_lor by assumption.
  apply byte_log2 in Ha2; [|assumption]. apply byte_log2 in Hb2; [|assumption]. lia.
Qed.

Lemma byte_lxor a b : 0 <= a < 256 -> 0 <= b < 256 -> 0 <= Z.lxor a b < 256.
Proof.
  intros [Ha1 Ha2] [Hb1 Hb2].
  assert (H0 : 0 <= Z.lxor a b) by (apply Z.lxor_nonneg; tauto).
  split; [exact H0|]. apply byte_log2; [exact H0|].
  pose proof (Z.log2_lxor a b Ha1 Hb1).
  apply byte_log2 in Ha2; [|assumption]. apply byte_log2 in Hb2; [|assumption]. lia.
Qed.

Lemma byte_land a m : 0 <= a < 256 -> 0 <= m -> 0 <= Z.land a m < 256.
Proof.
  intros [Ha1 Ha2] Hm.
  assert (H0 : 0 <= Z.land a m) by (apply Z.land_nonneg; auto).
  split; [exact H0|]. apply byte_log2; [exact H0|].
  pose proof (Z.log2_land a m Ha1 Hm).
  apply byte_log2 in Ha2; [|assumption]. lia.
Qed.

(* for a byte c, bit 8 of c - 1 is set iff c = 0 *)
Lemma bit8_pred c : 0 <= c < 256 -> Z.testbit (c - 1) 8 = (c =? 0).
Proof.
  intros [H1 H2]. destruct (Z.eqb_spec c 0) as [->|Hn].
  - change (0 - 1) with (-1). apply Z.bits_m1. lia.
  - apply Z.bits_above_log2; [lia|]. apply byte_log2; lia.
Qed.

(* ((k >> 8) & 1) == 1 *)
Lemma result_bit k : (Z.land (Z.shiftr k 8) 1 =? 1) = Z.testbit k 8.
Proof.
  change 1 with (Z.ones 1) at 1. rewrite Z.land_ones by lia.
  change (2 ^ 1) with 2. rewrite <- Z.bit0_mod.
  rewrite Z.shiftr_spec by lia. change (0 + 8) with 8.
  destruct (Z.testbit k 8); reflexivity.
Qed.

Lemma lo_k_bit c : forall k0,
  Z.testbit (fold_left (fun k ci => Z.lor k (ci - 1)) c k0) 8 =
  Z.testbit k0 8 || existsb (fun ci => Z.testbit (ci - 1) 8) c.
Proof.
  induction c as [|x c IH]; intros k0; cbn [fold_left existsb].
  - rewrite orb_false_r. reflexivity.
  - rewrite IH, Z.lor_spec, orb_assoc. reflexivity.
Qed.

Lemma existsb_map' {A C} (f : C -> bool) (g : A -> C) l :
  existsb f (map g l) = existsb (fun x => f (g x)) l.
Proof. induction l as [|x l IH]; cbn [map existsb]; [reflexivity|]. rewrite IH. reflexivity. Qed.

Lemma existsb_ext' {A} (f g : A -> bool) l : (forall x, f x = g x) -> existsb f l = existsb g l.
Proof. intros H. induction l as [|x l IH]; cbn [existsb]; [reflexivity|]. rewrite H, IH. reflexivity. Qed.

Lemma Ok_inj {A} (a b : A) : Ok a = Ok b -> a = b.
Proof. intros H. injection H. auto. Qed.

(* ---- the accumulators ---- *)

Lemma lo_inner_map (f : list Z -> Z) tbl g j :
  lo_inner (map f tbl) tbl g j = map (fun row => Z.lor (f row) (Z.lxor g (nth j row 0))) tbl.
Proof. induction tbl as [|row tbl IH]; cbn [map lo_inner]; [reflexivity|]. rewrite IH. reflexivity. Qed.

(* what one row has accumulated after the indices js *)
Definition row_acc (ge row : list Z) (js : list nat) (a0 : Z) : Z :=
  fold_left (fun a j => Z.lor a (Z.lxor (nth j ge 0) (nth j row 0))) js a0.

Lemma lo_outer_map tbl ge : forall js (f : list Z -> Z),
  (forall j, In j js -> (j < length ge)%nat) ->
  lo_outer tbl ge js (map f tbl) = Ok (map (fun row => row_acc ge row js (f row)) tbl).
Proof.
  induction js as [|j js IH]; intros f Hjs; cbn [lo_outer].
  - reflexivity.
  - destruct (nth_error ge j) as [g|] eqn:E.
    + rewrite lo_inner_map, IH by (intros; apply Hjs; right; assumption).
      f_equal. apply map_ext. intros row. unfold row_acc. cbn [fold_left].
      rewrite (nth_error_nth ge j 0 E). reflexivity.
    + apply nth_error_None in E. specialize (Hjs j (or_introl eq_refl)). lia.
Qed.

Lemma lo_outer_short tbl ge : forall js c,
  (exists j, In j js /\ (length ge <= j)%nat) -> lo_outer tbl ge js c = Panic.
Proof.
  induction js as [|j js IH]; intros c [j0 [Hin Hlen]]; [destruct Hin|].
  cbn [lo_outer]. destruct (nth_error ge j) as [g|] eqn:E.
  - apply IH. destruct Hin as [->|Hin]; [|eauto].
    apply nth_error_None in Hlen. congruence.
  - reflexivity.
Qed.

Lemma fold_lor_zero (h : nat -> Z) js : forall a0,
  fold_left (fun a j => Z.lor a (h j)) js a0 = 0 <-> a0 = 0 /\ forall j, In j js -> h j = 0.
Proof.
  induction js as [|j js IH]; intros a0; cbn [fold_left In].
  - split; [intros ->; split; [reflexivity|intros j []]|tauto].
  - rewrite IH, Z.lor_eq_0_iff. split.
    + intros [[Ha Hj] Hr]. split; [assumption|]. intros j' [<-|Hin]; auto.
    + intros [Ha Hr]. split; [split|]; auto.
Qed.

Lemma fold_lor_byte (h : nat -> Z) js : forall a0,
  0 <= a0 < 256 -> (forall j, In j js -> 0 <= h j < 256) ->
  0 <= fold_left (fun a j => Z.lor a (h j)) js a0 < 256.
Proof.
  induction js as [|j js IH]; intros a0 Ha Hh; cbn [fold_left]; [assumption|].
  apply IH.
  - apply byte_lor; [assumption|]. apply Hh. left. reflexivity.
  - intros j' Hin. apply Hh. right. assumption.
Qed.

(* ---- bytes and positions ---- *)

Lemma all_bytes_nth l j : all_bytes l = true -> 0 <= nth j l 0 < 256.
Proof.
  intros H. destruct (Nat.lt_ge_cases j (length l)) as [Hlt|Hge].
  - unfold all_bytes in H. rewrite forallb_forall in H.
    specialize (H (nth j l 0) (nth_In l 0 Hlt)). unfold is_byte in H. lia.
  - rewrite nth_overflow by assumption. lia.
Qed.

Lemma clear_top_length ge : (length ge = 32)%nat -> (length (clear_top ge) = 32)%nat.
Proof.
  intros H. unfold clear_top. rewrite app_length, firstn_length, H. reflexivity.
Qed.

Lemma clear_top_nth_lo ge j : (length ge = 32)%nat -> (j < 31)%nat ->
  nth j (clear_top ge) 0 = nth j ge 0.
Proof.
  intros H Hj. unfold clear_top.
  assert (HL : length (firstn lo_split_n ge) = 31%nat) by (rewrite firstn_length, H; reflexivity).
  rewrite app_nth1 by lia.
  rewrite <- (firstn_skipn lo_split_n ge) at 2. rewrite app_nth1 by lia. reflexivity.
Qed.

Lemma clear_top_nth_hi ge : (length ge = 32)%nat ->
  nth 31 (clear_top ge) 0 = Z.land (nth 31 ge 0) lo_mask.
Proof.
  intros H. unfold clear_top.
  assert (HL : length (firstn lo_split_n ge) = 31%nat) by (rewrite firstn_length, H; reflexivity).
  rewrite app_nth2 by lia. rewrite HL. reflexivity.
Qed.

(* ---- the classifier, for any well-formed table ---- *)

Section Classifier.
  Variable tbl : list (list Z).
  Hypothesis Hwf : forall row, In row tbl -> (length row = 32)%nat /\ all_bytes row = true.

  (* final accumulator of one row *)
  Definition row_final (ge row : list Z) : Z :=
    Z.lor (row_acc ge row (seq 0 31) 0)
          (Z.lxor (Z.land (nth 31 ge 0) lo_mask) (nth 31 row 0)).

  Lemma classifier_eval ge : (length ge = 32)%nat ->
    is_ed_low_order_t tbl ge =
    Ok (existsb (fun row => Z.testbit (row_final ge row - 1) 8) tbl).
  Proof.
    intros Hlen. unfold is_ed_low_order_t.
    change lo_split_n with 31%nat. change lo_shift with 8.
    rewrite (lo_outer_map tbl ge (seq 0 31) (fun _ => 0)).
    2:{ intros j Hj. apply in_seq in Hj. lia. }
    cbn [obind].
    destruct (nth_error ge 31) as [g|] eqn:E.
    2:{ apply nth_error_None in E. lia. }
    rewrite lo_inner_map. rewrite result_bit. unfold lo_k. rewrite lo_k_bit.
    rewrite Z.bits_0, orb_false_l. rewrite existsb_map'. apply (f_equal (@Ok bool)).
    apply existsb_ext'. intros row. unfold row_final.
    rewrite (nth_error_nth ge 31 0 E). reflexivity.
  Qed.

  Lemma row_final_byte ge row : all_bytes ge = true -> In row tbl -> 0 <= row_final ge row < 256.
  Proof.
    intros Hb Hin. destruct (Hwf row Hin) as [_ Hrb]. unfold row_final.
    apply byte_lor.
    - unfold row_acc. apply fold_lor_byte; [lia|].
      intros j _. apply byte_lxor; apply all_bytes_nth; assumption.
    - apply byte_lxor; [|apply all_bytes_nth; assumption].
      apply byte_land; [apply all_bytes_nth; assumption|]. unfold lo_mask. lia.
  Qed.

  Lemma row_final_zero ge row : (length ge = 32)%nat -> In row tbl ->
    row_final ge row = 0 <-> clear_top ge = row.
  Proof.
    intros Hlen Hin. destruct (Hwf row Hin) as [Hrl _]. unfold row_final.
    rewrite Z.lor_eq_0_iff, Z.lxor_eq_0_iff. unfold row_acc.
    rewrite (fold_lor_zero (fun j => Z.lxor (nth j ge 0) (nth j row 0))).
    split.
    - intros [[_ Hlo] Hhi].
      apply (nth_ext _ _ 0 0); [rewrite clear_top_length; auto|].
      rewrite clear_top_length by assumption. intros n Hn.
      destruct (Nat.eq_dec n 31) as [->|Hne].
      + rewrite clear_top_nth_hi by assumption. exact Hhi.
      + rewrite clear_top_nth_lo by (auto; lia).
        apply Z.lxor_eq_0_iff. apply Hlo. apply in_seq. lia.
    - intros <-. split; [split; [reflexivity|]|].
      + intros j Hj. apply in_seq in Hj. apply Z.lxor_eq_0_iff.
        symmetry. apply clear_top_nth_lo; [assumption|lia].
      + symmetry. apply clear_top_nth_hi. assumption.
  Qed.

  Theorem classifier_spec ge : (length ge = 32)%nat -> all_bytes ge = true ->
    (is_ed_low_order_t tbl ge = Ok true <-> exists row, In row tbl /\ clear_top ge = row).
  Proof.
    intros Hlen Hb. rewrite classifier_eval by assumption. split.
    - intros H. apply Ok_inj in H. apply existsb_exists in H as [row [Hin Hbit]].
      exists row. split; [assumption|]. apply row_final_zero; [assumption..|].
      rewrite bit8_pred in Hbit by (apply row_final_byte; assumption). lia.
    - intros [row [Hin Heq]]. apply (f_equal (@Ok bool)). apply existsb_exists. exists row. split; [assumption|].
      rewrite bit8_pred by (apply row_final_byte; assumption).
      apply (row_final_zero ge row Hlen Hin) in Heq. lia.
  Qed.

  (* on 32-byte input the classifier always answers (no panic, no error) *)
  Lemma classifier_total ge : (length ge = 32)%nat -> exists b, is_ed_low_order_t tbl ge = Ok b.
  Proof. intros H. rewrite classifier_eval by assumption. eauto. Qed.
End Classifier.

(* bytes beyond the first 32 are never read *)
Lemma classifier_prefix tbl ge : (32 <= length ge)%nat ->
  is_ed_low_order_t tbl ge = is_ed_low_order_t tbl (firstn 32 ge).
Proof.
  intros Hlen. unfold is_ed_low_order_t. change lo_split_n with 31%nat.
  assert (Hn : forall j, (j < 32)%nat -> nth_error (firstn 32 ge) j = nth_error ge j).
  { intros j Hj. rewrite <- (firstn_skipn 32 ge) at 2.
    rewrite nth_error_app1; [reflexivity|]. rewrite firstn_length. lia. }
  assert (HO : forall js c, (forall j, In j js -> (j < 32)%nat) ->
             lo_outer tbl (firstn 32 ge) js c = lo_outer tbl ge js c).
  { induction js as [|j js IH]; intros c Hjs; cbn [lo_outer]; [reflexivity|].
    rewrite Hn by (apply Hjs; left; reflexivity).
    destruct (nth_error ge j); [|reflexivity]. apply IH. intros; apply Hjs; right; assumption. }
  rewrite HO by (intros j Hj; apply in_seq in Hj; lia).
  rewrite Hn by lia. reflexivity.
Qed.

(* shorter input: ge[j] is out of range *)
Lemma classifier_short tbl ge : (length ge < 32)%nat -> is_ed_low_order_t tbl ge = Panic.
Proof.
  intros Hlen. unfold is_ed_low_order_t. change lo_split_n with 31%nat.
  destruct (Nat.eq_dec (length ge) 31) as [E|NE].
  - rewrite (lo_outer_map tbl ge (seq 0 31) (fun _ => 0)).
    2:{ intros j Hj. apply in_seq in Hj. lia. }
    cbn [obind]. assert (H : nth_error ge 31 = None) by (apply nth_error_None; lia).
    rewrite H. reflexivity.
  - rewrite lo_outer_short; [reflexivity|].
    exists (length ge). split; [apply in_seq; lia|lia].
Qed.

(* ---- instantiation with the table regenerated from lo25519.go ---- *)

Lemma ed_blacklist_wf : lo_table_wf ed_blacklist = true.
Proof. vm_compute. reflexivity. Qed.

Lemma ed_blacklist_top_clear : lo_table_top_clear ed_blacklist = true.
Proof. vm_compute. reflexivity. Qed.

Lemma ed_blacklist_rows : forall row, In row ed_blacklist ->
  (length row = 32)%nat /\ all_bytes row = true.
Proof.
  pose proof ed_blacklist_wf as H. unfold lo_table_wf in H.
  apply andb_true_iff in H as [_ H]. rewrite forallb_forall in H.
  intros row Hin. specialize (H row Hin). apply andb_true_iff in H as [H1 H2].
  split; [|assumption]. change lo_cols with 32 in H1. lia.
Qed.

Theorem low_order_spec ge : (length ge = 32)%nat -> all_bytes ge = true ->
  (is_ed_low_order ge = Ok true <-> exists row, In row ed_blacklist /\ clear_top ge = row).
Proof. apply classifier_spec, ed_blacklist_rows. Qed.

Theorem low_order_total ge : (length ge = 32)%nat -> exists b, is_ed_low_order ge = Ok b.
Proof. intros H. unfold is_ed_low_order. apply classifier_total; [apply ed_blacklist_rows|exact H]. Qed.

(* the sign bit really is ignored: flipping it never changes the answer *)
Lemma clear_top_flip ge : (length ge = 32)%nat -> all_bytes ge = true ->
  clear_top (firstn 31 ge ++ [Z.lxor (nth 31 ge 0) 128]) = clear_top ge.
Proof.
  intros Hlen Hb. unfold clear_top. change lo_split_n with 31%nat.
  assert (HL : length (firstn 31 ge) = 31%nat) by (rewrite firstn_length, Hlen; reflexivity).
  rewrite firstn_app, HL, Nat.sub_diag, firstn_O, app_nil_r, firstn_firstn.
  change (Nat.min 31 31) with 31%nat. f_equal. f_equal.
  rewrite app_nth2 by lia. rewrite HL, Nat.sub_diag. cbn [nth].
  pose proof (all_bytes_nth ge 31 Hb) as Hg.
  apply Z.bits_inj'. intros n Hn. unfold lo_mask.
  rewrite !Z.land_spec, Z.lxor_spec.
  destruct (Z.eq_dec n 7) as [->|Hne].
  - change (Z.testbit 127 7) with false. rewrite !andb_false_r. reflexivity.
  - replace (Z.testbit 128 n) with false; [rewrite xorb_false_r; reflexivity|].
    symmetry. change 128 with (2 ^ 7). apply Z.pow2_bits_false. lia.
Qed.

Theorem low_order_sign_blind ge : (length ge = 32)%nat -> all_bytes ge = true ->
  is_ed_low_order (firstn 31 ge ++ [Z.lxor (nth 31 ge 0) 128]) = is_ed_low_order ge.
Proof.
  intros Hlen Hb.
  set (ge' := firstn 31 ge ++ [Z.lxor (nth 31 ge 0) 128]).
  assert (HL : length (firstn 31 ge) = 31%nat) by (rewrite firstn_length, Hlen; reflexivity).
  assert (Hlen' : length ge' = 32%nat) by (unfold ge'; rewrite app_length, HL; reflexivity).
  assert (Hb' : all_bytes ge' = true).
  { unfold ge', all_bytes. rewrite forallb_app. apply andb_true_iff. split.
    - unfold all_bytes in Hb. rewrite forallb_forall in *. intros x Hx. apply Hb.
      rewrite <- (firstn_skipn 31 ge). apply in_or_app. left. assumption.
    - cbn [forallb]. rewrite andb_true_r.
      pose proof (byte_lxor (nth 31 ge 0) 128 (all_bytes_nth ge 31 Hb) ltac:(lia)).
      unfold is_byte. lia. }
  destruct (low_order_total ge Hlen) as [b Eb], (low_order_total ge' Hlen') as [b' Eb'].
  rewrite Eb, Eb'. f_equal.
  pose proof (low_order_spec ge Hlen Hb) as S. pose proof (low_order_spec ge' Hlen' Hb') as S'.
  unfold ge' in S'. rewrite clear_top_flip in S' by assumption. fold ge' in S'.
  destruct b, b'; try reflexivity.
  - apply S in Eb. apply S' in Eb. congruence.
  - apply S' in Eb'. apply S in Eb'. congruence.
Qed.

(* ---- PublicKeyToCurve25519 ---- *)

Theorem pk_to_curve_spec is_point ge : (length ge = 32)%nat -> all_bytes ge = true ->
  (pk_to_curve is_point ge = Err E_REFUSED <->
   (exists row, In row ed_blacklist /\ clear_top ge = row) \/ is_point = false).
Proof.
  intros Hlen Hb. unfold pk_to_curve.
  destruct (low_order_total ge Hlen) as [b Eb]. rewrite Eb. cbn [obind].
  pose proof (low_order_spec ge Hlen Hb) as S. rewrite Eb in S.
  destruct b.
  - split; [intros _; left; apply S; reflexivity|reflexivity].
  - destruct is_point; split; intros H; try discriminate; auto.
    destruct H as [H|H]; [|discriminate]. apply S in H. discriminate.
Qed.

Theorem pk_to_curve_total is_point ge : (length ge = 32)%nat -> pk_to_curve is_point ge <> Panic.
Proof.
  intros Hlen. unfold pk_to_curve. destruct (low_order_total ge Hlen) as [b Eb]. rewrite Eb.
  cbn [obind]. destruct b; [discriminate|]. destruct is_point; discriminate.
Qed.

(* ---- the symbolic DH equation (second sentence of C14, model level only) ---- *)

Theorem dh_symmetric a b : dh a b = dh b a.
Proof. unfold dh. rewrite norm2_sym. reflexivity. Qed.

Lemma key_sym_inj a b : key_sym a = key_sym b -> a = b.
Proof. destruct a, b; cbn; intros H; inversion H; reflexivity. Qed.

Theorem dh_injective a b c d : dh a b = dh c d -> (a = c /\ b = d) \/ (a = d /\ b = c).
Proof.
  unfold dh. intros H. apply fout_inj in H; [|lia]. destruct H as [_ H].
  apply norm2_inj in H. destruct H as [[H1 H2]|[H1 H2]];
    apply key_sym_inj in H1; apply key_sym_inj in H2; auto.
Qed.
