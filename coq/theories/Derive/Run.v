(* Correspondence for C13 (peer/derive.go) and C14 (util/extra25519). *)
From Bifrost Require Import Lib.Base Lib.Sym Lib.SigSym Derive.Model.
From Bifrost Require Export Lib.SigPatt.

(* ---- C14 ---- *)

Inductive c14_case :=
(* IsEdLowOrder(ge): obs 0 = false, 1 = true, 2 = panic *)
| LowOrd (ge : bytes) (obs : nat)
(* PublicKeyToCurve25519(ge); is_point = what edwards25519 SetBytes says about ge
   (false when it was not asked because the input is not 32 bytes long);
   obs 0 = converted, 1 = refused, 2 = panic *)
| Convert (ge : bytes) (is_point : bool) (obs : nat)
(* X25519(conv priv a, conv pub b) == X25519(conv priv c, conv pub d) on real key pairs *)
| DhEq (a b c d : nat) (obs_equal : bool).

Definition bool_class (o : outcome bool) : nat :=
  match o with Ok false => 0 | Ok true => 1 | Err _ => 3 | Panic => 2 end%nat.

Definition unit_class (o : outcome unit) : nat :=
  match o with Ok _ => 0 | Err _ => 1 | Panic => 2 end%nat.

Definition c14_agree (c : c14_case) : bool :=
  match c with
  | LowOrd ge obs => Nat.eqb (bool_class (is_ed_low_order ge)) obs
  | Convert ge is_point obs => Nat.eqb (unit_class (pk_to_curve is_point ge)) obs
  | DhEq a b c d obs =>
      Bool.eqb (sbytes_eqb (dh (KAtom a) (KAtom b)) (dh (KAtom c) (KAtom d))) obs
  end.

(* ---- C13 ---- *)

(* how the harness names a key: long-term key number n, or the key pair that
   DeriveEd25519Key returned for (ctx, salt, k) *)
Inductive keyt :=
| KA (n : nat)
| KD (ctx salt : bytes) (k : keyt).

Inductive privt :=
| PNil
| PKey (k : keyt)
| POther.

Fixpoint eval_key (k : keyt) : outcome edkey :=
  match k with
  | KA n => Ok (KAtom n)
  | KD ctx salt k' => e <- eval_key k' ;; derive_ed25519 ctx salt (PrivEd e)
  end.

Definition eval_priv (p : privt) : outcome privkey :=
  match p with
  | PNil => Ok PrivNil
  | POther => Ok PrivOther
  | PKey k => e <- eval_key k ;; Ok (PrivEd e)
  end.

Definition run_derive (ctx salt : bytes) (p : privt) (n : nat) : outcome sbytes :=
  pk <- eval_priv p ;; derive_key ctx salt pk n.

Definition run_derive_ed (ctx salt : bytes) (p : privt) : outcome edkey :=
  pk <- eval_priv p ;; derive_ed25519 ctx salt pk.

(* 0 = ok, error class, 9 = panic *)
Definition out_class {A} (o : outcome A) : nat :=
  match o with Ok _ => 0%nat | Err k => k | Panic => 9%nat end.

Fixpoint sprefix (a b : sbytes) : bool :=
  match a, b with
  | [], _ => true
  | x :: a', y :: b' => sym_eqb x y && sprefix a' b'
  | _ :: _, [] => false
  end.

(* relation of two outputs: 1 equal, 2 first is a strict prefix of the second,
   3 second is a strict prefix of the first, 0 otherwise (also when one call failed) *)
Definition out_rel (o1 o2 : outcome sbytes) : nat :=
  match o1, o2 with
  | Ok a, Ok b =>
      if sbytes_eqb a b then 1 else if sprefix a b then 2 else if sprefix b a then 3 else 0
  | _, _ => 0
  end%nat.

(* Comparing two symbolic outputs byte by byte is a tree traversal whose cost
   grows by three orders of magnitude per derivation level, so the case
   evaluation uses fast_rel / fast_same below.  Derive/RunProofs.v proves, for
   ALL inputs, out_rel (run_derive ..) (run_derive ..) = fast_rel .. and the
   analogous statement for DeriveEd25519Key; the result classes are always
   obtained by evaluating the model itself. *)

Fixpoint keyt_eqb (a b : keyt) : bool :=
  match a, b with
  | KA n, KA m => Nat.eqb n m
  | KD c s k, KD c' s' k' => bytes_eqb c c' && bytes_eqb s s' && keyt_eqb k k'
  | _, _ => false
  end.

Definition same_input (c1 s1 : bytes) (k1 : keyt) (c2 s2 : bytes) (k2 : keyt) : bool :=
  bytes_eqb c1 c2 && bytes_eqb s1 s2 && keyt_eqb k1 k2.

Definition rel_of (same : bool) (n1 n2 : nat) : nat :=
  (if Nat.eqb n1 n2 then (if same || Nat.eqb n1 0 then 1 else 0)
   else if Nat.ltb n1 n2 then (if same || Nat.eqb n1 0 then 2 else 0)
   else (if same || Nat.eqb n2 0 then 3 else 0))%nat.

Definition fast_rel (c1 s1 : bytes) (p1 : privt) (n1 : nat) (c2 s2 : bytes) (p2 : privt) (n2 : nat) : nat :=
  match p1, p2 with
  | PKey k1, PKey k2 => rel_of (same_input c1 s1 k1 c2 s2 k2) n1 n2
  | _, _ => 0%nat
  end.

Definition fast_same (c1 s1 : bytes) (p1 : privt) (c2 s2 : bytes) (p2 : privt) : bool :=
  match p1, p2 with
  | PKey k1, PKey k2 => same_input c1 s1 k1 c2 s2 k2
  | _, _ => false
  end.

Definition ed_same (o1 o2 : outcome edkey) : bool :=
  match o1, o2 with Ok a, Ok b => edkey_eqb a b | _, _ => false end.

Inductive c13_case :=
(* two DeriveKey calls: classes of both results and the relation of the outputs *)
| Derive2 (c1 s1 : bytes) (p1 : privt) (n1 : nat) (c2 s2 : bytes) (p2 : privt) (n2 : nat)
          (cls1 cls2 rel : nat)
(* two DeriveEd25519Key calls: classes and whether the returned key pairs are the same *)
| DeriveEd2 (c1 s1 : bytes) (p1 : privt) (c2 s2 : bytes) (p2 : privt)
            (cls1 cls2 : nat) (same : bool).

Definition c13_agree (c : c13_case) : bool :=
  match c with
  | Derive2 c1 s1 p1 n1 c2 s2 p2 n2 cls1 cls2 rel =>
      Nat.eqb (out_class (run_derive c1 s1 p1 n1)) cls1 &&
      Nat.eqb (out_class (run_derive c2 s2 p2 n2)) cls2 &&
      Nat.eqb (fast_rel c1 s1 p1 n1 c2 s2 p2 n2) rel
  | DeriveEd2 c1 s1 p1 c2 s2 p2 cls1 cls2 same =>
      Nat.eqb (out_class (run_derive_ed c1 s1 p1)) cls1 &&
      Nat.eqb (out_class (run_derive_ed c2 s2 p2)) cls2 &&
      Bool.eqb (fast_same c1 s1 p1 c2 s2 p2) same
  end.
