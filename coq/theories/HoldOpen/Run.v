(* Correspondence for C33: the harness drives the real establishLinkHandler with
   a list of callbacks; `Yield` lets every spawned goroutine run to completion
   (the order among them does not matter: acquisition bodies are identical and
   releases commute).  Observed after every action: the number of strong
   AddReference calls and of Release calls seen by the fake directive instance. *)
From Bifrost Require Import Lib.Base HoldOpen.Model.

Inductive haction := Do (a : action) | Yield.

Definition exec_h (s : state) (h : haction) : state :=
  match h with
  | Do a => code_step s a
  | Yield => fold_left code_step (drain_actions s) s
  end.

Fixpoint trace (s : state) (hs : list haction) : list nat * list nat :=
  match hs with
  | [] => ([], [])
  | h :: rest =>
      let s' := exec_h s h in
      let (a, r) := trace s' rest in (acquired s' :: a, released s' :: r)
  end.

(* acq / rel: the two counters after every action (two flat lists keep the case files cheap to parse) *)
Inductive c33_case := HO (acts : list haction) (acq rel : list nat).

Definition c33_agree (c : c33_case) : bool :=
  match c with
  | HO acts acq rel =>
      let (a, r) := trace init acts in list_eqb Nat.eqb a acq && list_eqb Nat.eqb r rel
  end.
