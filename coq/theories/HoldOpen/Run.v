(* Correspondence for C33: the harness drives the real establishLinkHandler with
   a list of callbacks; `Yield` lets every spawned goroutine run to completion
   (the order among them does not matter: acquisition bodies are identical and
   releases commute).  Observed after every action: the number of strong
   AddReference calls and of Release calls seen by the fake directive instance. *)
From Bifrost Require Import Lib.Base HoldOpen.Model.

(* Mark: a scheduling marker of the gated scripts (hold / begin / open the
   AddReference gate); it is not a step of the handler *)
Inductive haction := Do (a : action) | Yield | Mark.

Definition exec_h (s : state) (h : haction) : state :=
  match h with
  | Do a => code_step s a
  | Yield => fold_left code_step (drain_actions s) s
  | Mark => s
  end.

Fixpoint trace (s : state) (hs : list haction) : list nat * list nat :=
  match hs with
  | [] => ([], [])
  | h :: rest =>
      let s' := exec_h s h in
      let (a, r) := trace s' rest in (acquired s' :: a, released s' :: r)
  end.

(* acq / rel: the two counters after every action (two flat lists keep the case files cheap to parse) *)
(* outstanding strong references after every Yield *)
Fixpoint lives (s : state) (hs : list haction) : list nat :=
  match hs with
  | [] => []
  | h :: rest =>
      let s' := exec_h s h in
      match h with Yield => live s' :: lives s' rest | _ => lives s' rest end
  end.

(* HO: counters after every action.  HOG: gated scripts, in which the harness
   holds AddReference calls in flight so that the interleaving inside the
   window is not the one of the list; only the outstanding count at the
   quiescent points (which c33_quiescent_exact shows to be independent of the
   interleaving) is compared. *)
Inductive c33_case :=
| HO (acts : list haction) (acq rel : list nat)
| HOG (acts : list haction) (live_at_yields : list nat).

Definition c33_agree (c : c33_case) : bool :=
  match c with
  | HO acts acq rel =>
      let (a, r) := trace init acts in list_eqb Nat.eqb a acq && list_eqb Nat.eqb r rel
  | HOG acts ls => list_eqb Nat.eqb (lives init acts) ls
  end.
