(* Model of link/hold-open/establish_link.go: the establishLinkHandler as a
   labelled transition system.  One action = one e.mtx region of the Go code
   (or the body of one spawned goroutine).  No proofs here. *)
From Bifrost Require Import Lib.Base.

Inductive action :=
| Added (id : nat)      (* HandleValueAdded with a non-nil link.MountedLink value *)
| Removed (id : nat)    (* HandleValueRemoved of that value *)
| AddedOther            (* HandleValueAdded with a value that is not a MountedLink (or nil): returns early *)
| RemovedOther          (* HandleValueRemoved of such a value: the Go code does not look at the value *)
| RunAcquire            (* body of one goroutine spawned by HandleValueAdded *)
| RunRelease            (* one spawned `go e.rigidRef.Release()` runs *)
| Disposed              (* HandleInstanceDisposed *)
| SetNil (k : nat).     (* fault injection: the next k di.AddReference(nil, false) calls return nil
                           (the interface says "will never return nil"; the code stores what it gets) *)

Record state := mk {
  links : list nat;     (* ghost: MountedLink values currently attached to the directive instance *)
  others : nat;         (* ghost: attached values that are not links *)
  val_count : nat;      (* e.valCount *)
  rigid : bool;         (* e.rigidRef != nil *)
  has_ref : bool;       (* e.ref != nil (the weak reference of the handler) *)
  disposed : bool;      (* e.disposed *)
  pending : nat;        (* acquisition goroutines spawned and not yet run *)
  releasing : nat;      (* `go Release()` goroutines spawned and not yet run *)
  acquired : nat;       (* ghost: number of di.AddReference(nil, false) calls so far *)
  released : nat;       (* ghost: number of Release() calls on those references so far *)
  nil_budget : nat      (* ghost: upcoming AddReference(nil, false) calls that return nil *)
}.

(* handleEstablishLink has stored the weak reference in handler.ref *)
Definition init : state := mk [] 0 0 false true false 0 0 0 0 0.

Fixpoint remove_one (x : nat) (l : list nat) : list nat :=
  match l with
  | [] => []
  | y :: l' => if Nat.eqb x y then l' else y :: remove_one x l'
  end.

Definition mem (x : nat) (l : list nat) : bool := existsb (Nat.eqb x) l.

Definition b2n (b : bool) : nat := if b then 1%nat else 0%nat.

(* HandleValueRemoved: if valCount > 0 { valCount-- }; if valCount == 0 && rigidRef != nil { go Release; rigidRef = nil } *)
Definition on_removed (s : state) (links' : list nat) (others' : nat) : state :=
  let vc := Nat.pred s.(val_count) in
  let rel := Nat.eqb vc 0 && s.(rigid) in
  mk links' others' vc (if rel then false else s.(rigid)) s.(has_ref) s.(disposed)
     s.(pending) (s.(releasing) + b2n rel) s.(acquired) s.(released) s.(nil_budget).

(* what the Go code does on each callback / goroutine body, whatever the environment sends *)
Definition code_step (s : state) (a : action) : state :=
  match a with
  | Added id =>
      (* valCount++; nrr := rigidRef == nil; unlock; if nrr { go acquire } *)
      mk (id :: s.(links)) s.(others) (S s.(val_count)) s.(rigid) s.(has_ref) s.(disposed)
         (s.(pending) + b2n (negb s.(rigid))) s.(releasing) s.(acquired) s.(released) s.(nil_budget)
  | AddedOther =>
      (* !ok || vl == nil: return *)
      mk s.(links) (S s.(others)) s.(val_count) s.(rigid) s.(has_ref) s.(disposed)
         s.(pending) s.(releasing) s.(acquired) s.(released) s.(nil_budget)
  | Removed id => on_removed s (remove_one id s.(links)) s.(others)
  | RemovedOther => on_removed s s.(links) (Nat.pred s.(others))
  | RunAcquire =>
      (* if !disposed && valCount != 0 && rigidRef == nil { rigidRef = di.AddReference(nil, false) } *)
      let want := negb s.(disposed) && negb (Nat.eqb s.(val_count) 0) && negb s.(rigid) in
      (* the call returns nil while the fault budget lasts: rigidRef stays nil *)
      let isnil := want && negb (Nat.eqb s.(nil_budget) 0) in
      let acq := want && Nat.eqb s.(nil_budget) 0 in
      mk s.(links) s.(others) s.(val_count) (s.(rigid) || acq) s.(has_ref) s.(disposed)
         (Nat.pred s.(pending)) s.(releasing) (s.(acquired) + b2n acq) s.(released)
         (if isnil then Nat.pred s.(nil_budget) else s.(nil_budget))
  | RunRelease =>
      mk s.(links) s.(others) s.(val_count) s.(rigid) s.(has_ref) s.(disposed)
         s.(pending) (Nat.pred s.(releasing)) s.(acquired) (S s.(released)) s.(nil_budget)
  | Disposed =>
      (* disposed = true; if e.ref == nil return; e.ref = nil; if rigidRef != nil { go Release; rigidRef = nil } *)
      if s.(has_ref) then
        mk s.(links) s.(others) s.(val_count) false false true
           s.(pending) (s.(releasing) + b2n s.(rigid)) s.(acquired) s.(released) s.(nil_budget)
      else
        mk s.(links) s.(others) s.(val_count) s.(rigid) false true
           s.(pending) s.(releasing) s.(acquired) s.(released) s.(nil_budget)
  | SetNil k =>
      mk s.(links) s.(others) s.(val_count) s.(rigid) s.(has_ref) s.(disposed)
         s.(pending) s.(releasing) s.(acquired) s.(released) k
  end.

(* what the environment (directive instance, Go scheduler) can do in a state:
   a value is added when it is not attached, removed when it is attached, a
   goroutine runs when it has been spawned. *)
Definition env_ok (s : state) (a : action) : bool :=
  match a with
  | Added id => negb (mem id s.(links))
  | Removed id => mem id s.(links)
  | AddedOther => true
  | RemovedOther => Nat.ltb 0 s.(others)
  | RunAcquire => Nat.ltb 0 s.(pending)
  | RunRelease => Nat.ltb 0 s.(releasing)
  | Disposed => true
  | SetNil _ => true
  end.

Definition step (s : state) (a : action) : option state :=
  if env_ok s a then Some (code_step s a) else None.

Fixpoint run (s : state) (acts : list action) : option state :=
  match acts with
  | [] => Some s
  | a :: rest => match step s a with Some s' => run s' rest | None => None end
  end.

(* only MountedLink values are ever attached (EstablishLinkWithPeerValue = MountedLink) *)
Definition link_action (a : action) : bool :=
  match a with AddedOther | RemovedOther | SetNil _ => false | _ => true end.

(* as link_action, but AddReference may return nil *)
Definition safe_action (a : action) : bool :=
  match a with AddedOther | RemovedOther => false | _ => true end.

(* strong references of this handler that the directive instance still counts *)
Definition live (s : state) : nat := (s.(acquired) - s.(released))%nat.

Definition quiescent (s : state) : bool := Nat.eqb s.(pending) 0 && Nat.eqb s.(releasing) 0.

(* let every spawned goroutine run *)
Definition drain_actions (s : state) : list action :=
  repeat RunAcquire s.(pending) ++ repeat RunRelease s.(releasing).
