(* Proofs about the hold-open handler LTS: an invariant over ALL action lists. *)
From Bifrost Require Import Lib.Base HoldOpen.Model.

Lemma mem_in x l : mem x l = true <-> In x l.
Proof.
  unfold mem. rewrite existsb_exists. split.
  - intros [y [Hy E]]. apply Nat.eqb_eq in E. subst. exact Hy.
  - intros H. exists x. split; [exact H|apply Nat.eqb_refl].
Qed.

Lemma remove_one_length x l : In x l -> S (length (remove_one x l)) = length l.
Proof.
  induction l as [|y l IH]; cbn [remove_one In length]; [tauto|].
  intros [E|H].
  - subst. rewrite Nat.eqb_refl. reflexivity.
  - destruct (Nat.eqb x y); [reflexivity|]. cbn [length]. rewrite IH by exact H. reflexivity.
Qed.

Record inv (s : state) : Prop := mk_inv {
  i_others : others s = 0%nat;
  i_vc : val_count s = length (links s);
  i_rigid : rigid s = true -> val_count s <> 0%nat /\ disposed s = false;
  i_pend : val_count s <> 0%nat -> disposed s = false -> rigid s = false -> (0 < pending s)%nat;
  i_live : acquired s = (released s + b2n (rigid s) + releasing s)%nat;
  i_ref : has_ref s = false -> disposed s = true;
  i_nil : nil_budget s = 0%nat
}.

Lemma inv_init : inv init.
Proof. constructor; cbn; try reflexivity; try congruence; try lia. Qed.

Ltac bool_cases :=
  repeat match goal with
         | |- context [if ?b then _ else _] => destruct b eqn:?
         | H : context [if ?b then _ else _] |- _ => destruct b eqn:?
         end.

Ltac fin := constructor; cbn; intros; intuition (try lia; try congruence; try discriminate).

Lemma inv_step s a s' :
  inv s -> link_action a = true -> step s a = Some s' -> inv s'.
Proof.
  intros [Io Iv Ir Ip Il If In0] La H. unfold step in H.
  destruct (env_ok s a) eqn:E; [|discriminate]. injection H as <-.
  destruct s as [ls ot vc rg hr dp pe re ac rl nb]. cbn in *. subst nb.
  destruct a; cbn in *; try discriminate.
  - (* Added *)
    destruct rg, dp; cbn in *; fin.
  - (* Removed *)
    apply mem_in in E. pose proof (remove_one_length _ _ E) as L.
    unfold on_removed; cbn.
    destruct vc as [|vc]; [lia|]. cbn [Nat.pred].
    destruct (Nat.eqb vc 0) eqn:Z0; [apply Nat.eqb_eq in Z0|apply Nat.eqb_neq in Z0];
      destruct rg, dp; cbn in *; fin.
  - (* RunAcquire *)
    destruct pe as [|pe]; [discriminate|].
    destruct (Nat.eqb vc 0) eqn:Z0; [apply Nat.eqb_eq in Z0|apply Nat.eqb_neq in Z0];
      destruct rg, dp; cbn in *; fin.
  - (* RunRelease *)
    destruct re as [|re]; [discriminate|]. destruct rg, dp; cbn in *; fin.
  - (* Disposed *)
    destruct hr, rg, dp; cbn in *; fin.
Qed.

Lemma inv_run : forall acts s s',
  inv s -> forallb link_action acts = true -> run s acts = Some s' -> inv s'.
Proof.
  induction acts as [|a acts IH]; intros s s' I L H; cbn in *.
  - injection H as <-. exact I.
  - apply andb_true_iff in L as [La L].
    destruct (step s a) as [s1|] eqn:E; [|discriminate].
    eapply IH; [eapply inv_step; eauto|exact L|exact H].
Qed.

Definition has_links (s : state) : bool := negb (Nat.eqb (length (links s)) 0).

(* full statement at quiescence *)
Lemma quiescent_exact acts s :
  forallb link_action acts = true -> run init acts = Some s ->
  quiescent s = true ->
  live s = (if has_links s && negb (disposed s) then 1 else 0)%nat
  /\ rigid s = (has_links s && negb (disposed s)).
Proof.
  intros L H Q. pose proof (inv_run _ _ _ inv_init L H) as [Io Iv Ir Ip Il If In0].
  unfold quiescent in Q. apply andb_true_iff in Q as [Q1 Q2].
  apply Nat.eqb_eq in Q1. apply Nat.eqb_eq in Q2.
  unfold live, has_links. rewrite <- Iv.
  destruct (Nat.eqb (val_count s) 0) eqn:Z0; [apply Nat.eqb_eq in Z0|apply Nat.eqb_neq in Z0]; cbn.
  - destruct (rigid s) eqn:R; [destruct (Ir eq_refl); lia|]. cbn in Il. split; [lia|reflexivity].
  - destruct (disposed s) eqn:D; cbn.
    + destruct (rigid s) eqn:R; [destruct (Ir eq_refl); congruence|]. cbn in Il. split; [lia|reflexivity].
    + destruct (rigid s) eqn:R; cbn in Il; [split; [lia|reflexivity]|].
      specialize (Ip Z0 eq_refl eq_refl). lia.
Qed.

(* while links exist (and the instance is not disposed) the reference is held as
   soon as the acquisition goroutines have run, whatever releases are in flight *)
Lemma held_while_links acts s :
  forallb link_action acts = true -> run init acts = Some s ->
  pending s = 0%nat -> links s <> [] -> disposed s = false ->
  rigid s = true /\ (1 <= live s)%nat.
Proof.
  intros L H Q Hl D. pose proof (inv_run _ _ _ inv_init L H) as [Io Iv Ir Ip Il If In0].
  assert (Z0 : val_count s <> 0%nat) by (rewrite Iv; destruct (links s); cbn; congruence).
  destruct (rigid s) eqn:R.
  - split; [reflexivity|]. unfold live. cbn in Il. lia.
  - specialize (Ip Z0 D eq_refl). lia.
Qed.

(* in EVERY reachable state (not only at quiescence): the handler holds at most
   one reference, holds none when no link exists or after disposal, and every
   other outstanding reference has its Release already spawned *)
Lemma released_when_gone acts s :
  forallb link_action acts = true -> run init acts = Some s ->
  live s = (b2n (rigid s) + releasing s)%nat
  /\ (links s = [] \/ disposed s = true -> rigid s = false /\ live s = releasing s).
Proof.
  intros L H. pose proof (inv_run _ _ _ inv_init L H) as [Io Iv Ir Ip Il If In0].
  unfold live. split; [lia|]. intros G.
  assert (R : rigid s = false).
  { destruct (rigid s) eqn:R; [|reflexivity]. destruct (Ir eq_refl) as [A B].
    destruct G as [G|G]; [rewrite Iv, G in A; cbn in A; congruence|congruence]. }
  rewrite R in Il. cbn in Il. split; [exact R|lia].
Qed.

(* no reference is acquired once the instance is disposed *)
Lemma no_acquire_after_dispose s a s' :
  disposed s = true -> step s a = Some s' -> acquired s' = acquired s /\ disposed s' = true.
Proof.
  intros D H. unfold step in H. destruct (env_ok s a); [|discriminate]. injection H as <-.
  destruct s as [ls ot vc rg hr dp pe re ac rl nb]. cbn in *. subst dp.
  destruct a; cbn; unfold on_removed; cbn; auto; try (destruct hr; cbn; auto).
Qed.

(* progress: the spawned goroutines can always run to completion, reaching a
   quiescent state without touching links / disposed (so the quiescence
   hypothesis above is satisfiable after every history) *)
Lemma run_app : forall a b s, run s (a ++ b) = match run s a with Some s' => run s' b | None => None end.
Proof.
  induction a as [|x a IH]; intros b s; cbn; [reflexivity|].
  destruct (step s x); [apply IH|reflexivity].
Qed.

Lemma run_acquires : forall n s, pending s = n ->
  exists s', run s (repeat RunAcquire n) = Some s' /\ pending s' = 0%nat /\
             releasing s' = releasing s /\ links s' = links s /\ disposed s' = disposed s.
Proof.
  induction n as [|n IH]; intros s P; cbn.
  - exists s. auto.
  - destruct s as [ls ot vc rg hr dp pe re ac rl nb]. cbn in P. subst pe. unfold step. cbn.
    match goal with |- exists s', run ?x _ = _ /\ _ => destruct (IH x eq_refl) as [s' [R [A [B [C D]]]]] end.
    exists s'. cbn in *. auto.
Qed.

Lemma run_releases : forall n s, releasing s = n ->
  exists s', run s (repeat RunRelease n) = Some s' /\ releasing s' = 0%nat /\
             pending s' = pending s /\ links s' = links s /\ disposed s' = disposed s.
Proof.
  induction n as [|n IH]; intros s P; cbn.
  - exists s. auto.
  - destruct s as [ls ot vc rg hr dp pe re ac rl nb]. cbn in P. subst re. unfold step. cbn.
    match goal with |- exists s', run ?x _ = _ /\ _ => destruct (IH x eq_refl) as [s' [R [A [B [C D]]]]] end.
    exists s'. cbn in *. auto.
Qed.

Lemma drain_quiesces s :
  exists s', run s (drain_actions s) = Some s' /\ quiescent s' = true /\
             links s' = links s /\ disposed s' = disposed s.
Proof.
  unfold drain_actions. destruct (run_acquires _ s eq_refl) as [s1 [R1 [P1 [Q1 [L1 D1]]]]].
  destruct (run_releases _ s1 eq_refl) as [s2 [R2 [P2 [Q2 [L2 D2]]]]].
  exists s2. rewrite run_app, R1, <- Q1, R2. unfold quiescent. rewrite P2, Q2, P1. cbn.
  repeat split; congruence.
Qed.

Lemma drain_link_actions s : forallb link_action (drain_actions s) = true.
Proof.
  unfold drain_actions. rewrite forallb_app. apply andb_true_iff; split;
    apply forallb_forall; intros x Hx; apply repeat_spec in Hx; subst; reflexivity.
Qed.

(* the asymmetry of the value-type check: a value that is not a MountedLink is
   ignored when added but counted when removed *)
Lemma nonlink_value_breaks :
  exists acts s, run init acts = Some s /\ quiescent s = true /\
                 links s <> [] /\ disposed s = false /\ live s = 0%nat.
Proof.
  exists [Added 1%nat; RunAcquire; AddedOther; RemovedOther; RunRelease]. eexists.
  split; [vm_compute; reflexivity|]. cbn. repeat split; congruence.
Qed.

(* the correspondence (Run.v) folds [code_step]; on everything the environment
   can do this is the transition relation the theorems are about *)
Lemma run_fold : forall acts s s', run s acts = Some s' -> fold_left code_step acts s = s'.
Proof.
  induction acts as [|a acts IH]; intros s s' H; cbn in *.
  - congruence.
  - unfold step in H. destruct (env_ok s a); [|discriminate]. apply IH, H.
Qed.

Lemma drain_fold s :
  exists s', run s (drain_actions s) = Some s' /\ fold_left code_step (drain_actions s) s = s' /\ quiescent s' = true.
Proof.
  destruct (drain_quiesces s) as [s' [R [Q _]]]. exists s'. split; [exact R|]. split; [apply run_fold, R|exact Q].
Qed.

(* ---- fault injection: di.AddReference(nil, false) may return nil ---- *)
(* the safety half of the invariant survives (the reference is then simply not
   held until a later HandleValueAdded retries); "held while links exist" needs
   the interface contract "will never return nil" *)
Record safe_inv (s : state) : Prop := mk_safe {
  f_others : others s = 0%nat;
  f_vc : val_count s = length (links s);
  f_rigid : rigid s = true -> val_count s <> 0%nat /\ disposed s = false;
  f_live : acquired s = (released s + b2n (rigid s) + releasing s)%nat;
  f_ref : has_ref s = false -> disposed s = true
}.

Lemma safe_init : safe_inv init.
Proof. constructor; cbn; try reflexivity; try congruence; try lia. Qed.

Lemma safe_step s a s' :
  safe_inv s -> safe_action a = true -> step s a = Some s' -> safe_inv s'.
Proof.
  intros [Io Iv Ir Il If] La H. unfold step in H.
  destruct (env_ok s a) eqn:E; [|discriminate]. injection H as <-.
  destruct s as [ls ot vc rg hr dp pe re ac rl nb]. cbn in *.
  destruct a; cbn in *; try discriminate.
  - destruct rg, dp; cbn in *; fin.
  - apply mem_in in E. pose proof (remove_one_length _ _ E) as L.
    unfold on_removed; cbn.
    destruct vc as [|vc]; [lia|]. cbn [Nat.pred].
    destruct (Nat.eqb vc 0) eqn:Z0; [apply Nat.eqb_eq in Z0|apply Nat.eqb_neq in Z0];
      destruct rg, dp; cbn in *; fin.
  - destruct pe as [|pe]; [discriminate|].
    destruct (Nat.eqb vc 0) eqn:Z0; [apply Nat.eqb_eq in Z0|apply Nat.eqb_neq in Z0];
      destruct rg, dp, (Nat.eqb nb 0); cbn in *; fin.
  - destruct re as [|re]; [discriminate|]. destruct rg, dp; cbn in *; fin.
  - destruct hr, rg, dp; cbn in *; fin.
  - destruct rg, dp; cbn in *; fin.
Qed.

Lemma safe_run : forall acts s s',
  safe_inv s -> forallb safe_action acts = true -> run s acts = Some s' -> safe_inv s'.
Proof.
  induction acts as [|a acts IH]; intros s s' I L H; cbn in *.
  - injection H as <-. exact I.
  - apply andb_true_iff in L as [La L].
    destruct (step s a) as [s1|] eqn:E; [|discriminate].
    eapply IH; [eapply safe_step; eauto|exact L|exact H].
Qed.

Lemma safe_with_nil_references acts s :
  forallb safe_action acts = true -> run init acts = Some s ->
  live s = (b2n (rigid s) + releasing s)%nat
  /\ (rigid s = true -> links s <> [] /\ disposed s = false)
  /\ (links s = [] \/ disposed s = true -> rigid s = false /\ live s = releasing s)
  /\ (quiescent s = true -> (live s <= 1)%nat).
Proof.
  intros L H. pose proof (safe_run _ _ _ safe_init L H) as [Io Iv Ir Il If].
  unfold live.
  assert (R0 : rigid s = true -> links s <> [] /\ disposed s = false).
  { intros R. destruct (Ir R) as [A B]. split; [|exact B]. intros E. rewrite Iv, E in A. cbn in A. congruence. }
  split; [lia|]. split; [exact R0|]. split.
  - intros G. assert (R : rigid s = false).
    { destruct (rigid s) eqn:R; [|reflexivity]. destruct (R0 eq_refl) as [A B]. destruct G; congruence. }
    rewrite R in Il. cbn in Il. split; [exact R|lia].
  - unfold quiescent. intros Q. apply andb_true_iff in Q as [_ Q]. apply Nat.eqb_eq in Q.
    destruct (rigid s); cbn in Il; lia.
Qed.

(* a nil return really loses the reference until the next add: witness *)
Lemma nil_reference_not_retried :
  exists s, run init [SetNil 1; Added 1; RunAcquire]%nat = Some s /\ quiescent s = true /\
            links s <> [] /\ disposed s = false /\ live s = 0%nat.
Proof. eexists. split; [vm_compute; reflexivity|]. cbn. repeat split; congruence. Qed.
