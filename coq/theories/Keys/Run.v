(* Correspondence for C11 (key encodings). *)
From Bifrost Require Import Lib.Base Lib.Base58 Id.Pb Id.Model Keys.Model.
From Bifrost Require Export Id.Run.
From Bifrost Require Import gen.Ident.

(* the recorded result of encoding/pem.Decode on the bytes the parser hands it *)
Definition const_pem (r : option (bytes * bytes)) : pem_oracle := fun _ => r.

Definition okeys_eqb (a b : option bytes * option bytes) : bool :=
  option_eqb bytes_eqb (fst a) (fst b) && option_eqb bytes_eqb (snd a) (snd b).
Definition okey_eqb : option bytes -> option bytes -> bool := option_eqb bytes_eqb.

Inductive c11_case :=
| UnmarshalPriv (d : bytes) (o : obs bytes)                 (* crypto.UnmarshalPrivateKey -> Raw *)
| UnmarshalPubKey (d : bytes) (o : obs bytes)               (* crypto.UnmarshalPublicKey -> Raw *)
| MarshalPriv (k d : bytes)                                 (* crypto.MarshalPrivateKey *)
| UnmarshalEdPriv (d : bytes) (o : obs bytes)               (* crypto.UnmarshalEd25519PrivateKey -> Raw *)
| GetPublic (k : bytes) (o : obs bytes)                     (* PrivKey.GetPublic().Raw() *)
| KeyPem (dat : bytes) (pem : option (bytes * bytes)) (o : obs (option bytes * option bytes))
| PrivPem (dat : bytes) (pem : option (bytes * bytes)) (o : obs (option bytes))
| PubPem (dat : bytes) (pem : option (bytes * bytes)) (o : obs (option bytes))
| PemOut (priv : bool) (k : bytes) (t body : bytes)         (* pem.Decode of Marshal{Priv,Pub}KeyPem *)
| ConfPriv (s : bytes) (pem : option (bytes * bytes)) (o : obs (option bytes))
| ConfPub (s : bytes) (pem : option (bytes * bytes)) (o : obs (option bytes))
| ConfPrivPem (dat : bytes) (pem : option (bytes * bytes)) (o : obs (option bytes))
| ConfPubPem (dat : bytes) (pem : option (bytes * bytes)) (o : obs (option bytes))
| ConfMarshal (priv : bool) (k s : bytes)
| Trim (s t : bytes).                                       (* strings.TrimSpace *)

Definition c11_agree (c : c11_case) : bool :=
  match c with
  | UnmarshalPriv d o => obs_agree bytes_eqb (unmarshal_priv d) o
  | UnmarshalPubKey d o => obs_agree bytes_eqb (unmarshal_pub d) o
  | MarshalPriv k d => bytes_eqb (marshal_priv k) d
  | UnmarshalEdPriv d o => obs_agree bytes_eqb (unmarshal_ed25519_priv d) o
  | GetPublic k o => obs_agree bytes_eqb (priv_get_public k) o
  | KeyPem dat pem o => obs_agree okeys_eqb (parse_key_pem (const_pem pem) dat) o
  | PrivPem dat pem o => obs_agree okey_eqb (parse_priv_key_pem (const_pem pem) dat) o
  | PubPem dat pem o => obs_agree okey_eqb (parse_pub_key_pem (const_pem pem) dat) o
  | PemOut priv k t body =>
      if priv then bytes_eqb t pem_priv_type && bytes_eqb body (marshal_priv k)
      else bytes_eqb t pem_pub_type && bytes_eqb body (marshal_pub k)
  | ConfPriv s pem o => obs_agree okey_eqb (conf_parse_private_key (const_pem pem) s) o
  | ConfPub s pem o => obs_agree okey_eqb (conf_parse_public_key (const_pem pem) s) o
  | ConfPrivPem dat pem o => obs_agree okey_eqb (conf_parse_private_key_pem (const_pem pem) dat) o
  | ConfPubPem dat pem o => obs_agree okey_eqb (conf_parse_public_key_pem (const_pem pem) dat) o
  | ConfMarshal priv k s =>
      bytes_eqb (if priv then conf_marshal_private_key k else conf_marshal_public_key k) s
  | Trim s t => bytes_eqb (trim_space s) t
  end.
