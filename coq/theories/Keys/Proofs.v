(* Proofs for C11 (key encodings). *)
From Bifrost Require Import Lib.Base Lib.Varint Lib.Base58 Id.Pb Id.PbProofs Id.Model Id.Proofs Keys.Model.
From Bifrost Require Import gen.Ident.

(* ---------- Go slices ---------- *)

Lemma gslice_ok b lo hi : 0 <= lo <= hi -> hi <= zlen b ->
  gslice b lo hi = Ok (firstn (Z.to_nat (hi - lo)) (skipn (Z.to_nat lo) b)).
Proof.
  intros H1 H2. unfold gslice.
  replace ((0 <=? lo) && (lo <=? hi) && (hi <=? zlen b)) with true by lia. reflexivity.
Qed.

Lemma gfrom_ok_z b lo : 0 <= lo <= zlen b -> gfrom b lo = Ok (skipn (Z.to_nat lo) b).
Proof.
  intros H. unfold gfrom. rewrite gslice_ok by lia. f_equal.
  apply firstn_all2. rewrite skipn_length. unfold zlen in *. lia.
Qed.

(* ---------- raw Ed25519 private keys ---------- *)

Definition pub_half (d : bytes) : bytes := firstn 32 (skipn 32 d).

Lemma ed_unmarshal_64 d : zlen d = 64 -> unmarshal_ed25519_priv d = Ok d.
Proof. intros H. unfold unmarshal_ed25519_priv, ed_priv_size, ed_pubkey_size. rewrite H. reflexivity. Qed.

Lemma ed_unmarshal_96 d : zlen d = 96 ->
  unmarshal_ed25519_priv d = if bytes_eqb (pub_half d) (skipn 64 d) then Ok (firstn 64 d) else Err ERedundant.
Proof.
  intros H. unfold unmarshal_ed25519_priv, ed_priv_size, ed_pubkey_size. rewrite H.
  change (96 =? 64 + 32) with true. cbv iota.
  rewrite gfrom_ok_z by lia. cbn [obind]. rewrite gslice_ok by lia. cbn [obind].
  change (Z.to_nat (64 - (64 - 32))) with 32%nat. change (Z.to_nat (64 - 32)) with 32%nat.
  change (Z.to_nat 64) with 64%nat. fold (pub_half d).
  destruct (bytes_eqb (pub_half d) (skipn 64 d)); [|reflexivity].
  rewrite gslice_ok by lia. reflexivity.
Qed.

Lemma ed_unmarshal_other d : zlen d <> 64 -> zlen d <> 96 -> unmarshal_ed25519_priv d = Err EPrivLen.
Proof.
  intros H1 H2. unfold unmarshal_ed25519_priv, ed_priv_size, ed_pubkey_size.
  replace (zlen d =? 64 + 32) with false by lia. replace (zlen d =? 64) with false by lia. reflexivity.
Qed.

(* the 96-byte form is accepted iff the redundant public key equals bytes 32..64 *)
Theorem ed_96_accept_iff d : zlen d = 96 ->
  (is_ok (unmarshal_ed25519_priv d) = true <-> pub_half d = skipn 64 d).
Proof.
  intros H. rewrite ed_unmarshal_96 by exact H. rewrite <- bytes_eqb_spec.
  destruct (bytes_eqb (pub_half d) (skipn 64 d)); cbn; split; congruence.
Qed.

Lemma firstn_zlen n d : (Z.of_nat n <= zlen d) -> zlen (firstn n d) = Z.of_nat n.
Proof. intros H. unfold zlen in *. rewrite firstn_length. lia. Qed.

(* whatever form was accepted: the key is the first 64 bytes, it has 64 bytes,
   and its public key is bytes 32..64 of the input *)
Theorem ed_unmarshal_sound d k : unmarshal_ed25519_priv d = Ok k ->
  k = firstn 64 d /\ zlen k = 64 /\ (zlen d = 64 \/ (zlen d = 96 /\ pub_half d = skipn 64 d)).
Proof.
  intros H. destruct (Z.eq_dec (zlen d) 64) as [E|N1].
  - rewrite ed_unmarshal_64 in H by exact E. inversion H; subst.
    split; [symmetry; apply firstn_all2; unfold zlen in E; lia|]. auto.
  - destruct (Z.eq_dec (zlen d) 96) as [E|N2].
    + rewrite ed_unmarshal_96 in H by exact E.
      destruct (bytes_eqb (pub_half d) (skipn 64 d)) eqn:B; [|discriminate].
      inversion H; subst. apply bytes_eqb_spec in B.
      split; [reflexivity|]. split; [apply (firstn_zlen 64); lia|]. right. auto.
    + rewrite ed_unmarshal_other in H by assumption. discriminate.
Qed.

Theorem ed_unmarshal_total d : unmarshal_ed25519_priv d <> Panic.
Proof.
  destruct (Z.eq_dec (zlen d) 64) as [E|N1]; [rewrite ed_unmarshal_64 by exact E; discriminate|].
  destruct (Z.eq_dec (zlen d) 96) as [E|N2].
  - rewrite ed_unmarshal_96 by exact E. destruct (bytes_eqb _ _); discriminate.
  - rewrite ed_unmarshal_other by assumption. discriminate.
Qed.

Lemma get_public_64 k : zlen k = 64 -> priv_get_public k = Ok (skipn 32 k).
Proof. intros H. unfold priv_get_public, ed_priv_size, ed_pubkey_size. rewrite gfrom_ok_z by lia. reflexivity. Qed.

Lemma skipn_firstn_comm32 d : zlen d = 64 \/ zlen d = 96 -> skipn 32 (firstn 64 d) = pub_half d.
Proof. intros _. unfold pub_half. rewrite skipn_firstn_comm. reflexivity. Qed.

(* a decoded private key has the public key stored in the encoding *)
Theorem ed_unmarshal_public d k : unmarshal_ed25519_priv d = Ok k -> priv_get_public k = Ok (pub_half d).
Proof.
  intros H. destruct (ed_unmarshal_sound d k H) as (Ek & Lk & Hd).
  rewrite get_public_64 by exact Lk. subst k. f_equal. apply skipn_firstn_comm32. tauto.
Qed.

(* ---------- protobuf wrappers ---------- *)

Lemma wf_priv_len k : wf_priv k -> zlen k < two63.
Proof. intros [H _]. rewrite H. unfold ed_priv_size, two63. lia. Qed.

Theorem unmarshal_marshal_priv k : wf_priv k -> unmarshal_priv (marshal_priv k) = Ok k.
Proof.
  intros Hk. unfold unmarshal_priv, marshal_priv.
  rewrite pb2_roundtrip by (try apply key_type_int32; apply wf_priv_len, Hk).
  cbn [obind]. rewrite Z.eqb_refl. apply ed_unmarshal_64. apply Hk.
Qed.

(* the libp2p 96-byte form (key ++ redundant public key) decodes to the same key *)
Theorem unmarshal_priv_96_form k : wf_priv k ->
  unmarshal_priv (pb2_marshal key_type_ed25519 (k ++ skipn 32 k)) = Ok k.
Proof.
  intros [Hl Hb]. unfold unmarshal_priv. unfold ed_priv_size in Hl.
  assert (L : zlen (k ++ skipn 32 k) = 96).
  { unfold zlen in *. rewrite app_length, skipn_length. lia. }
  rewrite pb2_roundtrip by (try apply key_type_int32; rewrite L; unfold two63; lia).
  cbn [obind]. rewrite Z.eqb_refl. rewrite ed_unmarshal_96 by exact L.
  assert (L64 : length k = 64%nat) by (unfold zlen in Hl; lia).
  assert (P : pub_half (k ++ skipn 32 k) = skipn 32 k).
  { unfold pub_half. rewrite skipn_app. replace (32 - length k)%nat with 0%nat by lia. rewrite skipn_O.
    rewrite firstn_app. rewrite skipn_length. replace (32 - (length k - 32))%nat with 0%nat by lia.
    rewrite firstn_O, app_nil_r. apply firstn_all2. rewrite skipn_length. lia. }
  assert (S : skipn 64 (k ++ skipn 32 k) = skipn 32 k).
  { rewrite skipn_app. rewrite (skipn_all2 k) by lia. replace (64 - length k)%nat with 0%nat by lia. rewrite skipn_O. reflexivity. }
  rewrite P, S, bytes_eqb_refl. f_equal.
  rewrite firstn_app. replace (64 - length k)%nat with 0%nat by lia. rewrite firstn_O, app_nil_r.
  apply firstn_all2. lia.
Qed.

Theorem unmarshal_priv_sound d k : unmarshal_priv d = Ok k -> zlen k = 64.
Proof.
  unfold unmarshal_priv. destruct (pb2_unmarshal d) as [[ty raw]|e|]; cbn [obind]; try discriminate.
  destruct (ty =? key_type_ed25519); [|discriminate]. intros H. apply ed_unmarshal_sound in H. tauto.
Qed.

Theorem unmarshal_priv_total d : all_bytes d = true -> unmarshal_priv d <> Panic.
Proof.
  intros Hd. unfold unmarshal_priv. pose proof (pb2_unmarshal_total d Hd).
  destruct (pb2_unmarshal d) as [[ty raw]|e|]; cbn [obind]; try discriminate; try contradiction.
  destruct (ty =? key_type_ed25519); [apply ed_unmarshal_total|discriminate].
Qed.

(* decoded private key: same public key and same peer id as the original *)
Theorem decoded_same_identity k k' : wf_priv k ->
  unmarshal_priv (marshal_priv k) = Ok k' \/ unmarshal_priv (pb2_marshal key_type_ed25519 (k ++ skipn 32 k)) = Ok k' ->
  priv_get_public k' = priv_get_public k /\ priv_id k' = priv_id k /\ exists id, priv_id k = Ok id.
Proof.
  intros Hk H. assert (E : k' = k).
  { destruct H as [H|H]; [rewrite unmarshal_marshal_priv in H by exact Hk|rewrite unmarshal_priv_96_form in H by exact Hk];
      inversion H; reflexivity. }
  subst k'. split; [reflexivity|]. split; [reflexivity|].
  unfold priv_id. rewrite get_public_64 by apply Hk. eexists. reflexivity.
Qed.

(* ---------- strings.TrimSpace on text that starts and ends with a printable ASCII character ---------- *)

Definition plain (c : Z) : Prop := 32 < c < 128.

Lemma trim_with_zero f fuel s : f s = 0%nat -> trim_with f fuel s = s.
Proof. intros H. destruct fuel; cbn [trim_with]; [reflexivity|]. rewrite H. reflexivity. Qed.

Lemma space_prefix_plain c r : plain c -> space_prefix_len (c :: r) = 0%nat.
Proof.
  unfold plain. intros H. cbn [space_prefix_len]. unfold is_ascii_space.
  replace ((c =? 9) || (c =? 10) || (c =? 11) || (c =? 12) || (c =? 13) || (c =? 32)) with false by lia.
  replace (c <? 128) with true by lia. reflexivity.
Qed.

Lemma space_suffix_plain c r : plain c -> space_suffix_len_rev (c :: r) = 0%nat.
Proof.
  unfold plain. intros H. cbn [space_suffix_len_rev]. unfold is_ascii_space.
  replace ((c =? 9) || (c =? 10) || (c =? 11) || (c =? 12) || (c =? 13) || (c =? 32)) with false by lia.
  replace (c <? 128) with true by lia. reflexivity.
Qed.

Lemma trim_space_plain s : Forall plain s -> trim_space s = s.
Proof.
  intros H. unfold trim_space. destruct s as [|c r]; [reflexivity|].
  rewrite (trim_with_zero space_prefix_len (length (c :: r)) (c :: r)) by (apply space_prefix_plain; inversion H; assumption).
  assert (Hr : Forall plain (rev (c :: r))) by (apply Forall_rev, H).
  destruct (rev (c :: r)) as [|c' r'] eqn:E.
  - apply (f_equal (@rev Z)) in E. rewrite rev_involutive in E. cbn in E. discriminate.
  - rewrite trim_with_zero by (apply space_suffix_plain; inversion Hr; assumption).
    rewrite <- E. apply rev_involutive.
Qed.

Lemma b58_char_plain_all :
  forallb (fun d => let c := b58_char d in (32 <? c) && (c <? 128)) (map Z.of_nat (seq 0 58)) = true.
Proof. vm_compute. reflexivity. Qed.

Lemma b58_char_plain d : digit_ok 58 d -> plain (b58_char d).
Proof.
  intros Hd. unfold digit_ok in Hd. pose proof b58_char_plain_all as H. rewrite forallb_forall in H.
  assert (Hin : In d (map Z.of_nat (seq 0 58))).
  { apply in_map_iff. exists (Z.to_nat d). split; [lia|]. apply in_seq. lia. }
  specialize (H d Hin). cbv zeta in H. unfold plain. lia.
Qed.

Lemma b58_encode_plain b : bytes_ok b -> Forall plain (b58_encode b).
Proof.
  intros Hb. unfold b58_encode. apply Forall_forall. intros c Hc. apply in_map_iff in Hc as (d & <- & Hd).
  apply b58_char_plain. assert (Hok : Forall (digit_ok 58) (rebase 256 58 b)) by (apply rebase_ok; auto; lia).
  eapply Forall_forall in Hok; eauto.
Qed.

Lemma b58_encode_alpha b c : bytes_ok b -> In c (b58_encode b) -> exists d, b58_digit c = Some d.
Proof.
  intros Hb Hc. unfold b58_encode in Hc. apply in_map_iff in Hc as (d & <- & Hd). exists d.
  apply b58_digit_char. assert (Hok : Forall (digit_ok 58) (rebase 256 58 b)) by (apply rebase_ok; auto; lia).
  eapply Forall_forall in Hok; eauto.
Qed.

(* the PEM branch is selected by a first character outside the base58 alphabet *)
Lemma pem_prefix_not_b58 :
  match pem_begin_prefix with p0 :: _ => b58_digit p0 = None | [] => False end.
Proof. vm_compute. reflexivity. Qed.

Lemma b58_text_not_pem b : bytes_ok b -> has_prefix pem_begin_prefix (b58_encode b) = false.
Proof.
  intros Hb. pose proof pem_prefix_not_b58 as P. destruct pem_begin_prefix as [|p0 p]; [contradiction|].
  destruct (b58_encode b) as [|c s] eqn:E; [reflexivity|]. cbn [has_prefix].
  destruct (p0 =? c) eqn:Ec; [|reflexivity]. apply Z.eqb_eq in Ec. subst c.
  destruct (b58_encode_alpha b p0 Hb) as (d & Hd); [rewrite E; left; reflexivity|]. congruence.
Qed.

(* ---------- base58 configuration strings ---------- *)

Lemma marshal_priv_ok k : wf_priv k -> bytes_ok (marshal_priv k) /\ marshal_priv k <> [].
Proof.
  intros Hk. split.
  - apply all_bytes_ok. apply pb2_marshal_bytes; [apply Hk|apply wf_priv_len, Hk].
  - apply pb2_marshal_nonempty. right. destruct Hk as [Hl _]. intros ->. cbn in Hl. discriminate.
Qed.

Lemma marshal_pub_ok pk : wf_pub pk -> bytes_ok (marshal_pub pk) /\ marshal_pub pk <> [].
Proof.
  intros Hk. split.
  - apply all_bytes_ok. apply pb2_marshal_bytes; [apply Hk|apply wf_pub_len, Hk].
  - apply pb2_marshal_nonempty. right. destruct Hk as [Hl _]. intros ->. cbn in Hl. discriminate.
Qed.

Lemma conf_b58_dispatch (pd : pem_oracle) m (f : bytes -> outcome bytes) (g : pem_oracle -> bytes -> outcome (option bytes)) :
  bytes_ok m -> m <> [] ->
  (let s' := trim_space (b58_encode m) in
   match s' with
   | [] => Ok None
   | _ => if has_prefix pem_begin_prefix s' then g pd s'
          else match b58_decode s' with
               | Ok data => k <- f data ;; Ok (Some k)
               | Err _ => Err EConfB58
               | Panic => Panic
               end
   end) = (k <- f m ;; Ok (Some k)).
Proof.
  intros Hb Hne. cbv zeta. rewrite trim_space_plain by (apply b58_encode_plain, Hb).
  destruct (b58_encode m) as [|c s] eqn:E.
  { apply (proj1 (b58_encode_nil_iff m Hb)) in E. contradiction. }
  rewrite <- E. rewrite b58_text_not_pem by exact Hb. rewrite b58_roundtrip by assumption. reflexivity.
Qed.

Theorem conf_roundtrip_priv pd k : wf_priv k ->
  conf_parse_private_key pd (conf_marshal_private_key k) = Ok (Some k).
Proof.
  intros Hk. destruct (marshal_priv_ok k Hk) as [Hb Hne].
  unfold conf_parse_private_key, conf_marshal_private_key.
  etransitivity; [exact (conf_b58_dispatch pd (marshal_priv k) unmarshal_priv conf_parse_private_key_pem Hb Hne)|].
  rewrite unmarshal_marshal_priv by exact Hk. reflexivity.
Qed.

Theorem conf_roundtrip_pub pd pk : wf_pub pk ->
  conf_parse_public_key pd (conf_marshal_public_key pk) = Ok (Some pk).
Proof.
  intros Hk. destruct (marshal_pub_ok pk Hk) as [Hb Hne].
  unfold conf_parse_public_key, conf_marshal_public_key.
  etransitivity; [exact (conf_b58_dispatch pd (marshal_pub pk) unmarshal_pub conf_parse_public_key_pem Hb Hne)|].
  rewrite unmarshal_marshal_pub by exact Hk. reflexivity.
Qed.

(* ---------- PEM, with encoding/pem as an oracle ---------- *)

Lemma pem_types_distinct :
  bytes_eqb pem_priv_type pem_priv_type = true /\ bytes_eqb pem_pub_type pem_pub_type = true /\
  bytes_eqb pem_pub_type pem_priv_type = false /\ bytes_eqb pem_priv_type pem_pub_type = false /\
  pem_begin_prefix <> [].
Proof. vm_compute. repeat split; discriminate. Qed.

Section Pem.
  Variable pe : bytes -> bytes -> bytes.
  Variable pd : pem_oracle.
  (* law of encoding/pem assumed by the round-trip theorems (sampled by the harness) *)
  Hypothesis pem_law : forall t b, pd (pe t b) = Some (t, b).

  Theorem pem_roundtrip_priv k : wf_priv k -> parse_priv_key_pem pd (marshal_priv_pem pe k) = Ok (Some k).
  Proof.
    intros Hk. unfold parse_priv_key_pem, marshal_priv_pem. rewrite pem_law.
    destruct pem_types_distinct as (E1 & _). rewrite E1. rewrite unmarshal_marshal_priv by exact Hk. reflexivity.
  Qed.

  Theorem pem_roundtrip_key k : wf_priv k ->
    parse_key_pem pd (marshal_priv_pem pe k) = Ok (Some k, Some (skipn 32 k)).
  Proof.
    intros Hk. unfold parse_key_pem, marshal_priv_pem. rewrite pem_law.
    destruct pem_types_distinct as (E1 & _). rewrite E1. rewrite unmarshal_marshal_priv by exact Hk.
    cbn [obind]. rewrite get_public_64 by apply Hk. reflexivity.
  Qed.

  Theorem pem_roundtrip_pub pk : wf_pub pk -> parse_pub_key_pem pd (marshal_pub_pem pe pk) = Ok (Some pk).
  Proof.
    intros Hk. unfold parse_pub_key_pem, parse_key_pem, marshal_pub_pem. rewrite pem_law.
    destruct pem_types_distinct as (_ & E2 & E3 & _). rewrite E3, E2.
    rewrite unmarshal_marshal_pub by exact Hk. reflexivity.
  Qed.

  (* ParsePubKeyPem on a private key file yields that key's public key *)
  Theorem pem_pub_of_priv k : wf_priv k -> parse_pub_key_pem pd (marshal_priv_pem pe k) = Ok (Some (skipn 32 k)).
  Proof. intros Hk. unfold parse_pub_key_pem. rewrite pem_roundtrip_key by exact Hk. reflexivity. Qed.

  (* a PEM block of the other type is an error for the private-key parser *)
  Theorem pem_wrong_type pk : parse_priv_key_pem pd (marshal_pub_pem pe pk) = Err EPemType.
  Proof.
    unfold parse_priv_key_pem, marshal_pub_pem. rewrite pem_law.
    destruct pem_types_distinct as (_ & _ & E3 & _). rewrite E3. reflexivity.
  Qed.

  Theorem pem_unknown_type t b : bytes_eqb t pem_priv_type = false -> bytes_eqb t pem_pub_type = false ->
    parse_key_pem pd (pe t b) = Err EPemType /\ parse_priv_key_pem pd (pe t b) = Err EPemType.
  Proof.
    intros H1 H2. unfold parse_key_pem, parse_priv_key_pem. rewrite pem_law, H1, H2. auto.
  Qed.

  (* confparse PEM fields *)
  Theorem conf_pem_roundtrip_priv k : wf_priv k -> marshal_priv_pem pe k <> [] ->
    conf_parse_private_key_pem pd (marshal_priv_pem pe k) = Ok (Some k).
  Proof.
    intros Hk Hne. unfold conf_parse_private_key_pem.
    destruct (marshal_priv_pem pe k) eqn:E; [contradiction|]. rewrite <- E.
    rewrite pem_roundtrip_priv by exact Hk. reflexivity.
  Qed.

  (* configuration strings holding a PEM: two more laws of the library *)
  Hypothesis pem_law_trim : forall t b, pd (trim_space (pe t b)) = Some (t, b).
  Hypothesis pem_law_prefix : forall t b, has_prefix pem_begin_prefix (trim_space (pe t b)) = true.

  Theorem conf_string_pem_roundtrip_priv k : wf_priv k ->
    conf_parse_private_key pd (marshal_priv_pem pe k) = Ok (Some k).
  Proof.
    intros Hk. unfold conf_parse_private_key, marshal_priv_pem. cbv zeta.
    pose proof (pem_law_prefix pem_priv_type (marshal_priv k)) as P.
    destruct (trim_space (pe pem_priv_type (marshal_priv k))) as [|c s] eqn:E.
    { destruct pem_types_distinct as (_ & _ & _ & _ & N). destruct pem_begin_prefix; [contradiction|discriminate]. }
    rewrite P. unfold conf_parse_private_key_pem, parse_priv_key_pem. rewrite <- E, pem_law_trim.
    destruct pem_types_distinct as (E1 & _). rewrite E1. rewrite unmarshal_marshal_priv by exact Hk. reflexivity.
  Qed.

  Theorem conf_string_pem_roundtrip_pub pk : wf_pub pk ->
    conf_parse_public_key pd (marshal_pub_pem pe pk) = Ok (Some pk).
  Proof.
    intros Hk. unfold conf_parse_public_key, marshal_pub_pem. cbv zeta.
    pose proof (pem_law_prefix pem_pub_type (marshal_pub pk)) as P.
    destruct (trim_space (pe pem_pub_type (marshal_pub pk))) as [|c s] eqn:E.
    { destruct pem_types_distinct as (_ & _ & _ & _ & N). destruct pem_begin_prefix; [contradiction|discriminate]. }
    rewrite P. unfold conf_parse_public_key_pem, parse_pub_key_pem, parse_key_pem. rewrite <- E, pem_law_trim.
    destruct pem_types_distinct as (_ & E2 & E3 & _). rewrite E3, E2.
    rewrite unmarshal_marshal_pub by exact Hk. reflexivity.
  Qed.
End Pem.

(* ---------- totality of every parser, for any behaviour of the PEM library ---------- *)

Definition pem_bytes (pd : pem_oracle) : Prop := forall dat t b, pd dat = Some (t, b) -> all_bytes b = true.

Theorem parse_key_pem_total pd dat : pem_bytes pd -> parse_key_pem pd dat <> Panic.
Proof.
  intros Hpd. unfold parse_key_pem. destruct (pd dat) as [[t b]|] eqn:E; [|discriminate].
  pose proof (Hpd _ _ _ E) as Hb.
  destruct (bytes_eqb t pem_priv_type).
  - pose proof (unmarshal_priv_total b Hb). destruct (unmarshal_priv b) as [k|e|] eqn:U; cbn [obind]; try discriminate; try contradiction.
    rewrite get_public_64 by (eapply unmarshal_priv_sound; eauto). discriminate.
  - destruct (bytes_eqb t pem_pub_type); [|discriminate].
    pose proof (unmarshal_pub_total b Hb). destruct (unmarshal_pub b); cbn [obind]; try discriminate; try contradiction.
Qed.

Theorem parse_priv_key_pem_total pd dat : pem_bytes pd -> parse_priv_key_pem pd dat <> Panic.
Proof.
  intros Hpd. unfold parse_priv_key_pem. destruct (pd dat) as [[t b]|] eqn:E; [|discriminate].
  pose proof (Hpd _ _ _ E) as Hb. destruct (bytes_eqb t pem_priv_type); [|discriminate].
  pose proof (unmarshal_priv_total b Hb). destruct (unmarshal_priv b); cbn [obind]; try discriminate; try contradiction.
Qed.

Theorem parse_pub_key_pem_total pd dat : pem_bytes pd -> parse_pub_key_pem pd dat <> Panic.
Proof.
  intros Hpd. unfold parse_pub_key_pem. pose proof (parse_key_pem_total pd dat Hpd).
  destruct (parse_key_pem pd dat); cbn [obind]; try discriminate; try contradiction.
Qed.

Theorem conf_parse_private_key_total pd s : pem_bytes pd -> conf_parse_private_key pd s <> Panic.
Proof.
  intros Hpd. unfold conf_parse_private_key. cbv zeta. destruct (trim_space s) as [|c r] eqn:E; [discriminate|].
  destruct (has_prefix pem_begin_prefix (c :: r)).
  - unfold conf_parse_private_key_pem. pose proof (parse_priv_key_pem_total pd (c :: r) Hpd).
    destruct (parse_priv_key_pem pd (c :: r)) as [[k|]|e|]; cbn [obind]; try discriminate; try contradiction.
  - destruct (b58_decode (c :: r)) as [m|e|] eqn:D; try discriminate.
    + apply b58_decode_encode in D as [_ D]. apply all_bytes_ok in D.
      pose proof (unmarshal_priv_total m D). destruct (unmarshal_priv m); cbn [obind]; try discriminate; try contradiction.
    + exfalso. eapply b58_decode_total; eauto.
Qed.

Theorem conf_parse_public_key_total pd s : pem_bytes pd -> conf_parse_public_key pd s <> Panic.
Proof.
  intros Hpd. unfold conf_parse_public_key. cbv zeta. destruct (trim_space s) as [|c r] eqn:E; [discriminate|].
  destruct (has_prefix pem_begin_prefix (c :: r)).
  - unfold conf_parse_public_key_pem. pose proof (parse_pub_key_pem_total pd (c :: r) Hpd).
    destruct (parse_pub_key_pem pd (c :: r)) as [[k|]|e|]; cbn [obind]; try discriminate; try contradiction.
  - destruct (b58_decode (c :: r)) as [m|e|] eqn:D; try discriminate.
    + apply b58_decode_encode in D as [_ D]. apply all_bytes_ok in D.
      pose proof (unmarshal_pub_total m D). destruct (unmarshal_pub m); cbn [obind]; try discriminate; try contradiction.
    + exfalso. eapply b58_decode_total; eauto.
Qed.

(* "either a key or an error": holds for the configuration parsers on every
   non-blank field ... *)
Theorem conf_key_or_error pd s : trim_space s <> [] ->
  conf_parse_private_key pd s <> Ok None /\ conf_parse_public_key pd s <> Ok None.
Proof.
  intros Hne.
  unfold conf_parse_private_key, conf_parse_public_key. cbv zeta.
  destruct (trim_space s) as [|c r] eqn:E; [contradiction|].
  destruct (has_prefix pem_begin_prefix (c :: r)); split.
  - unfold conf_parse_private_key_pem. destruct (parse_priv_key_pem pd (c :: r)) as [[k|]|e|]; cbn [obind]; discriminate.
  - unfold conf_parse_public_key_pem. destruct (parse_pub_key_pem pd (c :: r)) as [[k|]|e|]; cbn [obind]; discriminate.
  - destruct (b58_decode (c :: r)); try discriminate. destruct (unmarshal_priv a); cbn [obind]; discriminate.
  - destruct (b58_decode (c :: r)); try discriminate. destruct (unmarshal_pub a); cbn [obind]; discriminate.
Qed.

(* ... and is refuted for keypem: input without a PEM block gives neither *)
Theorem keypem_nil_nil_refuted pd dat : pd dat = None ->
  parse_priv_key_pem pd dat = Ok None /\ parse_key_pem pd dat = Ok (None, None) /\ parse_pub_key_pem pd dat = Ok None.
Proof. intros H. unfold parse_pub_key_pem, parse_priv_key_pem, parse_key_pem. rewrite H. auto. Qed.

Theorem keypem_key_or_error pd dat : pd dat <> None ->
  parse_priv_key_pem pd dat <> Ok None /\ parse_pub_key_pem pd dat <> Ok None.
Proof.
  intros H. unfold parse_pub_key_pem, parse_priv_key_pem, parse_key_pem.
  destruct (pd dat) as [[t b]|]; [|contradiction]. split.
  - destruct (bytes_eqb t pem_priv_type); [|discriminate]. destruct (unmarshal_priv b); cbn [obind]; discriminate.
  - destruct (bytes_eqb t pem_priv_type).
    + destruct (unmarshal_priv b) as [k|e|]; cbn [obind]; try discriminate.
      destruct (priv_get_public k); cbn [obind snd]; discriminate.
    + destruct (bytes_eqb t pem_pub_type); [|discriminate]. destruct (unmarshal_pub b); cbn [obind snd]; discriminate.
Qed.

(* ---------- a toy PEM codec satisfying the three laws (non-vacuity of the Section hypotheses) ---------- *)

Definition toy_pe (t b : bytes) : bytes := pem_begin_prefix ++ [zlen t] ++ t ++ b ++ [33].
Definition toy_pd (s : bytes) : option (bytes * bytes) :=
  if has_prefix pem_begin_prefix s then
    match skipn (length pem_begin_prefix) s with
    | n :: r => Some (firstn (Z.to_nat n) r, removelast (skipn (Z.to_nat n) r))
    | [] => None
    end
  else None.

Lemma has_prefix_app p s : has_prefix p (p ++ s) = true.
Proof. induction p; cbn; [reflexivity|]. rewrite Z.eqb_refl. exact IHp. Qed.

Lemma toy_law t b : toy_pd (toy_pe t b) = Some (t, b).
Proof.
  unfold toy_pd, toy_pe. rewrite has_prefix_app. rewrite skipn_app_len. cbn [app].
  unfold zlen. rewrite Nat2Z.id. rewrite firstn_app_len, skipn_app_len. rewrite removelast_last. reflexivity.
Qed.

Lemma pem_prefix_plain : Forall plain pem_begin_prefix.
Proof. unfold pem_begin_prefix, plain. repeat constructor; lia. Qed.

Lemma trim_space_ends c r c' : plain c -> plain c' -> trim_space (c :: r ++ [c']) = c :: r ++ [c'].
Proof.
  intros Hc Hc'. unfold trim_space.
  rewrite (trim_with_zero space_prefix_len (length (c :: r ++ [c'])) (c :: r ++ [c'])) by (apply space_prefix_plain, Hc).
  change (c :: r ++ [c']) with ((c :: r) ++ [c']). rewrite rev_app_distr.
  change (rev [c'] ++ rev (c :: r)) with (c' :: rev (c :: r)).
  rewrite trim_with_zero by (apply space_suffix_plain, Hc').
  change (c' :: rev (c :: r)) with (rev [c'] ++ rev (c :: r)).
  rewrite <- rev_app_distr. apply rev_involutive.
Qed.

Lemma toy_trim t b : trim_space (toy_pe t b) = toy_pe t b.
Proof.
  unfold toy_pe. pose proof pem_prefix_plain as P.
  destruct pem_types_distinct as (_ & _ & _ & _ & N).
  destruct pem_begin_prefix as [|p0 p] eqn:E; [contradiction|].
  replace ((p0 :: p) ++ [zlen t] ++ t ++ b ++ [33]) with (p0 :: (p ++ zlen t :: t ++ b) ++ [33]).
  - apply trim_space_ends; [inversion P; assumption|unfold plain; lia].
  - cbn [app]. f_equal. rewrite <- app_assoc. cbn [app]. rewrite <- app_assoc. reflexivity.
Qed.

Theorem toy_pem_laws :
  (forall t b, toy_pd (toy_pe t b) = Some (t, b)) /\
  (forall t b, toy_pd (trim_space (toy_pe t b)) = Some (t, b)) /\
  (forall t b, has_prefix pem_begin_prefix (trim_space (toy_pe t b)) = true).
Proof.
  split; [exact toy_law|]. split; intros t b; rewrite toy_trim; [apply toy_law|].
  unfold toy_pe. apply has_prefix_app.
Qed.
