(* Model of the key encodings: crypto/crypto.go + crypto/ed25519.go (protobuf
   wrappers, 64/96-byte private key forms), keypem/keypem.go (PEM dispatch),
   util/confparse/keys.go + pem.go (base58 / PEM configuration strings).
   No proofs here.

   A private key is its raw 64 bytes (Ed25519PrivateKey.k = seed ++ public
   key), a public key its raw 32 bytes.  encoding/pem is an oracle: the
   functions take pem.Decode as a parameter [pd : bytes -> option (type * body)]
   and pem.EncodeToMemory as [pe : type -> body -> bytes]. *)
From Bifrost Require Import Lib.Base Lib.Varint Lib.Base58 Id.Pb Id.Model.
From Bifrost Require Import gen.Ident.

Definition ERedundant : nat := 30%nat.   (* redundant public key differs *)
Definition EPrivLen : nat := 31%nat.     (* raw private key is neither 64 nor 96 bytes *)
Definition EPemType : nat := 32%nat.     (* keypem.ErrUnexpectedPemType *)
Definition ENoPem : nat := 33%nat.       (* confparse: "no pem data found" *)
Definition EConfB58 : nat := 34%nat.     (* confparse: "... must be valid b58" *)

(* constants of Go's crypto/ed25519 *)
Definition ed_priv_size : Z := 64.
Definition ed_pubkey_size : Z := 32.

(* crypto.UnmarshalEd25519PrivateKey *)
Definition unmarshal_ed25519_priv (data : bytes) : outcome bytes :=
  let n := zlen data in
  if n =? ed_priv_size + ed_pubkey_size then
    red <- gfrom data ed_priv_size ;;                                  (* data[64:] *)
    pk <- gslice data (ed_priv_size - ed_pubkey_size) ed_priv_size ;;  (* data[32:64] *)
    if bytes_eqb pk red                                                (* subtle.ConstantTimeCompare == 1 *)
    then gslice data 0 ed_priv_size                                    (* copy(newKey, data[:64]) *)
    else Err ERedundant
  else if n =? ed_priv_size then Ok data
  else Err EPrivLen.

(* Ed25519PrivateKey.GetPublic: k.k[64-32:] *)
Definition priv_get_public (k : bytes) : outcome bytes := gfrom k (ed_priv_size - ed_pubkey_size).

(* crypto.MarshalPrivateKey / UnmarshalPrivateKey *)
Definition marshal_priv (k : bytes) : bytes := pb2_marshal key_type_ed25519 k.

Definition unmarshal_priv (data : bytes) : outcome bytes :=
  r <- pb2_unmarshal data ;;
  let '(ty, d) := r in
  if ty =? key_type_ed25519 then unmarshal_ed25519_priv d else Err EBadKeyType.

(* peer.IDFromPrivateKey: the id of the public half *)
Definition priv_id (k : bytes) : outcome bytes := p <- priv_get_public k ;; Ok (id_from_pub p).

Definition wf_priv (k : bytes) : Prop := zlen k = ed_priv_size /\ all_bytes k = true.

(* ---------- keypem/keypem.go ---------- *)

Definition pem_oracle := bytes -> option (bytes * bytes).

(* ParseKeyPem: (private, public) *)
Definition parse_key_pem (pd : pem_oracle) (dat : bytes) : outcome (option bytes * option bytes) :=
  match pd dat with
  | None => Ok (None, None)
  | Some (t, body) =>
      if bytes_eqb t pem_priv_type then
        k <- unmarshal_priv body ;; p <- priv_get_public k ;; Ok (Some k, Some p)
      else if bytes_eqb t pem_pub_type then
        p <- unmarshal_pub body ;; Ok (None, Some p)
      else Err EPemType
  end.

(* ParsePrivKeyPem *)
Definition parse_priv_key_pem (pd : pem_oracle) (dat : bytes) : outcome (option bytes) :=
  match pd dat with
  | None => Ok None
  | Some (t, body) =>
      if bytes_eqb t pem_priv_type then k <- unmarshal_priv body ;; Ok (Some k)
      else Err EPemType
  end.

(* ParsePubKeyPem *)
Definition parse_pub_key_pem (pd : pem_oracle) (dat : bytes) : outcome (option bytes) :=
  r <- parse_key_pem pd dat ;; Ok (snd r).

Definition marshal_priv_pem (pe : bytes -> bytes -> bytes) (k : bytes) : bytes := pe pem_priv_type (marshal_priv k).
Definition marshal_pub_pem (pe : bytes -> bytes -> bytes) (pk : bytes) : bytes := pe pem_pub_type (marshal_pub pk).

(* ---------- util/confparse/pem.go ---------- *)

Definition conf_parse_private_key_pem (pd : pem_oracle) (dat : bytes) : outcome (option bytes) :=
  match dat with
  | [] => Ok None
  | _ => r <- parse_priv_key_pem pd dat ;;
         match r with None => Err ENoPem | Some k => Ok (Some k) end
  end.

Definition conf_parse_public_key_pem (pd : pem_oracle) (dat : bytes) : outcome (option bytes) :=
  match dat with
  | [] => Ok None
  | _ => r <- parse_pub_key_pem pd dat ;;
         match r with None => Err ENoPem | Some k => Ok (Some k) end
  end.

(* ---------- strings.TrimSpace (Unicode White_Space, UTF-8) ---------- *)

Definition is_ascii_space (c : Z) : bool :=
  (c =? 9) || (c =? 10) || (c =? 11) || (c =? 12) || (c =? 13) || (c =? 32).

(* third byte x of E2 80 x: U+2000..U+200A, U+2028, U+2029, U+202F *)
Definition e280_space (x : Z) : bool :=
  ((128 <=? x) && (x <=? 138)) || (x =? 168) || (x =? 169) || (x =? 175).

(* number of bytes of the white-space rune at the head (0 = none) *)
Definition space_prefix_len (s : bytes) : nat :=
  match s with
  | [] => 0%nat
  | c :: r =>
      if is_ascii_space c then 1%nat
      else if c <? 128 then 0%nat
      else match r with
           | x :: r' =>
               if (c =? 194) && ((x =? 133) || (x =? 160)) then 2%nat          (* U+0085, U+00A0 *)
               else match r' with
                    | y :: _ =>
                        if (c =? 225) && (x =? 154) && (y =? 128) then 3%nat   (* U+1680 *)
                        else if (c =? 226) && (x =? 128) && e280_space y then 3%nat
                        else if (c =? 226) && (x =? 129) && (y =? 159) then 3%nat   (* U+205F *)
                        else if (c =? 227) && (x =? 128) && (y =? 128) then 3%nat   (* U+3000 *)
                        else 0%nat
                    | [] => 0%nat
                    end
           | [] => 0%nat
           end
  end.

(* the same on the reversed string: white-space rune at the tail *)
Definition space_suffix_len_rev (s : bytes) : nat :=
  match s with
  | [] => 0%nat
  | c :: r =>
      if is_ascii_space c then 1%nat
      else if c <? 128 then 0%nat
      else match r with
           | x :: r' =>
               if (x =? 194) && ((c =? 133) || (c =? 160)) then 2%nat
               else match r' with
                    | y :: _ =>
                        if (y =? 225) && (x =? 154) && (c =? 128) then 3%nat
                        else if (y =? 226) && (x =? 128) && e280_space c then 3%nat
                        else if (y =? 226) && (x =? 129) && (c =? 159) then 3%nat
                        else if (y =? 227) && (x =? 128) && (c =? 128) then 3%nat
                        else 0%nat
                    | [] => 0%nat
                    end
           | [] => 0%nat
           end
  end.

Fixpoint trim_with (f : bytes -> nat) (fuel : nat) (s : bytes) : bytes :=
  match fuel with
  | O => s
  | S k => match f s with
           | O => s
           | n => trim_with f k (skipn n s)
           end
  end.

Definition trim_space (s : bytes) : bytes :=
  let l := trim_with space_prefix_len (length s) s in
  rev (trim_with space_suffix_len_rev (length l) (rev l)).

Fixpoint has_prefix (p s : bytes) : bool :=
  match p, s with
  | [], _ => true
  | x :: p', y :: s' => (x =? y) && has_prefix p' s'
  | _ :: _, [] => false
  end.

(* ---------- util/confparse/keys.go ---------- *)

Definition conf_parse_private_key (pd : pem_oracle) (s : bytes) : outcome (option bytes) :=
  let s' := trim_space s in
  match s' with
  | [] => Ok None
  | _ =>
      if has_prefix pem_begin_prefix s' then conf_parse_private_key_pem pd s'
      else match b58_decode s' with
           | Ok data => k <- unmarshal_priv data ;; Ok (Some k)
           | Err _ => Err EConfB58
           | Panic => Panic
           end
  end.

Definition conf_parse_public_key (pd : pem_oracle) (s : bytes) : outcome (option bytes) :=
  let s' := trim_space s in
  match s' with
  | [] => Ok None
  | _ =>
      if has_prefix pem_begin_prefix s' then conf_parse_public_key_pem pd s'
      else match b58_decode s' with
           | Ok data => k <- unmarshal_pub data ;; Ok (Some k)
           | Err _ => Err EConfB58
           | Panic => Panic
           end
  end.

Definition conf_marshal_private_key (k : bytes) : bytes := b58_encode (marshal_priv k).
Definition conf_marshal_public_key (pk : bytes) : bytes := b58_encode (marshal_pub pk).
