(* Correspondence for C39 (key files). *)
From Bifrost Require Import Lib.Base Id.Pb Id.Model Keys.Model.
From Bifrost Require Export Keys.Run KeyFile.Model.

(* what the path holds after the call *)
Inductive after_obs :=
| AUnchanged                                  (* same as before the call (or still no file) *)
| AFile (pem : option (bytes * bytes)).       (* a new regular file; pem.Decode of its content *)

Inductive c39_case :=
| KF (st : fstate) (pem : option (bytes * bytes))   (* initial state; pem.Decode of the content if FFile *)
     (gen : option bytes) (write_ok : bool)          (* generated key (as returned), whether the write can succeed *)
     (o_panic : bool) (o_key : option bytes) (o_err : bool) (after : after_obs)
(* cli loadPrivKeys / loadPubKeys on a list of paths, each with the recorded pem.Decode result *)
| LoadPriv (ps : list (option (bytes * bytes) * path_in)) (o : obs (list (option bytes)))
| LoadPub (ps : list (option (bytes * bytes) * path_in)) (o : obs (list bytes)).

Definition blk_eqb (a b : bytes * bytes) : bool := bytes_eqb (fst a) (fst b) && bytes_eqb (snd a) (snd b).

Definition c39_agree (c : c39_case) : bool :=
  match c with
  | LoadPriv ps o =>
      obs_agree (list_eqb (option_eqb bytes_eqb))
        (seq_all (map (fun q => load_priv_one (const_pem (fst q)) (snd q)) ps)) o
  | LoadPub ps o =>
      obs_agree (list_eqb bytes_eqb)
        (seq_all (map (fun q => load_pub_one (const_pem (fst q)) (snd q)) ps)) o
  | KF st pem gen wok o_panic o_key o_err after =>
      let '(r, w) := open_or_write (const_pem pem) st gen wok in
      match r with
      | Panic => o_panic
      | Err _ => false
      | Ok (k, e) =>
          negb o_panic && option_eqb bytes_eqb k o_key &&
          Bool.eqb (match e with Some _ => true | None => false end) o_err &&
          match w, after with
          | None, AUnchanged => true
          | Some blk, AFile (Some blk') => blk_eqb blk blk'
          | _, _ => false
          end
      end
  end.
