(* Proofs for C39 (key files). *)
From Bifrost Require Import Lib.Base Id.Pb Id.Model Id.Proofs Keys.Model Keys.Proofs KeyFile.Model.
From Bifrost Require Import gen.Ident.

Lemma usable_id k : zlen k = 64 -> exists id, id_of_priv k = Ok id.
Proof. intros H. unfold id_of_priv. rewrite get_public_64 by exact H. eexists. reflexivity. Qed.

Lemma parse_priv_sound pd dat k : parse_priv_key_pem pd dat = Ok (Some k) -> zlen k = 64.
Proof.
  unfold parse_priv_key_pem. destruct (pd dat) as [[t b]|]; [|discriminate].
  destruct (bytes_eqb t pem_priv_type); [|discriminate].
  destruct (unmarshal_priv b) as [k'|e|] eqn:U; cbn [obind]; try discriminate.
  intros H; inversion H; subst. eapply unmarshal_priv_sound; eauto.
Qed.

(* the result is a key with a usable identity, or an error; never (nil, nil), never a panic *)
Theorem open_key_or_error pd st gen wok :
  pem_bytes pd -> (forall k, gen = Some k -> zlen k = 64) ->
  exists k e, fst (open_or_write pd st gen wok) = Ok (k, e) /\
    (e = None -> exists key id, k = Some key /\ id_of_priv key = Ok id) /\
    (k = None -> e <> None).
Proof.
  intros Hpd Hgen. destruct st as [| | |dat]; cbn [open_or_write].
  - destruct gen as [k|].
    + destruct wok; cbn [fst]; eexists _, _; (split; [reflexivity|]); split; try discriminate.
      intros _. destruct (usable_id k (Hgen k eq_refl)) as [id Hid]. eauto.
    + cbn [fst]. eexists _, _. split; [reflexivity|]. split; discriminate.
  - cbn [fst]. eexists _, _. split; [reflexivity|]. split; discriminate.
  - cbn [fst]. eexists _, _. split; [reflexivity|]. split; discriminate.
  - pose proof (parse_priv_key_pem_total pd dat Hpd) as T.
    destruct (parse_priv_key_pem pd dat) as [[k|]|e|] eqn:P; cbn [fst]; try contradiction;
      eexists _, _; (split; [reflexivity|]); split; try discriminate.
    intros _. destruct (usable_id k (parse_priv_sound _ _ _ P)) as [id Hid]. eauto.
Qed.

(* the path is written only when it did not exist *)
Theorem open_writes_only_missing pd st gen wok blk :
  snd (open_or_write pd st gen wok) = Some blk ->
  st = FMissing /\ wok = true /\ exists k, gen = Some k /\ blk = (pem_priv_type, marshal_priv k).
Proof.
  destruct st as [| | |dat]; cbn [open_or_write].
  - destruct gen as [k|]; [|discriminate]. destruct wok; cbn [snd]; [|discriminate].
    intros H; inversion H; subst. eauto.
  - discriminate.
  - discriminate.
  - destruct (parse_priv_key_pem pd dat) as [[k|]|e|]; discriminate.
Qed.

(* unreadable, empty and non-key files are errors, not absent keys *)
Theorem open_bad_is_error pd gen wok :
  (fst (open_or_write pd FStatErr gen wok) = Ok (None, Some EStat)) /\
  (fst (open_or_write pd FReadErr gen wok) = Ok (None, Some ERead)) /\
  (forall dat, pd dat = None -> fst (open_or_write pd (FFile dat) gen wok) = Ok (None, Some ENoKey)) /\
  (forall dat t b, pd dat = Some (t, b) -> bytes_eqb t pem_priv_type = false ->
     fst (open_or_write pd (FFile dat) gen wok) = Ok (None, Some EPemType)) /\
  (forall dat t b e, pd dat = Some (t, b) -> unmarshal_priv b = Err e ->
     exists e', fst (open_or_write pd (FFile dat) gen wok) = Ok (None, Some e')).
Proof.
  repeat split; try reflexivity.
  - intros dat H. cbn [open_or_write]. unfold parse_priv_key_pem. rewrite H. reflexivity.
  - intros dat t b H Ht. cbn [open_or_write]. unfold parse_priv_key_pem. rewrite H, Ht. reflexivity.
  - intros dat t b e H U. cbn [open_or_write]. unfold parse_priv_key_pem. rewrite H.
    destruct (bytes_eqb t pem_priv_type); [rewrite U|]; cbn [obind fst]; eauto.
Qed.

Section Pem.
  Variable pe : bytes -> bytes -> bytes.
  Variable pd : pem_oracle.
  Hypothesis pem_law : forall t b, pd (pe t b) = Some (t, b).

  (* a valid key file yields that key and is left alone *)
  Theorem open_valid k gen wok : wf_priv k ->
    open_or_write pd (FFile (marshal_priv_pem pe k)) gen wok = (Ok (Some k, None), None).
  Proof.
    intros Hk. cbn [open_or_write]. rewrite (pem_roundtrip_priv pe pd pem_law k Hk). reflexivity.
  Qed.

  (* a missing file gets the generated key, it is written, and a reload gives the
     same key, hence the same public key and peer id *)
  Theorem open_missing_then_reload k gen' wok' : wf_priv k ->
    exists blk id,
      open_or_write pd FMissing (Some k) true = (Ok (Some k, None), Some blk) /\
      open_or_write pd (next_state pe FMissing (Some blk)) gen' wok' = (Ok (Some k, None), None) /\
      id_of_priv k = Ok id.
  Proof.
    intros Hk. destruct (usable_id k) as [id Hid]; [apply Hk|].
    exists (pem_priv_type, marshal_priv k), id. split; [reflexivity|]. split; [|exact Hid].
    cbn [next_state]. apply (open_valid k gen' wok' Hk).
  Qed.
End Pem.

(* if the write fails the caller still gets an error (together with the key) *)
Theorem open_missing_write_fails pd k :
  open_or_write pd FMissing (Some k) false = (Ok (Some k, Some EWrite), None).
Proof. reflexivity. Qed.
