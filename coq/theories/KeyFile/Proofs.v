(* Proofs for C39 (key files). *)
From Bifrost Require Import Lib.Base Id.Pb Id.Model Id.Proofs Keys.Model Keys.Proofs KeyFile.Model.
From Bifrost Require Import gen.Ident.

Lemma usable_id k : zlen k = 64 -> exists id, id_of_priv k = Ok id.
Proof. intros H. unfold id_of_priv. rewrite get_public_64 by exact H. eexists. reflexivity. Qed.

Lemma parse_priv_sound pd dat k : parse_priv_key_pem pd dat = Ok (Some k) -> zlen k = 64.
Proof.
  unfold parse_priv_key_pem. destruct (pd dat) as [[t b]|]; [|discriminate].
  destruct (bytes_eqb t pem_priv_type); [|discriminate].
  destruct (unmarshal_priv b) as [k'|e|] eqn:U; cbn [obind]; try discriminate.
  intros H; inversion H; subst. eapply unmarshal_priv_sound; eauto.
Qed.

(* the result is a key with a usable identity, or an error; never (nil, nil), never a panic *)
Theorem open_key_or_error pd st gen wok :
  pem_bytes pd -> (forall k, gen = Some k -> zlen k = 64) ->
  exists k e, fst (open_or_write pd st gen wok) = Ok (k, e) /\
    (e = None -> exists key id, k = Some key /\ id_of_priv key = Ok id) /\
    (k = None -> e <> None).
Proof.
  intros Hpd Hgen. destruct st as [| | |dat]; cbn [open_or_write].
  - destruct gen as [k|].
    + destruct wok; cbn [fst]; eexists _, _; (split; [reflexivity|]); split; try discriminate.
      intros _. destruct (usable_id k (Hgen k eq_refl)) as [id Hid]. eauto.
    + cbn [fst]. eexists _, _. split; [reflexivity|]. split; discriminate.
  - cbn [fst]. eexists _, _. split; [reflexivity|]. split; discriminate.
  - cbn [fst]. eexists _, _. split; [reflexivity|]. split; discriminate.
  - pose proof (parse_priv_key_pem_total pd dat Hpd) as T.
    destruct (parse_priv_key_pem pd dat) as [[k|]|e|] eqn:P; cbn [fst]; try contradiction;
      eexists _, _; (split; [reflexivity|]); split; try discriminate.
    intros _. destruct (usable_id k (parse_priv_sound _ _ _ P)) as [id Hid]. eauto.
Qed.

(* the path is written only when it did not exist *)
Theorem open_writes_only_missing pd st gen wok blk :
  snd (open_or_write pd st gen wok) = Some blk ->
  st = FMissing /\ wok = true /\ exists k, gen = Some k /\ blk = (pem_priv_type, marshal_priv k).
Proof.
  destruct st as [| | |dat]; cbn [open_or_write].
  - destruct gen as [k|]; [|discriminate]. destruct wok; cbn [snd]; [|discriminate].
    intros H; inversion H; subst. eauto.
  - discriminate.
  - discriminate.
  - destruct (parse_priv_key_pem pd dat) as [[k|]|e|]; discriminate.
Qed.

(* unreadable, empty and non-key files are errors, not absent keys *)
Theorem open_bad_is_error pd gen wok :
  (fst (open_or_write pd FStatErr gen wok) = Ok (None, Some EStat)) /\
  (fst (open_or_write pd FReadErr gen wok) = Ok (None, Some ERead)) /\
  (forall dat, pd dat = None -> fst (open_or_write pd (FFile dat) gen wok) = Ok (None, Some ENoKey)) /\
  (forall dat t b, pd dat = Some (t, b) -> bytes_eqb t pem_priv_type = false ->
     fst (open_or_write pd (FFile dat) gen wok) = Ok (None, Some EPemType)) /\
  (forall dat t b e, pd dat = Some (t, b) -> unmarshal_priv b = Err e ->
     exists e', fst (open_or_write pd (FFile dat) gen wok) = Ok (None, Some e')).
Proof.
  repeat split; try reflexivity.
  - intros dat H. cbn [open_or_write]. unfold parse_priv_key_pem. rewrite H. reflexivity.
  - intros dat t b H Ht. cbn [open_or_write]. unfold parse_priv_key_pem. rewrite H, Ht. reflexivity.
  - intros dat t b e H U. cbn [open_or_write]. unfold parse_priv_key_pem. rewrite H.
    destruct (bytes_eqb t pem_priv_type); [rewrite U|]; cbn [obind fst]; eauto.
Qed.

Section Pem.
  Variable pe : bytes -> bytes -> bytes.
  Variable pd : pem_oracle.
  Hypothesis pem_law : forall t b, pd (pe t b) = Some (t, b).

  (* a valid key file yields that key and is left alone *)
  Theorem open_valid k gen wok : wf_priv k ->
    open_or_write pd (FFile (marshal_priv_pem pe k)) gen wok = (Ok (Some k, None), None).
  Proof.
    intros Hk. cbn [open_or_write]. rewrite (pem_roundtrip_priv pe pd pem_law k Hk). reflexivity.
  Qed.

  (* a missing file gets the generated key, it is written, and a reload gives the
     same key, hence the same public key and peer id *)
  Theorem open_missing_then_reload k gen' wok' : wf_priv k ->
    exists blk id,
      open_or_write pd FMissing (Some k) true = (Ok (Some k, None), Some blk) /\
      open_or_write pd (next_state pe FMissing (Some blk)) gen' wok' = (Ok (Some k, None), None) /\
      id_of_priv k = Ok id.
  Proof.
    intros Hk. destruct (usable_id k) as [id Hid]; [apply Hk|].
    exists (pem_priv_type, marshal_priv k), id. split; [reflexivity|]. split; [|exact Hid].
    cbn [next_state]. apply (open_valid k gen' wok' Hk).
  Qed.
End Pem.

(* if the write fails the caller still gets an error (together with the key) *)
Theorem open_missing_write_fails pd k :
  open_or_write pd FMissing (Some k) false = (Ok (Some k, Some EWrite), None).
Proof. reflexivity. Qed.

(* ---------- cli loadPrivKeys / loadPubKeys ---------- *)

Definition gen_ok (p : path_in) : Prop := forall k, snd (fst p) = Some k -> zlen k = 64.

Lemma load_priv_one_sound pd p k : pem_bytes pd -> gen_ok p ->
  load_priv_one pd p = Ok k -> exists key id, k = Some key /\ id_of_priv key = Ok id.
Proof.
  intros Hpd Hg. destruct p as [[st gen] wok]. unfold load_priv_one.
  destruct (open_key_or_error pd st gen wok Hpd Hg) as (k0 & e & E & H1 & H2). rewrite E.
  destruct e as [e|].
  - destruct st as [| | |dat]; try discriminate.
    destruct (parse_priv_key_pem pd dat) as [[key|]|e'|] eqn:P; try discriminate.
    intros H; inversion H; subst. destruct (usable_id key (parse_priv_sound _ _ _ P)) as [id Hid]. eauto.
  - intros H; inversion H; subst. destruct (H1 eq_refl) as (key & id & -> & Hid). eauto.
Qed.

Lemma load_priv_one_total pd p : pem_bytes pd -> gen_ok p -> load_priv_one pd p <> Panic.
Proof.
  intros Hpd Hg. destruct p as [[st gen] wok]. unfold load_priv_one.
  destruct (open_key_or_error pd st gen wok Hpd Hg) as (k0 & e & E & _ & _). rewrite E.
  destruct e as [e|]; [|discriminate].
  destruct st as [| | |dat]; try discriminate.
  pose proof (parse_priv_key_pem_total pd dat Hpd).
  destruct (parse_priv_key_pem pd dat) as [[key|]|e'|]; try discriminate; contradiction.
Qed.

Lemma load_priv_one_bad pd p : bad_path pd p -> forall k, load_priv_one pd p <> Ok k.
Proof.
  destruct p as [[st gen] wok]. unfold bad_path, load_priv_one. destruct st as [| | |dat]; cbn [open_or_write fst].
  - intros [->| ->]; [discriminate|]. destruct gen; discriminate.
  - discriminate.
  - discriminate.
  - intros Hb k. destruct (parse_priv_key_pem pd dat) as [[key|]|e|] eqn:P; cbn [fst]; try rewrite P; try discriminate.
    exfalso. eapply Hb; eauto.
Qed.

Lemma seq_all_ok {A} (l : list (outcome A)) xs : seq_all l = Ok xs ->
  length xs = length l /\ Forall2 (fun o x => o = Ok x) l xs.
Proof.
  revert xs; induction l as [|o l IH]; intros xs H; cbn [seq_all] in H.
  - inversion H; subst. split; [reflexivity|constructor].
  - destruct o as [x|e|]; cbn [obind] in H; try discriminate.
    destruct (seq_all l) as [ys|e|] eqn:E; cbn [obind] in H; try discriminate.
    inversion H; subst. destruct (IH ys eq_refl) as [L F]. split; [cbn; lia|constructor; auto].
Qed.

Lemma seq_all_no_panic {A} (l : list (outcome A)) : Forall (fun o => o <> Panic) l -> seq_all l <> Panic.
Proof.
  induction 1 as [|o l Ho _ IH]; cbn [seq_all]; [discriminate|].
  destruct o as [x|e|]; cbn [obind]; try discriminate; try contradiction.
  destruct (seq_all l); cbn [obind]; try discriminate; contradiction.
Qed.

Lemma seq_all_err {A} (l : list (outcome A)) : Exists (fun o => forall x, o <> Ok x) l ->
  forall xs, seq_all l <> Ok xs.
Proof.
  intros H xs E. apply seq_all_ok in E as [_ F]. induction F as [|o x l xs' Hx _ IH].
  - inversion H.
  - inversion H as [? ? Hb|? ? Hb]; subst; [eapply Hb; eauto|auto].
Qed.

(* loadPrivKeys: an error, or one usable key per path; never a panic, never fewer keys *)
Theorem load_priv_keys_sound pd ps : pem_bytes pd -> Forall gen_ok ps ->
  load_priv_keys pd ps <> Panic /\
  forall ks, load_priv_keys pd ps = Ok ks ->
    length ks = length ps /\ Forall (fun k => exists key id, k = Some key /\ id_of_priv key = Ok id) ks.
Proof.
  intros Hpd Hg. unfold load_priv_keys. split.
  - apply seq_all_no_panic. apply Forall_forall. intros o Ho. apply in_map_iff in Ho as (p & <- & Hp).
    apply load_priv_one_total; [exact Hpd|]. eapply Forall_forall in Hg; eauto.
  - intros ks E. apply seq_all_ok in E as [L F]. rewrite map_length in L. split; [exact L|].
    clear L. revert ks F. induction ps as [|p ps IH]; intros ks F; cbn [map] in F; inversion F; subst; constructor.
    + inversion Hg; subst. eapply load_priv_one_sound; eauto.
    + inversion Hg; subst. apply IH; auto.
Qed.

(* an empty / garbage / wrong-type / unreadable / directory / unwritable path anywhere in the list is an error *)
Theorem load_priv_keys_bad pd ps : pem_bytes pd -> Forall gen_ok ps -> Exists (bad_path pd) ps ->
  exists e, load_priv_keys pd ps = Err e.
Proof.
  intros Hpd Hg Hb. destruct (load_priv_keys_sound pd ps Hpd Hg) as [T _].
  assert (N : forall ks, load_priv_keys pd ps <> Ok ks).
  { apply seq_all_err. apply Exists_exists in Hb as (p & Hp & Hbad). apply Exists_exists.
    exists (load_priv_one pd p). split; [apply in_map, Hp|apply load_priv_one_bad, Hbad]. }
  destruct (load_priv_keys pd ps) as [ks|e|]; [exfalso; eapply N; eauto|eauto|contradiction].
Qed.

Lemma load_pub_one_total pd p : pem_bytes pd -> gen_ok p -> load_pub_one pd p <> Panic.
Proof.
  intros Hpd Hg. destruct p as [[st gen] wok]. unfold load_pub_one.
  destruct (open_key_or_error pd st gen wok Hpd Hg) as (k0 & e & E & H1 & H2). rewrite E.
  destruct e as [e|]; [destruct k0; discriminate|].
  destruct (H1 eq_refl) as (key & id & -> & Hid). unfold id_of_priv in Hid.
  destruct (priv_get_public key); cbn [obind] in Hid; discriminate.
Qed.

Theorem load_pub_keys_sound pd ps : pem_bytes pd -> Forall gen_ok ps ->
  load_pub_keys pd ps <> Panic /\ forall ks, load_pub_keys pd ps = Ok ks -> length ks = length ps.
Proof.
  intros Hpd Hg. unfold load_pub_keys. split.
  - apply seq_all_no_panic. apply Forall_forall. intros o Ho. apply in_map_iff in Ho as (p & <- & Hp).
    apply load_pub_one_total; [exact Hpd|]. eapply Forall_forall in Hg; eauto.
  - intros ks E. apply seq_all_ok in E as [L _]. rewrite map_length in L. exact L.
Qed.
