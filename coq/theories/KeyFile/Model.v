(* Model of keypem/keyfile/keyfile.go OpenOrWritePrivKey.  No proofs here.

   The file system is reduced to the state of the one path: what os.Stat
   answers, what os.ReadFile answers, whether os.WriteFile succeeds; key
   generation (crypto/rand) is an input.  encoding/pem is the oracle of
   Keys/Model.v. *)
From Bifrost Require Import Lib.Base Id.Pb Id.Model Keys.Model.
From Bifrost Require Import gen.Ident.

Definition EStat : nat := 40%nat.     (* os.Stat failed, not IsNotExist *)
Definition ERead : nat := 41%nat.     (* os.ReadFile failed *)
Definition EWrite : nat := 42%nat.    (* os.WriteFile failed *)
Definition EGen : nat := 43%nat.      (* key generation failed *)
Definition ENoKey : nat := 44%nat.    (* "no private key found in key file" *)

Inductive fstate :=
| FMissing                    (* Stat: IsNotExist *)
| FStatErr                    (* Stat: any other error (ENOTDIR, ELOOP, EACCES on a parent, ...) *)
| FReadErr                    (* Stat ok, ReadFile fails (directory, permission) *)
| FFile (dat : bytes).        (* regular readable file *)

(* Go returns (privKey, err); both may be set ("May return a private key + an error") *)
Definition kres : Type := option bytes * option nat.

(* result, and the PEM block (type, body) written to the path, if any *)
Definition open_or_write (pd : pem_oracle) (st : fstate) (gen : option bytes) (write_ok : bool)
  : outcome kres * option (bytes * bytes) :=
  match st with
  | FStatErr => (Ok (None, Some EStat), None)
  | FMissing =>
      match gen with
      | None => (Ok (None, Some EGen), None)
      | Some k =>
          let blk := (pem_priv_type, marshal_priv k) in            (* keypem.MarshalPrivKeyPem *)
          if write_ok then (Ok (Some k, None), Some blk)
          else (Ok (Some k, Some EWrite), None)
      end
  | FReadErr => (Ok (None, Some ERead), None)
  | FFile dat =>
      match parse_priv_key_pem pd dat with
      | Err e => (Ok (None, Some e), None)
      | Ok None => (Ok (None, Some ENoKey), None)
      | Ok (Some k) => (Ok (Some k, None), None)
      | Panic => (Panic, None)
      end
  end.

(* state of the path after the call *)
Definition next_state (pe : bytes -> bytes -> bytes) (st : fstate) (w : option (bytes * bytes)) : fstate :=
  match w with
  | Some (t, b) => FFile (pe t b)
  | None => st
  end.

(* a usable private key: GetPublic and the peer id are defined *)
Definition usable (k : bytes) : Prop := wf_priv k.

(* the peer id of a private key (peer.IDFromPrivateKey) *)
Definition id_of_priv (k : bytes) : outcome bytes := p <- priv_get_public k ;; Ok (id_from_pub p).

(* ---------- cli/envelope.go: loadPrivKeys / loadPubKeys over a list of key paths ---------- *)

Definition ELoad : nat := 45%nat.     (* "load key <path>" *)

(* one path: its state, the key crypto/rand would generate, whether a write can succeed *)
Definition path_in : Type := (fstate * option bytes * bool)%type.

(* one iteration of loadPrivKeys: OpenOrWritePrivKey, on error the fallback
   os.ReadFile + keypem.ParsePrivKeyPem; the key appended may be nil (None) *)
Definition load_priv_one (pd : pem_oracle) (p : path_in) : outcome (option bytes) :=
  let '(st, gen, wok) := p in
  match fst (open_or_write pd st gen wok) with
  | Panic => Panic
  | Err e => Err e
  | Ok (k, None) => Ok k
  | Ok (_, Some _) =>
      match st with
      | FFile dat =>                                   (* os.ReadFile succeeds on a regular file only *)
          match parse_priv_key_pem pd dat with
          | Ok (Some k) => Ok (Some k)
          | Panic => Panic
          | _ => Err ELoad                             (* readErr != nil || priv == nil *)
          end
      | _ => Err ELoad
      end
  end.

(* one iteration of loadPubKeys: priv.GetPublic() dereferences the key *)
Definition load_pub_one (pd : pem_oracle) (p : path_in) : outcome bytes :=
  let '(st, gen, wok) := p in
  match fst (open_or_write pd st gen wok) with
  | Panic => Panic
  | Err e => Err e
  | Ok (Some k, None) => priv_get_public k
  | Ok (None, None) => Panic                           (* nil interface method call *)
  | Ok (_, Some _) => Err ELoad
  end.

(* the loop: stop at the first error *)
Fixpoint seq_all {A} (l : list (outcome A)) : outcome (list A) :=
  match l with
  | [] => Ok []
  | o :: r => x <- o ;; xs <- seq_all r ;; Ok (x :: xs)
  end.

Definition load_priv_keys (pd : pem_oracle) (ps : list path_in) : outcome (list (option bytes)) :=
  seq_all (map (load_priv_one pd) ps).
Definition load_pub_keys (pd : pem_oracle) (ps : list path_in) : outcome (list bytes) :=
  seq_all (map (load_pub_one pd) ps).

(* a path that cannot yield a key *)
Definition bad_path (pd : pem_oracle) (p : path_in) : Prop :=
  let '(st, gen, wok) := p in
  match st with
  | FStatErr | FReadErr => True
  | FMissing => gen = None \/ wok = false
  | FFile dat => forall k, parse_priv_key_pem pd dat <> Ok (Some k)
  end.
