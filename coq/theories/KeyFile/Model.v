(* Model of keypem/keyfile/keyfile.go OpenOrWritePrivKey.  No proofs here.

   The file system is reduced to the state of the one path: what os.Stat
   answers, what os.ReadFile answers, whether os.WriteFile succeeds; key
   generation (crypto/rand) is an input.  encoding/pem is the oracle of
   Keys/Model.v. *)
From Bifrost Require Import Lib.Base Id.Pb Id.Model Keys.Model.
From Bifrost Require Import gen.Ident.

Definition EStat : nat := 40%nat.     (* os.Stat failed, not IsNotExist *)
Definition ERead : nat := 41%nat.     (* os.ReadFile failed *)
Definition EWrite : nat := 42%nat.    (* os.WriteFile failed *)
Definition EGen : nat := 43%nat.      (* key generation failed *)
Definition ENoKey : nat := 44%nat.    (* "no private key found in key file" *)

Inductive fstate :=
| FMissing                    (* Stat: IsNotExist *)
| FStatErr                    (* Stat: any other error (ENOTDIR, ELOOP, EACCES on a parent, ...) *)
| FReadErr                    (* Stat ok, ReadFile fails (directory, permission) *)
| FFile (dat : bytes).        (* regular readable file *)

(* Go returns (privKey, err); both may be set ("May return a private key + an error") *)
Definition kres : Type := option bytes * option nat.

(* result, and the PEM block (type, body) written to the path, if any *)
Definition open_or_write (pd : pem_oracle) (st : fstate) (gen : option bytes) (write_ok : bool)
  : outcome kres * option (bytes * bytes) :=
  match st with
  | FStatErr => (Ok (None, Some EStat), None)
  | FMissing =>
      match gen with
      | None => (Ok (None, Some EGen), None)
      | Some k =>
          let blk := (pem_priv_type, marshal_priv k) in            (* keypem.MarshalPrivKeyPem *)
          if write_ok then (Ok (Some k, None), Some blk)
          else (Ok (Some k, Some EWrite), None)
      end
  | FReadErr => (Ok (None, Some ERead), None)
  | FFile dat =>
      match parse_priv_key_pem pd dat with
      | Err e => (Ok (None, Some e), None)
      | Ok None => (Ok (None, Some ENoKey), None)
      | Ok (Some k) => (Ok (Some k, None), None)
      | Panic => (Panic, None)
      end
  end.

(* state of the path after the call *)
Definition next_state (pe : bytes -> bytes -> bytes) (st : fstate) (w : option (bytes * bytes)) : fstate :=
  match w with
  | Some (t, b) => FFile (pe t b)
  | None => st
  end.

(* a usable private key: GetPublic and the peer id are defined *)
Definition usable (k : bytes) : Prop := wf_priv k.

(* the peer id of a private key (peer.IDFromPrivateKey) *)
Definition id_of_priv (k : bytes) : outcome bytes := p <- priv_get_public k ;; Ok (id_from_pub p).
