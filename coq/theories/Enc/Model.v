(* Model of peer/encrypt-curve25519.go (EncryptToEd25519, DecryptWithEd25519)
   and of the WebRTC signalling use of it (transport/webrtc/signal.go,
   session.go).  Definitions only.

   Keys: a key pair is identified by its ed25519 seed (a symbolic string);
   the public key is [edpub seed].  Contexts and messages are symbolic strings
   ([lift b] for concrete bytes).  The constants (KDF labels, offsets, the
   length guard) are regenerated from the source into gen/Enc.v. *)
From Bifrost Require Import Lib.Base Lib.Sym Lib.Lex Enc.Prim gen.Enc.

(* error classes *)
Definition E_SHORT : nat := 1.      (* ErrShortMessage *)
Definition E_POINT : nat := 2.      (* ErrInvalidEd25519PubKeyForCurve25519 / unusable ECDH point *)
Definition E_AEAD : nat := 3.       (* chacha20poly1305 open failed *)
Definition E_S2 : nat := 4.         (* s2 decode failed *)
Definition E_MISMATCH : nat := 5.   (* re-derived message key does not match *)
Definition E_KEYLEN : nat := 6.     (* unexpected key length *)
Definition E_UNMARSHAL : nat := 7.  (* WebRtcSignal.UnmarshalVT failed *)

(* third-party behaviour passed in as data *)
Record orc := {
  o_valid : sbytes -> bool;             (* is this 32-byte string an ed25519 point usable for ECDH:
                                           not low order, decodes, ECDH result non-zero *)
  o_s2raw : sbytes -> option sbytes;    (* s2.Decode on something that is not an s2.EncodeBetter output *)
  o_s2len : sbytes -> nat               (* len(s2.EncodeBetter(nil, m)) - 1 *)
}.

Definition nat_of (z : Z) : nat := Z.to_nat z.

(* Go slice expressions on a slice whose capacity is its length *)
Definition slice_to (s : sbytes) (n : Z) : outcome sbytes :=
  if (n <? 0) || (Z.of_nat (length s) <? n) then Panic else Ok (firstn (nat_of n) s).
Definition slice_from (s : sbytes) (n : Z) : outcome sbytes :=
  if (n <? 0) || (Z.of_nat (length s) <? n) then Panic else Ok (skipn (nat_of n) s).
(* var dst [32]byte; copy(dst[:], src) *)
Definition copy32 (src : sbytes) : sbytes :=
  firstn 32 src ++ repeat (B 0) (32 - length (firstn 32 src)).

(* msgNonce := h[:24]; xorHash := h[24:]; msgNonce[i] ^= xorHash[(i+2) % len(xorHash)]
   (h has 32 bytes, so len(xorHash) = 8 and the modulus is never zero).  The
   byte-wise xor of parts of one hash is modelled as a free 24-byte function
   of that hash. *)
Definition nonce_mix (h : sbytes) : sbytes := fapp FN_XOR 24 [h].

Definition msg_seed (ctx msg tpub : sbytes) : sbytes := kdf (lift enc_label_seed ++ ctx) (msg ++ tpub).
Definition msg_nonce (ctx mpub : sbytes) : sbytes := nonce_mix (kdf (lift enc_label_nonce ++ ctx) mpub).
Definition wrap_key (ctx tpub p4 : sbytes) : sbytes := kdf (lift enc_label_prefix ++ ctx) (tpub ++ p4).

(* cipher.Block.Encrypt/Decrypt process ONE 16-byte block: only the first half
   of the 32-byte message public key is wrapped, the second half is copied *)
Definition wrap (akey mpub : sbytes) : sbytes := aes_enc akey (firstn 16 mpub) ++ skipn 16 mpub.
Definition unwrap (akey w : sbytes) : sbytes := aes_dec akey (firstn 16 w) ++ skipn 16 w.

Definition encrypt (o : orc) (tpub ctx msg : sbytes) : outcome sbytes :=
  if negb (Nat.eqb (length tpub) 32) then Err E_KEYLEN else
  let seed := msg_seed ctx msg tpub in
  let mpub := edpub seed in
  let nonce := msg_nonce ctx mpub in
  if negb (o_valid o tpub) then Err E_POINT else
  let pt := s2enc (o_s2len o msg) msg in
  let akey := wrap_key ctx tpub (firstn (nat_of enc_nonce_kdf_len) nonce) in
  let shared := dh seed (mont tpub) in
  Ok (firstn (nat_of enc_nonce_prefix_src) nonce ++ wrap akey mpub ++ seal shared nonce mpub pt).

Definition decrypt (o : orc) (sk ctx ct : sbytes) : outcome sbytes :=
  if Z.of_nat (length ct) <? dec_min_len then Err E_SHORT else
  let tpub := edpub sk in
  p4 <- slice_to ct dec_prefix_len ;;
  let akey := wrap_key ctx tpub p4 in
  wsrc <- slice_from ct dec_wrapped_off ;;
  let mpub := unwrap akey (copy32 wsrc) in
  if negb (o_valid o mpub) then Err E_POINT else
  let mm := mont mpub in
  let shared := dh sk mm in
  let nonce := msg_nonce ctx mpub in
  body <- slice_from ct dec_body_off ;;
  match open shared nonce mpub body with
  | None => Err E_AEAD
  | Some pt =>
      match s2dec (o_s2raw o) pt with
      | None => Err E_S2
      | Some m =>
          let epub := edpub (msg_seed ctx m tpub) in
          if negb (o_valid o epub) then Err E_POINT else
          if sbytes_eqb (mont epub) mm then Ok m else Err E_MISMATCH
      end
  end.

(* ---- WebRTC signalling ---- *)

(* EncodeWebRtcSignal / DecodeWebRtcSignal.  The vtprotobuf codec of
   WebRtcSignal is an oracle pair (marshal, unmarshal). *)
Section Signal.
  Context {signal : Type} (marshal : signal -> bytes) (unmarshal : bytes -> option signal).

  Definition encode_signal (o : orc) (s : signal) (dst_pub : sbytes) : outcome sbytes :=
    encrypt o dst_pub (lift webrtc_ctx) (lift (marshal s)).

  Definition decode_with_ctx (o : orc) (ctx : sbytes) (msg sk : sbytes) : outcome signal :=
    m <- decrypt o sk ctx msg ;;
    match unlift m with
    | Some b => match unmarshal b with Some s => Ok s | None => Err E_UNMARSHAL end
    | None => Err E_UNMARSHAL
    end.

  Definition decode_signal (o : orc) (msg sk : sbytes) : outcome signal :=
    decode_with_ctx o (lift webrtc_ctx) msg sk.
End Signal.

(* isOfferer(a, b) = strings.Compare(a, b) <op> 0, the operator read from the source *)
Definition cmp_holds (op : bytes) (c : comparison) : bool :=
  if bytes_eqb op [60] then match c with Lt => true | _ => false end
  else if bytes_eqb op [62] then match c with Gt => true | _ => false end
  else if bytes_eqb op [60; 61] then match c with Gt => false | _ => true end
  else if bytes_eqb op [62; 61] then match c with Lt => false | _ => true end
  else false.
Definition is_offerer (a b : bytes) : bool := cmp_holds webrtc_offerer_cmp (lex_cmp a b).

(* newSessionTracker: offerer := isOfferer(localPeerIDStr, peerIDStr) *)
Definition args_local_first : bool :=
  bytes_eqb webrtc_offerer_args
    [108;111;99;97;108;80;101;101;114;73;68;83;116;114;44;32;112;101;101;114;73;68;83;116;114].
Definition tracker_offerer (local remote : bytes) : bool :=
  if args_local_first then is_offerer local remote else is_offerer remote local.

(* executeLink: the offerer calls ListenSession(..., <arg>), the answerer
   DialSession(..., <arg>); <arg> is read from the source.  "s.peerID" is the
   tracker's peer (the signalled peer); anything else is modelled as "no
   constraint".  transport/common/quic accepts a session iff the expected peer
   is empty or equals the peer authenticated by the TLS handshake (C03). *)
Definition tracker_peer_expr : bytes := [115;46;112;101;101;114;73;68].
Definition sess_expected (arg tracker_peer : bytes) : bytes :=
  if bytes_eqb arg tracker_peer_expr then tracker_peer else [].
Definition quic_accepts (expected authenticated : bytes) : bool :=
  match expected with [] => true | _ => bytes_eqb expected authenticated end.
Definition link_accepted (offerer : bool) (tracker_peer authenticated : bytes) : bool :=
  quic_accepts
    (sess_expected (if offerer then webrtc_listen_peer_arg else webrtc_dial_peer_arg) tracker_peer)
    authenticated.

(* ---- the negotiation loop of sessionTracker.execute (transport/webrtc/session.go) ----
   One event = one iteration of the loop.  The role is fixed per tracker
   (tracker_offerer).  pion's answers (SetRemoteDescription, CreateOffer,
   CreateAnswer, SetLocalDescription, AddICECandidate succeed or not) are oracle
   bits carried by the events.  A failed tracker emits nothing until the keyed
   routine restarts it. *)
Inductive sdp_kind := KOffer | KAnswer | KOther.
Inductive nev :=
| RxRequestOffer
| RxSdp (k : sdp_kind) (pion_ok : bool)
| RxIce (pion_ok : bool)
| LocalReady (pion_ok : bool)   (* local seqno changed and no signal is pending *)
| Restart.
Inductive nout := TxOffer | TxAnswer | TxRequestOffer | Fail.

Definition nstep (offerer failed : bool) (e : nev) : bool * list nout :=
  match e with
  | Restart => (false, [])
  | RxRequestOffer =>
      if failed then (true, []) else
      if offerer then (false, []) else (true, [Fail])   (* "remote peer requested offer but we are not the offerer" *)
  | RxSdp k ok =>
      if failed then (true, []) else
      (* "Enforce offerer always does the offering" *)
      let role_ok := if offerer then match k with KAnswer => true | _ => false end
                     else match k with KOffer => true | _ => false end in
      if negb role_ok then (true, [Fail]) else
      if negb ok then (true, [Fail]) else
      if offerer then (false, []) else (false, [TxAnswer])
  | RxIce ok => if failed then (true, []) else if ok then (false, []) else (true, [Fail])
  | LocalReady ok =>
      if failed then (true, []) else
      if offerer then (if ok then (false, [TxOffer]) else (true, [Fail])) else (false, [TxRequestOffer])
  end.

Fixpoint nrun (offerer failed : bool) (evs : list nev) : list nout :=
  match evs with
  | [] => []
  | e :: r => let (f', out) := nstep offerer failed e in out ++ nrun offerer f' r
  end.
