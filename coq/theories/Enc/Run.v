(* Correspondence for C12 / C26: the harness runs peer.EncryptToPubKey /
   DecryptWithPrivKey (and EncodeWebRtcSignal / DecodeWebRtcSignal, IsOfferer)
   on real keys and bytes; the model runs on the symbolic counterpart of the
   same inputs and the decisions / equality patterns are compared. *)
From Bifrost Require Import Lib.Base Lib.Sym Lib.Lex Enc.Prim Enc.Model gen.Enc.

(* messages: concrete bytes, or an opaque atom standing for a large message *)
Inductive msgd := MB (b : bytes) | MA (id len : nat).
Definition msg_of (d : msgd) : sbytes :=
  match d with MB b => lift b | MA id len => fapp FN_ATOM len [lift [Z.of_nat id]] end.
(* key pair number k of the harness *)
Definition key_of (k : nat) : sbytes := fapp FN_ATOM 32 [lift [Z.of_nat k; 107]].

(* an honest encryption: key index, context, message, len(s2(msg)) - 1 *)
Definition encspec : Type := (nat * bytes * msgd * nat)%type.

Inductive mutation :=
| MNone
| MFlip (pos : nat) (d : Z)        (* c[pos] ^= d, d <> 0 *)
| MSet (pos : nat) (z : Z)         (* c[pos] = z (a value different from the original) *)
| MTrunc (n : nat)                 (* c[:n] *)
| MExt (extra : bytes)             (* append(c, extra...) *)
| MRaw (b : bytes)                 (* arbitrary bytes *)
| MSplice (n : nat) (other : encspec). (* c[:n] ++ other[n:] *)

Fixpoint set_nth {A} (n : nat) (f : A -> A) (l : list A) : list A :=
  match l with
  | [] => []
  | x :: l' => match n with O => f x :: l' | S n' => x :: set_nth n' f l' end
  end.

Inductive obs12 := ObsOk (same : bool) | ObsErr (cls : nat) | ObsPanic.
Definition obs12_eqb (a b : obs12) : bool :=
  match a, b with
  | ObsOk x, ObsOk y => Bool.eqb x y
  | ObsErr x, ObsErr y => Nat.eqb x y
  | ObsPanic, ObsPanic => true
  | _, _ => false
  end.

(* error classes the harness can tell apart without looking at error strings *)
Definition coarse (k : nat) : nat := if Nat.leb k 2 then k else 3%nat.

Definition mk_orc (vbit : bool) (tab : list (sbytes * nat)) : orc :=
  {| o_valid := fun blk => match arg1 FN_EDPUB 32 blk with Some _ => true | None => vbit end;
     o_s2raw := fun _ => None;
     o_s2len := fun m => match find (fun e => sbytes_eqb (fst e) m) tab with Some e => snd e | None => 0%nat end |}.

Definition enc_of (o : orc) (e : encspec) : outcome sbytes :=
  let '(k, ctx, m, _) := e in encrypt o (edpub (key_of k)) (lift ctx) (msg_of m).

Definition apply_mut (o : orc) (c : sbytes) (mu : mutation) : outcome sbytes :=
  match mu with
  | MNone => Ok c
  | MFlip p d => Ok (set_nth p (fun x => mut_byte x d) c)
  | MSet p z => Ok (set_nth p (fun _ => B z) c)
  | MTrunc n => Ok (firstn n c)
  | MExt e => Ok (c ++ lift e)
  | MRaw b => Ok (lift b)
  | MSplice n e => c2 <- enc_of o e ;; Ok (firstn n c ++ skipn n c2)
  end.

Definition tab_of (e : encspec) (mu : mutation) : list (sbytes * nat) :=
  let '(_, _, m, n) := e in
  (msg_of m, n) :: match mu with MSplice _ (_, _, m2, n2) => [(msg_of m2, n2)] | _ => [] end.

Definition run12 (e : encspec) (mu : mutation) (kD : nat) (ctxD : bytes) (vbit : bool) : obs12 :=
  let o := mk_orc vbit (tab_of e mu) in
  let '(_, _, m, _) := e in
  match enc_of o e with
  | Ok c =>
      match apply_mut o c mu with
      | Ok c' =>
          match decrypt o (key_of kD) (lift ctxD) c' with
          | Ok m' => ObsOk (sbytes_eqb m' (msg_of m))
          | Err k => ObsErr (coarse k)
          | Panic => ObsPanic
          end
      | _ => ObsErr 99%nat
      end
  | Err k => ObsErr (100 + k)%nat
  | Panic => ObsPanic
  end.

Inductive c12_case :=
| Enc12 (e : encspec) (mu : mutation) (kD : nat) (ctxD : bytes) (vbit : bool) (obs : obs12)
(* encryption to an unusable public key (concrete bytes) *)
| EncBad (pub : bytes) (ctx : bytes) (m : bytes) (vbit : bool) (obs : obs12).

Definition c12_agree (c : c12_case) : bool :=
  match c with
  | Enc12 e mu kD ctxD vbit obs => obs12_eqb (run12 e mu kD ctxD vbit) obs
  | EncBad pub ctx m vbit obs =>
      let o := {| o_valid := fun _ => vbit; o_s2raw := fun _ => None; o_s2len := fun _ => 0%nat |} in
      obs12_eqb (match encrypt o (lift pub) (lift ctx) (lift m) with
                 | Ok _ => ObsOk true | Err k => ObsErr (coarse k) | Panic => ObsPanic end) obs
  end.

(* C26 *)
Inductive c26_case :=
(* signal with wire form [wire] encoded for key kE, payload mutated, decoded with
   key kD under the WebRTC context (ctxD = None) or another context *)
| Sig26 (kE : nat) (wire : bytes) (s2n : nat) (mu : mutation) (kD : nat) (ctxD : option bytes)
        (vbit : bool) (obs : obs12)
| Role26 (a b : bytes) (obs_ab obs_ba : bool)
| Ctx26 (ctx : bytes)
(* the real link routine in the given role against a counterpart that
   authenticates as the signalled peer (same = true) or as another identity *)
| Link26 (offerer same : bool) (obs_established : bool)
(* the real session tracker in the given role fed with the events by a fake
   signaling session; observed: did the local peer transmit an SDP answer / an
   SDP offer / a request for an offer *)
| Neg26 (offerer : bool) (evs : list nev) (tx_answer tx_offer tx_request : bool).

Definition c26_agree (c : c26_case) : bool :=
  match c with
  | Sig26 kE wire s2n mu kD ctxD vbit obs =>
      let ctx := match ctxD with None => webrtc_ctx | Some x => x end in
      let o := mk_orc vbit [(lift wire, s2n)] in
      let r :=
        match encode_signal (fun b : bytes => b) o wire (edpub (key_of kE)) with
        | Ok c =>
            match apply_mut o c mu with
            | Ok c' =>
                match decode_with_ctx (fun b : bytes => Some b) o (lift ctx) c' (key_of kD) with
                | Ok w => ObsOk (bytes_eqb w wire)
                | Err k => ObsErr (coarse k)
                | Panic => ObsPanic
                end
            | _ => ObsErr 99%nat
            end
        | Err k => ObsErr (100 + k)%nat
        | Panic => ObsPanic
        end in
      obs12_eqb r obs
  | Role26 a b oab oba =>
      Bool.eqb (is_offerer a b) oab && Bool.eqb (is_offerer b a) oba
  | Ctx26 ctx => bytes_eqb ctx webrtc_ctx
  | Neg26 offerer evs txa txo txr =>
      let outs := nrun offerer false evs in
      Bool.eqb (existsb (fun x => match x with TxAnswer => true | _ => false end) outs) txa
      && implb txo offerer && implb txr (negb offerer)
  | Link26 offerer same est =>
      Bool.eqb (link_accepted offerer [1] (if same then [1] else [2])) est
  end.
