(* Facts about the symbolic primitives of Prim.v. *)
From Bifrost Require Import Lib.Base Lib.Sym Enc.Prim.

Lemma expand1_run f args i n : expand1 (run_sym (F f args i) n) = map (F f args) (seq i (S n)).
Proof. reflexivity. Qed.

Lemma same_run_spec f args i y n : same_run f args i y = Some n -> y = run_sym (F f args (S i)) n.
Proof.
  unfold same_run. destruct y as [z|fn l m]; [discriminate|].
  destruct l as [|y [|? ?]]; try discriminate; [|destruct y; discriminate].
  destruct y as [z|f' args' i']; [discriminate|].
  destruct (Nat.eqb fn FN_RUN) eqn:E1; [|discriminate].
  destruct (Nat.eqb f f') eqn:E2; [|discriminate].
  destruct (Nat.eqb i' (S i)) eqn:E3; [|discriminate].
  destruct (list_eqb sym_eqb args args') eqn:E4; [|discriminate].
  cbn. intros H; inversion H; subst. apply Nat.eqb_eq in E1, E2, E3.
  apply (list_eqb_spec sym_eqb sym_eqb_spec) in E4. subst. reflexivity.
Qed.

Lemma expand_compress l : expand (compress l) = l.
Proof.
  unfold expand. induction l as [|x l IH]; [reflexivity|].
  destruct x as [z|f args i]; cbn [compress].
  - cbn [flat_map expand1 app]. f_equal. exact IH.
  - destruct (compress l) as [|y r] eqn:EC.
    + cbn [flat_map] in IH. subst l. cbn [flat_map]. rewrite expand1_run. reflexivity.
    + destruct (same_run f args i y) as [n|] eqn:ES.
      * apply same_run_spec in ES. subst y. cbn [flat_map] in IH |- *.
        rewrite expand1_run in IH. rewrite expand1_run. rewrite <- IH.
        cbn [seq map app]. reflexivity.
      * cbn [flat_map] in IH |- *. rewrite expand1_run. rewrite IH. reflexivity.
Qed.

Lemma unpack_pack a : unpack (pack a) = Some a.
Proof. unfold unpack, pack. rewrite expand_compress. reflexivity. Qed.

Lemma pack_inj a b : pack a = pack b -> a = b.
Proof. intros H. apply (f_equal unpack) in H. rewrite !unpack_pack in H. inversion H. reflexivity. Qed.

Lemma map_pack_inj l l' : map pack l = map pack l' -> l = l'.
Proof.
  revert l'; induction l as [|a l IH]; intros [|b l'] H; cbn [map] in H; try discriminate; auto.
  pose proof (f_equal (hd (B 0)) H) as H1. pose proof (f_equal (@tl sym) H) as H2. cbn [hd tl] in H1, H2.
  apply pack_inj in H1. f_equal; auto.
Qed.

Lemma unpack_all_map_pack l : unpack_all (map pack l) = Some l.
Proof. induction l as [|a l IH]; cbn [map unpack_all]; [reflexivity|]. rewrite unpack_pack, IH. reflexivity. Qed.

Lemma fapp_length f n l : length (fapp f n l) = n.
Proof. apply fout_length. Qed.

Lemma fapp_inj f n l f' n' l' :
  (0 < n)%nat -> fapp f n l = fapp f' n' l' -> f = f' /\ n = n' /\ l = l'.
Proof.
  intros Hn H. assert (n = n') by (rewrite <- (fapp_length f n l), H; apply fapp_length).
  subst n'. unfold fapp in H. apply fout_inj in H; [|exact Hn]. destruct H as [-> H].
  repeat split; auto. apply map_pack_inj, H.
Qed.

Lemma fapp_head f n l : fapp f (S n) l = F f (map pack l) 0%nat :: map (F f (map pack l)) (seq 1 n).
Proof. reflexivity. Qed.

Lemma unfapp_fapp f n l : (0 < n)%nat -> unfapp (fapp f n l) = Some (f, l).
Proof.
  intros Hn. destruct n as [|n]; [lia|]. unfold unfapp. rewrite fapp_head.
  rewrite unpack_all_map_pack. rewrite <- fapp_head, fapp_length.
  replace (sbytes_eqb _ _) with true; [reflexivity|]. symmetry. apply sbytes_eqb_spec. reflexivity.
Qed.

Lemma unfapp_spec s f l : unfapp s = Some (f, l) -> s = fapp f (length s) l /\ (0 < length s)%nat.
Proof.
  unfold unfapp. destruct s as [|x s]; [discriminate|]. destruct x as [z|g args i]; [discriminate|].
  destruct i; [|discriminate]. destruct (unpack_all args) as [l0|] eqn:E; [|discriminate].
  destruct (sbytes_eqb _ _) eqn:E2; [|discriminate]. intros H; inversion H; subst.
  apply sbytes_eqb_spec in E2. split; [exact E2|cbn; lia].
Qed.

Lemma unfapp_nil : unfapp [] = None.
Proof. reflexivity. Qed.

(* arg1 *)
Lemma arg1_fapp fn n x : (0 < n)%nat -> arg1 fn n (fapp fn n [x]) = Some x.
Proof.
  intros Hn. unfold arg1. rewrite unfapp_fapp by exact Hn. rewrite fapp_length, !Nat.eqb_refl. reflexivity.
Qed.

Lemma arg1_spec fn n s x : arg1 fn n s = Some x -> s = fapp fn n [x].
Proof.
  unfold arg1. destruct (unfapp s) as [[f l]|] eqn:E; [|discriminate].
  destruct l as [|y [|? ?]]; try discriminate.
  destruct (Nat.eqb f fn) eqn:E1; [|discriminate]. destruct (Nat.eqb (length s) n) eqn:E2; [|discriminate].
  cbn. intros H; inversion H; subst. apply Nat.eqb_eq in E1, E2. subst.
  apply unfapp_spec in E. tauto.
Qed.

Lemma arg1_other fn n f m l : f <> fn -> arg1 fn n (fapp f m l) = None.
Proof.
  intros Hf. unfold arg1. destruct m as [|m]; [reflexivity|].
  rewrite unfapp_fapp by lia. destruct l as [|y [|? ?]]; try reflexivity.
  apply Nat.eqb_neq in Hf. rewrite Hf. reflexivity.
Qed.

(* the order *)
Lemma sym_cmp_eq : forall a b, sym_cmp a b = Eq -> a = b.
Proof.
  induction a as [z|fn arg i IH] using sym_ind'; intros [y|g ys j]; cbn [sym_cmp]; try discriminate.
  - intros H. apply Z.compare_eq in H. congruence.
  - destruct (Nat.compare_spec fn g); try discriminate. destruct (Nat.compare_spec i j); try discriminate.
    subst. intros H. f_equal. revert ys H.
    induction IH as [|x l Hx Hl IHl]; intros [|y ys]; cbn [list_cmp]; try discriminate; auto.
    destruct (sym_cmp x y) eqn:E; try discriminate. intros H. apply Hx in E. subst. f_equal. apply IHl, H.
Qed.

Lemma sym_cmp_antisym : forall a b, sym_cmp b a = CompOpp (sym_cmp a b).
Proof.
  induction a as [z|fn arg i IH] using sym_ind'; intros [y|g ys j]; cbn [sym_cmp]; try reflexivity.
  - apply Z.compare_antisym.
  - rewrite (Nat.compare_antisym fn g). destruct (Nat.compare fn g); cbn [CompOpp]; try reflexivity.
    rewrite (Nat.compare_antisym i j). destruct (Nat.compare i j); cbn [CompOpp]; try reflexivity.
    revert ys. induction IH as [|x l Hx Hl IHl]; intros [|y ys]; cbn [list_cmp]; try reflexivity.
    rewrite Hx. destruct (sym_cmp x y); cbn [CompOpp]; auto.
Qed.

Lemma sbytes_cmp_eq : forall a b, sbytes_cmp a b = Eq -> a = b.
Proof.
  unfold sbytes_cmp. induction a as [|x a IH]; intros [|y b]; cbn [list_cmp]; try discriminate; auto.
  destruct (sym_cmp x y) eqn:E; try discriminate. intros H. apply sym_cmp_eq in E. subst. f_equal. auto.
Qed.

Lemma sbytes_cmp_antisym : forall a b, sbytes_cmp b a = CompOpp (sbytes_cmp a b).
Proof.
  unfold sbytes_cmp. induction a as [|x a IH]; intros [|y b]; cbn [list_cmp]; try reflexivity.
  rewrite (sym_cmp_antisym x y). destruct (sym_cmp x y); cbn [CompOpp]; auto.
Qed.

Lemma upair_sym a b : upair a b = upair b a.
Proof.
  unfold upair. rewrite (sbytes_cmp_antisym a b).
  destruct (sbytes_cmp a b) eqn:E; cbn [CompOpp]; try reflexivity.
  apply sbytes_cmp_eq in E. subst. reflexivity.
Qed.

Lemma upair_cases a b : upair a b = (a, b) \/ upair a b = (b, a).
Proof. unfold upair. destruct (sbytes_cmp a b); auto. Qed.

(* Diffie-Hellman *)
Lemma dh_honest a b :
  dh a (mont (edpub b)) = let (x, y) := upair a b in fapp FN_DH 32 [x; y].
Proof.
  unfold dh, mont. rewrite arg1_fapp by lia. unfold edpub. rewrite arg1_fapp by lia. reflexivity.
Qed.

Lemma dh_comm a b : dh a (mont (edpub b)) = dh b (mont (edpub a)).
Proof. rewrite !dh_honest, (upair_sym a b). reflexivity. Qed.

Lemma dh_honest_inj a b a' b' :
  dh a (mont (edpub b)) = dh a' (mont (edpub b')) -> (a = a' /\ b = b') \/ (a = b' /\ b = a').
Proof.
  rewrite !dh_honest.
  destruct (upair_cases a b) as [E|E], (upair_cases a' b') as [E'|E']; rewrite E, E'; intros H;
    apply fapp_inj in H; try lia; destruct H as (_ & _ & H); inversion H; subst; auto.
Qed.

(* the result is either a shared secret of two key pairs or a raw value *)
Lemma dh_shape seed pt :
  (exists s2, pt = mont (edpub s2) /\ dh seed pt = dh seed (mont (edpub s2))) \/
  dh seed pt = fapp FN_DHRAW 32 [seed; pt].
Proof.
  destruct (arg1 FN_MONT 32 pt) as [blk|] eqn:E1; [|right; unfold dh; rewrite E1; reflexivity].
  destruct (arg1 FN_EDPUB 32 blk) as [s2|] eqn:E2.
  - left. exists s2. apply arg1_spec in E1, E2. subst. split; reflexivity.
  - right. unfold dh. rewrite E1, E2. reflexivity.
Qed.

Lemma dh_raw_ne_honest seed pt a b :
  arg1 FN_MONT 32 pt = None \/ (exists blk, arg1 FN_MONT 32 pt = Some blk /\ arg1 FN_EDPUB 32 blk = None) ->
  dh seed pt <> dh a (mont (edpub b)).
Proof.
  intros H. rewrite dh_honest. destruct (upair a b) as [x y].
  assert (E : dh seed pt = fapp FN_DHRAW 32 [seed; pt]).
  { unfold dh. destruct H as [H|(blk & H1 & H2)]; [rewrite H|rewrite H1, H2]; reflexivity. }
  rewrite E. intros C. apply fapp_inj in C; [|lia]. destruct C as (C & _). discriminate.
Qed.

(* AEAD *)
Lemma seal_length k n a p : length (seal k n a p) = (length p + tag_len)%nat.
Proof. apply fapp_length. Qed.

Lemma open_seal k n a p : open k n a (seal k n a p) = Some p.
Proof.
  unfold open, seal. rewrite unfapp_fapp by (unfold tag_len; lia).
  rewrite fapp_length, !Nat.eqb_refl.
  replace (sbytes_eqb k k) with true by (symmetry; apply sbytes_eqb_spec; reflexivity).
  replace (sbytes_eqb n n) with true by (symmetry; apply sbytes_eqb_spec; reflexivity).
  replace (sbytes_eqb a a) with true by (symmetry; apply sbytes_eqb_spec; reflexivity).
  reflexivity.
Qed.

Lemma open_spec k n a ct p : open k n a ct = Some p -> ct = seal k n a p.
Proof.
  unfold open. destruct (unfapp ct) as [[f l]|] eqn:E; [|discriminate].
  destruct l as [|k' [|n' [|a' [|p' [|? ?]]]]]; try discriminate.
  destruct (Nat.eqb f FN_SEAL) eqn:E1; [|discriminate].
  destruct (sbytes_eqb k' k) eqn:E2; [|discriminate].
  destruct (sbytes_eqb n' n) eqn:E3; [|discriminate].
  destruct (sbytes_eqb a' a) eqn:E4; [|discriminate].
  destruct (Nat.eqb (length ct) (length p' + tag_len)) eqn:E5; [|discriminate].
  cbn. intros H; inversion H; subst.
  apply Nat.eqb_eq in E1, E5. apply sbytes_eqb_spec in E2, E3, E4. subst.
  apply unfapp_spec in E. destruct E as [E _]. unfold seal. rewrite <- E5. exact E.
Qed.

Lemma open_iff k n a ct p : open k n a ct = Some p <-> ct = seal k n a p.
Proof. split; [apply open_spec|intros ->; apply open_seal]. Qed.

Lemma seal_inj k n a p k' n' a' p' :
  seal k n a p = seal k' n' a' p' -> k = k' /\ n = n' /\ a = a' /\ p = p'.
Proof.
  unfold seal. intros H. apply fapp_inj in H; [|unfold tag_len; lia].
  destruct H as (_ & _ & H). inversion H. auto.
Qed.

(* AES block *)
Lemma aes_enc_length k b : length (aes_enc k b) = 16%nat.
Proof. apply fapp_length. Qed.

Lemma aes_dec_enc k b : length b = 16%nat -> aes_dec k (aes_enc k b) = b.
Proof.
  intros Hb. unfold aes_dec, aes_enc. rewrite unfapp_fapp by lia. rewrite fapp_length, Hb.
  replace (sbytes_eqb k k) with true by (symmetry; apply sbytes_eqb_spec; reflexivity).
  reflexivity.
Qed.

Lemma aes_dec_cases k c :
  (exists b, c = aes_enc k b /\ length b = 16%nat /\ aes_dec k c = b) \/
  aes_dec k c = fapp FN_AESD 16 [k; c].
Proof.
  unfold aes_dec. destruct (unfapp c) as [[f l]|] eqn:E; [|right; reflexivity].
  destruct l as [|k' [|b [|? ?]]]; try (right; reflexivity).
  destruct (Nat.eqb f FN_AES) eqn:E1; [|right; reflexivity].
  destruct (sbytes_eqb k' k) eqn:E2; [|right; reflexivity].
  destruct (Nat.eqb (length b) 16) eqn:E3; [|right; reflexivity].
  destruct (Nat.eqb (length c) 16) eqn:E4; [|right; reflexivity].
  left. exists b. apply Nat.eqb_eq in E1, E3, E4. apply sbytes_eqb_spec in E2. subst.
  apply unfapp_spec in E. destruct E as [E _]. rewrite E4 in E. cbn. auto.
Qed.

Lemma aes_dec_length k c : length (aes_dec k c) = 16%nat.
Proof.
  destruct (aes_dec_cases k c) as [(b & _ & Hb & ->) | ->]; [exact Hb|apply fapp_length].
Qed.

(* s2 *)
Lemma s2dec_enc raw n m : s2dec raw (s2enc n m) = Some m.
Proof. unfold s2dec, s2enc. rewrite unfapp_fapp by lia. reflexivity. Qed.

(* unlift *)
Lemma unlift_lift b : unlift (lift b) = Some b.
Proof. induction b as [|x b IH]; cbn; [reflexivity|]. unfold lift in IH. rewrite IH. reflexivity. Qed.

Lemma unlift_spec s b : unlift s = Some b -> s = lift b.
Proof.
  revert b; induction s as [|x s IH]; intros b; cbn.
  - intros H; inversion H. reflexivity.
  - destruct x as [z|]; cbn; [|discriminate]. destruct (unlift s); [|discriminate].
    intros H; inversion H. cbn. f_equal. apply IH. reflexivity.
Qed.

(* bytes of a free-function output *)
Lemma in_fapp x f n l : In x (fapp f n l) -> exists i, x = F f (map pack l) i.
Proof.
  unfold fapp, fout. intros H. apply in_map_iff in H. destruct H as (i & <- & _). eauto.
Qed.

Lemma nth_fapp f n l i : (i < n)%nat -> nth_error (fapp f n l) i = Some (F f (map pack l) i).
Proof.
  intros Hi. unfold fapp, fout. rewrite nth_error_map, (nth_error_nth' _ 0%nat) by (rewrite seq_length; lia).
  rewrite seq_nth by lia. reflexivity.
Qed.

(* a string all of whose bytes are output bytes of the same application and
   that is a complete output is that output *)
Lemma fapp_all_same s f l :
  s = fapp f (length s) l -> forall x, In x s -> exists i, x = F f (map pack l) i.
Proof. intros -> x. apply in_fapp. Qed.
