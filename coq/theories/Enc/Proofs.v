(* Proofs about the encryption model (C12) and its WebRTC use (C26). *)
From Bifrost Require Import Lib.Base Lib.Sym Lib.Lex Enc.Prim Enc.PrimFacts Enc.Model gen.Enc.

(* ---- list helpers ---- *)
Lemma app_eq_len {A} (a a' b b' : list A) :
  length a = length a' -> a ++ b = a' ++ b' -> a = a' /\ b = b'.
Proof.
  revert a'; induction a as [|x a IH]; intros [|y a'] HL H; cbn in *; try discriminate; auto.
  inversion H; subst. destruct (IH a') as [-> ->]; auto.
Qed.

Lemma in_firstn {A} n (l : list A) x : In x (firstn n l) -> In x l.
Proof. intros H. rewrite <- (firstn_skipn n l). apply in_or_app; auto. Qed.
Lemma in_skipn {A} n (l : list A) x : In x (skipn n l) -> In x l.
Proof. intros H. rewrite <- (firstn_skipn n l). apply in_or_app; auto. Qed.

Lemma firstn_app_exact {A} (a b : list A) n : length a = n -> firstn n (a ++ b) = a.
Proof. intros <-. induction a as [|x a IH]; cbn; [destruct b; reflexivity|f_equal; exact IH]. Qed.
Lemma skipn_app_exact {A} (a b : list A) n : length a = n -> skipn n (a ++ b) = b.
Proof. intros <-. induction a as [|x a IH]; cbn; auto. Qed.

Lemma firstn_map_seq {A} (g : nat -> A) k n : (k <= n)%nat -> firstn k (map g (seq 0 n)) = map g (seq 0 k).
Proof.
  intros H. rewrite firstn_map. f_equal. replace n with (k + (n - k))%nat by lia.
  rewrite seq_app, firstn_app, seq_length, Nat.sub_diag. cbn [firstn].
  rewrite app_nil_r. apply firstn_all2. rewrite seq_length. lia.
Qed.

Lemma firstn_fapp f k n l : (k <= n)%nat -> firstn k (fapp f n l) = fapp f k l.
Proof. intros H. unfold fapp, fout. apply firstn_map_seq, H. Qed.

Lemma lift_app_inv_head (p : bytes) (a b : sbytes) : lift p ++ a = lift p ++ b -> a = b.
Proof. apply app_inv_head. Qed.

(* ---- the constants read from the source have the values the layout needs ---- *)
Lemma consts_ok :
  dec_min_len = 36 /\ dec_prefix_len = 4 /\ dec_wrapped_off = 4 /\ dec_body_off = 36 /\
  enc_nonce_prefix_src = 4 /\ enc_nonce_kdf_len = 4 /\ enc_nonce_prefix_len = 4 /\ enc_header_len = 36.
Proof. repeat split; reflexivity. Qed.

Lemma nonce_mix_length h : length (nonce_mix h) = 24%nat.
Proof. unfold nonce_mix. rewrite map_length, seq_length. reflexivity. Qed.
Lemma msg_nonce_length ctx mpub : length (msg_nonce ctx mpub) = 24%nat.
Proof. apply nonce_mix_length. Qed.
Lemma edpub_length s : length (edpub s) = 32%nat.
Proof. apply fapp_length. Qed.

Lemma copy32_long s : (32 <= length s)%nat -> copy32 s = firstn 32 s.
Proof.
  intros H. unfold copy32. rewrite firstn_length_le by exact H. cbn. apply app_nil_r.
Qed.

(* decrypt with the offsets resolved: no partial operation is left *)
Definition decrypt_flat (o : orc) (sk ctx ct : sbytes) : outcome sbytes :=
  if (length ct <? 36)%nat then Err E_SHORT else
  let tpub := edpub sk in
  let mpub := unwrap (wrap_key ctx tpub (firstn 4 ct)) (firstn 32 (skipn 4 ct)) in
  if negb (o_valid o mpub) then Err E_POINT else
  match open (dh sk (mont mpub)) (msg_nonce ctx mpub) mpub (skipn 36 ct) with
  | None => Err E_AEAD
  | Some pt =>
      match s2dec (o_s2raw o) pt with
      | None => Err E_S2
      | Some m =>
          let epub := edpub (msg_seed ctx m tpub) in
          if negb (o_valid o epub) then Err E_POINT else
          if sbytes_eqb (mont epub) (mont mpub) then Ok m else Err E_MISMATCH
      end
  end.

Lemma decrypt_eq o sk ctx ct : decrypt o sk ctx ct = decrypt_flat o sk ctx ct.
Proof.
  unfold decrypt, decrypt_flat.
  change dec_min_len with 36. change dec_prefix_len with 4. change dec_wrapped_off with 4.
  change dec_body_off with 36.
  destruct (Z.of_nat (length ct) <? 36) eqn:E.
  - replace (length ct <? 36)%nat with true by (symmetry; apply Nat.ltb_lt; lia). reflexivity.
  - replace (length ct <? 36)%nat with false by (symmetry; apply Nat.ltb_ge; lia).
    assert (HL : (36 <= length ct)%nat) by lia.
    unfold slice_to, slice_from.
    replace (Z.of_nat (length ct) <? 4) with false by lia.
    replace (Z.of_nat (length ct) <? 36) with false by lia.
    cbn [orb Z.ltb Z.compare obind]. unfold nat_of.
    change (Z.to_nat 4) with 4%nat. change (Z.to_nat 36) with 36%nat.
    rewrite copy32_long by (rewrite skipn_length; lia). reflexivity.
Qed.

(* C12 totality: no input makes decryption panic *)
Lemma decrypt_total o sk ctx ct : decrypt o sk ctx ct <> Panic.
Proof.
  rewrite decrypt_eq. unfold decrypt_flat.
  destruct (length ct <? 36)%nat; [discriminate|]. cbv zeta.
  destruct (negb (o_valid o _)); [discriminate|].
  destruct (open _ _ _ _); [|discriminate].
  destruct (s2dec _ _); [|discriminate].
  destruct (negb (o_valid o _)); [discriminate|].
  destruct (sbytes_eqb _ _); discriminate.
Qed.

Lemma decrypt_short o sk ctx ct : (length ct < 36)%nat -> decrypt o sk ctx ct = Err E_SHORT.
Proof.
  intros H. rewrite decrypt_eq. unfold decrypt_flat.
  replace (length ct <? 36)%nat with true by (symmetry; apply Nat.ltb_lt; lia). reflexivity.
Qed.

Lemma encrypt_total o tpub ctx m : encrypt o tpub ctx m <> Panic.
Proof.
  unfold encrypt. destruct (negb (Nat.eqb (length tpub) 32)); [discriminate|].
  destruct (negb (o_valid o tpub)); discriminate.
Qed.

(* ---- the honest ciphertext ---- *)
Definition enc_ct (o : orc) (tpub ctx msg : sbytes) : sbytes :=
  let seed := msg_seed ctx msg tpub in
  let mpub := edpub seed in
  let nonce := msg_nonce ctx mpub in
  firstn 4 nonce ++ wrap (wrap_key ctx tpub (firstn 4 nonce)) mpub
    ++ seal (dh seed (mont tpub)) nonce mpub (s2enc (o_s2len o msg) msg).

Definition honest_orc (o : orc) : Prop := forall s, o_valid o (edpub s) = true.

Lemma encrypt_ok_inv o tpub ctx m c :
  encrypt o tpub ctx m = Ok c -> length tpub = 32%nat /\ o_valid o tpub = true /\ c = enc_ct o tpub ctx m.
Proof.
  unfold encrypt. destruct (Nat.eqb (length tpub) 32) eqn:E; cbn [negb]; [|discriminate].
  destruct (o_valid o tpub) eqn:V; cbn [negb]; [|discriminate].
  intros H. inversion H. apply Nat.eqb_eq in E. repeat split; auto.
Qed.

Lemma encrypt_valid o tpub ctx m :
  length tpub = 32%nat -> o_valid o tpub = true -> encrypt o tpub ctx m = Ok (enc_ct o tpub ctx m).
Proof.
  intros HL HV. unfold encrypt. rewrite HL, HV. reflexivity.
Qed.

Lemma encrypt_honest o sk ctx m :
  honest_orc o -> encrypt o (edpub sk) ctx m = Ok (enc_ct o (edpub sk) ctx m).
Proof. intros H. apply encrypt_valid; [apply edpub_length|apply H]. Qed.

Lemma wrap_length k mpub : length mpub = 32%nat -> length (wrap k mpub) = 32%nat.
Proof. intros H. unfold wrap. rewrite app_length, aes_enc_length, skipn_length. lia. Qed.

Lemma unwrap_wrap k mpub : length mpub = 32%nat -> unwrap k (wrap k mpub) = mpub.
Proof.
  intros H. unfold unwrap, wrap.
  rewrite firstn_app_exact by apply aes_enc_length.
  rewrite skipn_app_exact by apply aes_enc_length.
  rewrite aes_dec_enc by (apply firstn_length_le; lia). apply firstn_skipn.
Qed.

(* the three regions of the honest ciphertext *)
Section Regions.
  Variables (o : orc) (tpub ctx msg : sbytes).
  Let seed := msg_seed ctx msg tpub.
  Let mpub := edpub seed.
  Let nonce := msg_nonce ctx mpub.
  Let c := enc_ct o tpub ctx msg.

  Lemma n4_length : length (firstn 4 nonce) = 4%nat.
  Proof. apply firstn_length_le. unfold nonce. rewrite msg_nonce_length. lia. Qed.

  Lemma enc_ct_p4 : firstn 4 c = firstn 4 nonce.
  Proof. unfold c, enc_ct. fold seed mpub nonce. apply firstn_app_exact, n4_length. Qed.

  Lemma enc_ct_tail : skipn 4 c = wrap (wrap_key ctx tpub (firstn 4 nonce)) mpub
      ++ seal (dh seed (mont tpub)) nonce mpub (s2enc (o_s2len o msg) msg).
  Proof. unfold c, enc_ct. fold seed mpub nonce. apply skipn_app_exact, n4_length. Qed.

  Lemma enc_ct_w : firstn 32 (skipn 4 c) = wrap (wrap_key ctx tpub (firstn 4 nonce)) mpub.
  Proof. rewrite enc_ct_tail. apply firstn_app_exact, wrap_length, edpub_length. Qed.

  Lemma enc_ct_body : skipn 36 c = seal (dh seed (mont tpub)) nonce mpub (s2enc (o_s2len o msg) msg).
  Proof.
    replace (skipn 36 c) with (skipn 32 (skipn 4 c)).
    - rewrite enc_ct_tail. apply skipn_app_exact, wrap_length, edpub_length.
    - unfold c. generalize (enc_ct o tpub ctx msg). intros l.
      do 4 (destruct l as [|? l]; [reflexivity|]). reflexivity.
  Qed.

  Lemma enc_ct_length : (36 <= length c)%nat.
  Proof.
    unfold c, enc_ct. fold seed mpub nonce. rewrite !app_length, n4_length.
    rewrite wrap_length by apply edpub_length. lia.
  Qed.
End Regions.
