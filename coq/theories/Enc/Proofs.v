(* Proofs about the encryption model (C12) and its WebRTC use (C26). *)
From Bifrost Require Import Lib.Base Lib.Sym Lib.Lex Enc.Prim Enc.PrimFacts Enc.Model gen.Enc.

(* ---- list helpers ---- *)
Lemma app_eq_len {A} (a a' b b' : list A) :
  length a = length a' -> a ++ b = a' ++ b' -> a = a' /\ b = b'.
Proof.
  revert a'; induction a as [|x a IH]; intros [|y a'] HL H; cbn in *; try discriminate; auto.
  inversion H; subst. destruct (IH a') as [-> ->]; auto.
Qed.

Lemma in_firstn {A} n (l : list A) x : In x (firstn n l) -> In x l.
Proof. intros H. rewrite <- (firstn_skipn n l). apply in_or_app; auto. Qed.
Lemma in_skipn {A} n (l : list A) x : In x (skipn n l) -> In x l.
Proof. intros H. rewrite <- (firstn_skipn n l). apply in_or_app; auto. Qed.

Lemma firstn_app_exact {A} (a b : list A) n : length a = n -> firstn n (a ++ b) = a.
Proof. intros <-. induction a as [|x a IH]; cbn; [destruct b; reflexivity|f_equal; exact IH]. Qed.
Lemma skipn_app_exact {A} (a b : list A) n : length a = n -> skipn n (a ++ b) = b.
Proof. intros <-. induction a as [|x a IH]; cbn; auto. Qed.

Lemma firstn_map_seq {A} (g : nat -> A) k n : (k <= n)%nat -> firstn k (map g (seq 0 n)) = map g (seq 0 k).
Proof.
  intros H. rewrite firstn_map. f_equal. replace n with (k + (n - k))%nat by lia.
  rewrite seq_app, firstn_app, seq_length, Nat.sub_diag. cbn [firstn].
  rewrite app_nil_r. apply firstn_all2. rewrite seq_length. lia.
Qed.

Lemma firstn_fapp f k n l : (k <= n)%nat -> firstn k (fapp f n l) = fapp f k l.
Proof. intros H. unfold fapp, fout. apply firstn_map_seq, H. Qed.

Lemma lift_app_inv_head (p : bytes) (a b : sbytes) : lift p ++ a = lift p ++ b -> a = b.
Proof. apply app_inv_head. Qed.

(* ---- the constants read from the source have the values the layout needs ---- *)
Lemma consts_ok :
  dec_min_len = 36 /\ dec_prefix_len = 4 /\ dec_wrapped_off = 4 /\ dec_body_off = 36 /\
  enc_nonce_prefix_src = 4 /\ enc_nonce_kdf_len = 4 /\ enc_nonce_prefix_len = 4 /\ enc_header_len = 36.
Proof. repeat split; reflexivity. Qed.

Lemma nonce_mix_length h : length (nonce_mix h) = 24%nat.
Proof. apply fapp_length. Qed.
Lemma msg_nonce_length ctx mpub : length (msg_nonce ctx mpub) = 24%nat.
Proof. apply nonce_mix_length. Qed.
Lemma edpub_length s : length (edpub s) = 32%nat.
Proof. apply fapp_length. Qed.

Lemma copy32_long s : (32 <= length s)%nat -> copy32 s = firstn 32 s.
Proof.
  intros H. unfold copy32. rewrite firstn_length_le by exact H. cbn. apply app_nil_r.
Qed.

(* decrypt with the offsets resolved: no partial operation is left *)
Definition decrypt_flat (o : orc) (sk ctx ct : sbytes) : outcome sbytes :=
  if (length ct <? 36)%nat then Err E_SHORT else
  let tpub := edpub sk in
  let mpub := unwrap (wrap_key ctx tpub (firstn 4 ct)) (firstn 32 (skipn 4 ct)) in
  if negb (o_valid o mpub) then Err E_POINT else
  match open (dh sk (mont mpub)) (msg_nonce ctx mpub) mpub (skipn 36 ct) with
  | None => Err E_AEAD
  | Some pt =>
      match s2dec (o_s2raw o) pt with
      | None => Err E_S2
      | Some m =>
          let epub := edpub (msg_seed ctx m tpub) in
          if negb (o_valid o epub) then Err E_POINT else
          if sbytes_eqb (mont epub) (mont mpub) then Ok m else Err E_MISMATCH
      end
  end.

Lemma decrypt_eq o sk ctx ct : decrypt o sk ctx ct = decrypt_flat o sk ctx ct.
Proof.
  unfold decrypt, decrypt_flat.
  change dec_min_len with 36. change dec_prefix_len with 4. change dec_wrapped_off with 4.
  change dec_body_off with 36.
  destruct (Z.of_nat (length ct) <? 36) eqn:E.
  - replace (length ct <? 36)%nat with true by (symmetry; apply Nat.ltb_lt; lia). reflexivity.
  - replace (length ct <? 36)%nat with false by (symmetry; apply Nat.ltb_ge; lia).
    assert (HL : (36 <= length ct)%nat) by lia.
    unfold slice_to, slice_from.
    replace (Z.of_nat (length ct) <? 4) with false by lia.
    replace (Z.of_nat (length ct) <? 36) with false by lia.
    cbn [orb Z.ltb Z.compare obind]. unfold nat_of.
    change (Z.to_nat 4) with 4%nat. change (Z.to_nat 36) with 36%nat.
    rewrite copy32_long by (rewrite skipn_length; lia). reflexivity.
Qed.

(* C12 totality: no input makes decryption panic *)
Lemma decrypt_total o sk ctx ct : decrypt o sk ctx ct <> Panic.
Proof.
  rewrite decrypt_eq. unfold decrypt_flat.
  destruct (length ct <? 36)%nat; [discriminate|]. cbv zeta.
  destruct (negb (o_valid o _)); [discriminate|].
  destruct (open _ _ _ _); [|discriminate].
  destruct (s2dec _ _); [|discriminate].
  destruct (negb (o_valid o _)); [discriminate|].
  destruct (sbytes_eqb _ _); discriminate.
Qed.

Lemma decrypt_short o sk ctx ct : (length ct < 36)%nat -> decrypt o sk ctx ct = Err E_SHORT.
Proof.
  intros H. rewrite decrypt_eq. unfold decrypt_flat.
  replace (length ct <? 36)%nat with true by (symmetry; apply Nat.ltb_lt; lia). reflexivity.
Qed.

Lemma encrypt_total o tpub ctx m : encrypt o tpub ctx m <> Panic.
Proof.
  unfold encrypt. destruct (negb (Nat.eqb (length tpub) 32)); [discriminate|].
  destruct (negb (o_valid o tpub)); discriminate.
Qed.

(* ---- the honest ciphertext ---- *)
Definition enc_ct (o : orc) (tpub ctx msg : sbytes) : sbytes :=
  let seed := msg_seed ctx msg tpub in
  let mpub := edpub seed in
  let nonce := msg_nonce ctx mpub in
  firstn 4 nonce ++ wrap (wrap_key ctx tpub (firstn 4 nonce)) mpub
    ++ seal (dh seed (mont tpub)) nonce mpub (s2enc (o_s2len o msg) msg).

Definition honest_orc (o : orc) : Prop := forall s, o_valid o (edpub s) = true.

Lemma encrypt_ok_inv o tpub ctx m c :
  encrypt o tpub ctx m = Ok c -> length tpub = 32%nat /\ o_valid o tpub = true /\ c = enc_ct o tpub ctx m.
Proof.
  unfold encrypt. destruct (Nat.eqb (length tpub) 32) eqn:E; cbn [negb]; [|discriminate].
  destruct (o_valid o tpub) eqn:V; cbn [negb]; [|discriminate].
  intros H. inversion H. apply Nat.eqb_eq in E. repeat split; auto.
Qed.

Lemma encrypt_valid o tpub ctx m :
  length tpub = 32%nat -> o_valid o tpub = true -> encrypt o tpub ctx m = Ok (enc_ct o tpub ctx m).
Proof.
  intros HL HV. unfold encrypt. rewrite HL, HV. reflexivity.
Qed.

Lemma encrypt_honest o sk ctx m :
  honest_orc o -> encrypt o (edpub sk) ctx m = Ok (enc_ct o (edpub sk) ctx m).
Proof. intros H. apply encrypt_valid; [apply edpub_length|apply H]. Qed.

Lemma wrap_length k mpub : length mpub = 32%nat -> length (wrap k mpub) = 32%nat.
Proof. intros H. unfold wrap. rewrite app_length, aes_enc_length, skipn_length. lia. Qed.

Lemma unwrap_wrap k mpub : length mpub = 32%nat -> unwrap k (wrap k mpub) = mpub.
Proof.
  intros H. unfold unwrap, wrap.
  rewrite firstn_app_exact by apply aes_enc_length.
  rewrite skipn_app_exact by apply aes_enc_length.
  rewrite aes_dec_enc by (apply firstn_length_le; lia). apply firstn_skipn.
Qed.

(* the three regions of the honest ciphertext *)
Section Regions.
  Variables (o : orc) (tpub ctx msg : sbytes).
  Let seed := msg_seed ctx msg tpub.
  Let mpub := edpub seed.
  Let nonce := msg_nonce ctx mpub.
  Let c := enc_ct o tpub ctx msg.

  Lemma n4_length : length (firstn 4 nonce) = 4%nat.
  Proof. apply firstn_length_le. unfold nonce. rewrite msg_nonce_length. lia. Qed.

  Lemma enc_ct_p4 : firstn 4 c = firstn 4 nonce.
  Proof. unfold c, enc_ct. fold seed mpub nonce. apply firstn_app_exact, n4_length. Qed.

  Lemma enc_ct_tail : skipn 4 c = wrap (wrap_key ctx tpub (firstn 4 nonce)) mpub
      ++ seal (dh seed (mont tpub)) nonce mpub (s2enc (o_s2len o msg) msg).
  Proof. unfold c, enc_ct. fold seed mpub nonce. apply skipn_app_exact, n4_length. Qed.

  Lemma enc_ct_w : firstn 32 (skipn 4 c) = wrap (wrap_key ctx tpub (firstn 4 nonce)) mpub.
  Proof. rewrite enc_ct_tail. apply firstn_app_exact, wrap_length, edpub_length. Qed.

  Lemma enc_ct_body : skipn 36 c = seal (dh seed (mont tpub)) nonce mpub (s2enc (o_s2len o msg) msg).
  Proof.
    replace (skipn 36 c) with (skipn 32 (skipn 4 c)).
    - rewrite enc_ct_tail. apply skipn_app_exact, wrap_length, edpub_length.
    - unfold c. generalize (enc_ct o tpub ctx msg). intros l.
      do 4 (destruct l as [|? l]; [reflexivity|]). reflexivity.
  Qed.

  Lemma enc_ct_length : (36 <= length c)%nat.
  Proof.
    unfold c, enc_ct. fold seed mpub nonce. rewrite !app_length, n4_length.
    rewrite wrap_length by apply edpub_length. lia.
  Qed.
End Regions.

(* ---- round trip, wrong key, wrong context ---- *)
Lemma skipn_add {A} a b (l : list A) : skipn a (skipn b l) = skipn (b + a) l.
Proof.
  revert l; induction b as [|b IH]; intros l; [reflexivity|].
  destruct l as [|x l]; [destruct a; reflexivity|]. cbn [skipn Nat.add]. apply IH.
Qed.

Lemma list1_inj {A} (a a' : A) : [a] = [a'] -> a = a'.
Proof. intros H; injection H; auto. Qed.
Lemma list2_inj {A} (a b a' b' : A) : [a; b] = [a'; b'] -> a = a' /\ b = b'.
Proof. intros H; injection H; auto. Qed.
Lemma list4_inj {A} (a b c d a' b' c' d' : A) :
  [a; b; c; d] = [a'; b'; c'; d'] -> a = a' /\ b = b' /\ c = c' /\ d = d'.
Proof. intros H; injection H; auto. Qed.
Lemma F_pack_inj f l i f' l' i' : F f (map pack l) i = F f' (map pack l') i' -> f = f' /\ l = l'.
Proof. intros H. injection H as Hf Hm _. split; [exact Hf|apply map_pack_inj, Hm]. Qed.
Lemma aes_enc_inj k b k' b' : aes_enc k b = aes_enc k' b' -> k = k' /\ b = b'.
Proof.
  unfold aes_enc. intros H. apply fapp_inj in H; [|lia]. destruct H as (_ & _ & H). apply list2_inj, H.
Qed.

Lemma fapp_in_head f n l : (0 < n)%nat -> In (F f (map pack l) 0%nat) (fapp f n l).
Proof. intros H. destruct n as [|n]; [lia|]. rewrite fapp_head. left. reflexivity. Qed.

Lemma edpub_inj a b : edpub a = edpub b -> a = b.
Proof.
  unfold edpub. intros H. apply fapp_inj in H; [|lia]. destruct H as (_ & _ & H). apply list1_inj, H.
Qed.

Lemma wrap_key_inj ctx tpub p4 ctx' tpub' p4' :
  length tpub = length tpub' -> wrap_key ctx tpub p4 = wrap_key ctx' tpub' p4' ->
  ctx = ctx' /\ tpub = tpub' /\ p4 = p4'.
Proof.
  unfold wrap_key, kdf. intros HL H. apply fapp_inj in H; [|lia]. destruct H as (_ & _ & H).
  injection H as H1 H2. apply app_eq_len in H2; [tauto|exact HL].
Qed.

Lemma arg1_mont pt : arg1 FN_MONT 32 (mont pt) = Some pt.
Proof. unfold mont. apply arg1_fapp. lia. Qed.

Lemma arg1_edpub_aesd l r : arg1 FN_EDPUB 32 (fapp FN_AESD 16 l ++ r) = None.
Proof.
  destruct (arg1 FN_EDPUB 32 (fapp FN_AESD 16 l ++ r)) as [x|] eqn:E; [|reflexivity].
  apply arg1_spec in E. apply (f_equal (firstn 16)) in E.
  rewrite firstn_app_exact in E by apply fapp_length. rewrite firstn_fapp in E by lia.
  apply fapp_inj in E; [|lia]. destruct E as (E & _). discriminate.
Qed.

Lemma decrypt_encrypt o sk ctx m :
  honest_orc o -> decrypt o sk ctx (enc_ct o (edpub sk) ctx m) = Ok m.
Proof.
  intros HO. rewrite decrypt_eq. unfold decrypt_flat.
  pose proof (enc_ct_length o (edpub sk) ctx m) as HL.
  replace (length _ <? 36)%nat with false by (symmetry; apply Nat.ltb_ge; exact HL).
  cbv zeta. rewrite enc_ct_p4, enc_ct_w, enc_ct_body.
  rewrite unwrap_wrap by apply edpub_length.
  rewrite HO. cbn [negb].
  rewrite (dh_comm sk). rewrite open_seal. rewrite s2dec_enc. rewrite HO. cbn [negb].
  replace (sbytes_eqb _ _) with true; [reflexivity|]. symmetry; apply sbytes_eqb_spec; reflexivity.
Qed.

Lemma decrypt_wrong o sk sk' ctx ctx' m :
  sk' <> sk \/ ctx' <> ctx -> exists k, decrypt o sk' ctx' (enc_ct o (edpub sk) ctx m) = Err k.
Proof.
  intros HN. rewrite decrypt_eq. unfold decrypt_flat.
  pose proof (enc_ct_length o (edpub sk) ctx m) as HL.
  replace (length _ <? 36)%nat with false by (symmetry; apply Nat.ltb_ge; exact HL).
  cbv zeta. rewrite enc_ct_p4, enc_ct_w, enc_ct_body.
  set (seed := msg_seed ctx m (edpub sk)). set (mpub := edpub seed). set (nonce := msg_nonce ctx mpub).
  set (akey := wrap_key ctx (edpub sk) (firstn 4 nonce)).
  set (akey' := wrap_key ctx' (edpub sk') (firstn 4 nonce)).
  assert (HK : akey' <> akey).
  { intros E. apply wrap_key_inj in E; [|rewrite !edpub_length; reflexivity].
    destruct E as (E1 & E2 & _). apply edpub_inj in E2. destruct HN; congruence. }
  unfold unwrap, wrap. rewrite firstn_app_exact, skipn_app_exact by apply aes_enc_length.
  destruct (aes_dec_cases akey' (aes_enc akey (firstn 16 mpub))) as [(b & Hb & _ & _)|Hs].
  { apply aes_enc_inj in Hb. destruct Hb as [Hb _]. congruence. }
  rewrite Hs. set (mpub' := fapp FN_AESD 16 _ ++ skipn 16 mpub).
  destruct (o_valid o mpub'); cbn [negb]; [|eexists; reflexivity].
  destruct (open _ _ _ _) eqn:EO; [|eexists; reflexivity].
  exfalso. apply open_spec in EO. apply seal_inj in EO. destruct EO as (EK & _).
  symmetry in EK. revert EK. apply dh_raw_ne_honest. right. exists mpub'. split; [apply arg1_mont|].
  apply arg1_edpub_aesd.
Qed.

(* the interface used by the envelope model and by WebRTC signalling *)
Lemma dec_enc_spec o : honest_orc o -> forall sk sk' ctx ctx' m c,
  encrypt o (edpub sk) ctx m = Ok c ->
  (sk' = sk -> ctx' = ctx -> decrypt o sk' ctx' c = Ok m) /\
  (sk' <> sk \/ ctx' <> ctx -> exists k, decrypt o sk' ctx' c = Err k).
Proof.
  intros HO sk sk' ctx ctx' m c HE. apply encrypt_ok_inv in HE. destruct HE as (_ & _ & ->). split.
  - intros -> ->. apply decrypt_encrypt, HO.
  - apply decrypt_wrong.
Qed.

(* ---- any modification of the ciphertext is rejected ---- *)
(* c' is built from arbitrary bytes and from bytes of c: every AEAD / AES
   output byte in c' is a byte of c (the attacker holds no key) *)
Definition keyed_from (c c' : sbytes) : Prop :=
  forall x, In x c' -> is_keyed_out x = true -> In x c.

Lemma keyed_in_enc_ct o tpub ctx m x :
  In x (enc_ct o tpub ctx m) -> is_keyed_out x = true ->
  let seed := msg_seed ctx m tpub in let mpub := edpub seed in let nonce := msg_nonce ctx mpub in
  In x (aes_enc (wrap_key ctx tpub (firstn 4 nonce)) (firstn 16 mpub)) \/
  In x (seal (dh seed (mont tpub)) nonce mpub (s2enc (o_s2len o m) m)).
Proof.
  intros HI HK. cbv zeta. unfold enc_ct in HI. cbv zeta in HI.
  apply in_app_or in HI. destruct HI as [HI|HI].
  { exfalso. apply in_firstn in HI. unfold msg_nonce, nonce_mix in HI. apply in_fapp in HI.
    destruct HI as (i & ->). discriminate. }
  apply in_app_or in HI. destruct HI as [HI|HI]; [|right; exact HI].
  unfold wrap in HI. apply in_app_or in HI. destruct HI as [HI|HI]; [left; exact HI|].
  exfalso. apply in_skipn in HI. apply in_fapp in HI. destruct HI as (i & ->). discriminate.
Qed.

Lemma mutation_rejected o tpub ctx m c' sk' ctx' m' :
  length tpub = 32%nat ->
  keyed_from (enc_ct o tpub ctx m) c' ->
  decrypt o sk' ctx' c' = Ok m' ->
  c' = enc_ct o tpub ctx m.
Proof.
  intros HT HF HD. rewrite decrypt_eq in HD. unfold decrypt_flat in HD.
  destruct (length c' <? 36)%nat eqn:EL; [discriminate|]. apply Nat.ltb_ge in EL.
  cbv zeta in HD.
  set (w' := firstn 32 (skipn 4 c')) in *.
  set (akey' := wrap_key ctx' (edpub sk') (firstn 4 c')) in *.
  set (mpub' := unwrap akey' w') in *.
  destruct (o_valid o mpub'); cbn [negb] in HD; [|discriminate].
  destruct (open _ _ _ _) as [pt'|] eqn:EO; [|discriminate]. clear HD.
  apply open_spec in EO.
  set (seed := msg_seed ctx m tpub) in *. set (mpub := edpub seed) in *.
  set (nonce := msg_nonce ctx mpub) in *.
  set (akey := wrap_key ctx tpub (firstn 4 nonce)) in *.
  set (c := enc_ct o tpub ctx m) in *.
  assert (Hw' : length w' = 32%nat).
  { unfold w'. apply firstn_length_le. rewrite skipn_length. lia. }
  (* the body is the honest body *)
  assert (HB : dh sk' (mont mpub') = dh seed (mont tpub) /\ msg_nonce ctx' mpub' = nonce /\ mpub' = mpub /\
               pt' = s2enc (o_s2len o m) m).
  { assert (HI : In (F FN_SEAL (map pack [dh sk' (mont mpub'); msg_nonce ctx' mpub'; mpub'; pt']) 0%nat) c').
    { apply (in_skipn 36). rewrite EO. apply fapp_in_head. unfold tag_len. lia. }
    pose proof (HF _ HI eq_refl) as HI2. clear HI.
    pose proof (keyed_in_enc_ct _ _ _ _ _ HI2 eq_refl) as HI. cbv zeta in HI. destruct HI as [HI|HI];
      apply in_fapp in HI; destruct HI as (i & HI); apply F_pack_inj in HI; destruct HI as [Hf HA];
      [discriminate Hf|].
    apply list4_inj in HA. exact HA. }
  destruct HB as (HK & HN & HM & HP).
  assert (EB : skipn 36 c' = skipn 36 c).
  { rewrite EO. unfold c. rewrite enc_ct_body. fold seed mpub nonce. rewrite HK, HN, HM, HP. reflexivity. }
  (* the wrapped key is the honest wrapped key *)
  unfold mpub', unwrap in HM.
  rewrite <- (firstn_skipn 16 mpub) in HM.
  apply app_eq_len in HM;
    [|rewrite aes_dec_length; symmetry; apply firstn_length_le; unfold mpub; rewrite edpub_length; lia].
  destruct HM as [HM1 HM2].
  assert (HW : akey' = akey /\ firstn 16 w' = aes_enc akey (firstn 16 mpub)).
  { destruct (aes_dec_cases akey' (firstn 16 w')) as [(b & Hc & Hb & Hd)|Hs].
    - rewrite Hd in HM1. subst b.
      assert (HI : In (F FN_AES (map pack [akey'; firstn 16 mpub]) 0%nat) c').
      { apply (in_skipn 4), (in_firstn 32). fold w'. apply (in_firstn 16). rewrite Hc.
        apply fapp_in_head. lia. }
      pose proof (HF _ HI eq_refl) as HI2. clear HI.
      pose proof (keyed_in_enc_ct _ _ _ _ _ HI2 eq_refl) as HI. cbv zeta in HI. destruct HI as [HI|HI];
        apply in_fapp in HI; destruct HI as (i & HI); apply F_pack_inj in HI; destruct HI as [Hf HA];
        [|discriminate Hf].
      apply list2_inj in HA. destruct HA as [HA _]. fold seed mpub nonce akey in HA.
      split; [exact HA|]. rewrite Hc, HA. reflexivity.
    - exfalso. rewrite Hs in HM1. unfold mpub, edpub in HM1. rewrite firstn_fapp in HM1 by lia.
      apply fapp_inj in HM1; [|lia]. destruct HM1 as (HM1 & _). discriminate. }
  destruct HW as [HA HW].
  unfold akey', akey in HA. apply wrap_key_inj in HA; [|rewrite edpub_length; auto].
  destruct HA as (_ & _ & HP4).
  (* assemble *)
  assert (EC : c = firstn 4 nonce ++ (aes_enc akey (firstn 16 mpub) ++ skipn 16 mpub) ++ skipn 36 c).
  { unfold c at 2. rewrite enc_ct_body. reflexivity. }
  rewrite EC, <- EB.
  rewrite <- (firstn_skipn 4 c') at 1. rewrite HP4. f_equal.
  rewrite <- (firstn_skipn 32 (skipn 4 c')) at 1. fold w'. rewrite skipn_add. change (4 + 32)%nat with 36%nat.
  f_equal. rewrite <- (firstn_skipn 16 w') at 1. rewrite HW, HM2. reflexivity.
Qed.

Lemma mutation_err o tpub ctx m c' sk' ctx' :
  length tpub = 32%nat ->
  keyed_from (enc_ct o tpub ctx m) c' ->
  c' <> enc_ct o tpub ctx m ->
  exists k, decrypt o sk' ctx' c' = Err k.
Proof.
  intros HT HF HN. destruct (decrypt o sk' ctx' c') as [m'| k |] eqn:E.
  - exfalso. apply HN. eapply mutation_rejected; eauto.
  - eauto.
  - exfalso. eapply decrypt_total; eauto.
Qed.

(* ---- WebRTC signalling (C26) ---- *)
Section SignalProofs.
  Context {signal : Type} (marshal : signal -> bytes) (unmarshal : bytes -> option signal).
  Hypothesis codec : forall s, unmarshal (marshal s) = Some s.

  Lemma signal_roundtrip o sk s :
    honest_orc o ->
    exists c, encode_signal marshal o s (edpub sk) = Ok c /\ decode_signal unmarshal o c sk = Ok s.
  Proof.
    intros HO. unfold encode_signal, decode_signal, decode_with_ctx. rewrite encrypt_honest by exact HO.
    eexists. split; [reflexivity|]. rewrite decrypt_encrypt by exact HO. cbn [obind].
    rewrite unlift_lift, codec. reflexivity.
  Qed.

  Lemma signal_private o sk sk' ctx' s c :
    honest_orc o ->
    encode_signal marshal o s (edpub sk) = Ok c ->
    sk' <> sk \/ ctx' <> lift webrtc_ctx ->
    exists k, decode_with_ctx unmarshal o ctx' c sk' = Err k.
  Proof.
    intros HO HE HN. unfold encode_signal in HE.
    destruct (dec_enc_spec o HO sk sk' (lift webrtc_ctx) ctx' _ c HE) as [_ H].
    destruct (H HN) as [k Hk]. exists k. unfold decode_with_ctx. rewrite Hk. reflexivity.
  Qed.

  Lemma signal_decode_total o ctx msg sk : decode_with_ctx unmarshal o ctx msg sk <> Panic.
  Proof.
    unfold decode_with_ctx. destruct (decrypt o sk ctx msg) as [m|k|] eqn:E; cbn [obind].
    - destruct (unlift m); [destruct (unmarshal _)|]; discriminate.
    - discriminate.
    - exfalso. eapply decrypt_total; eauto.
  Qed.

  (* a signal payload that was modified in transit is rejected *)
  Lemma signal_tamper o pub s c c' sk' ctx' :
    encode_signal marshal o s pub = Ok c -> keyed_from c c' -> c' <> c ->
    exists k, decode_with_ctx unmarshal o ctx' c' sk' = Err k.
  Proof.
    intros HE HF HN. unfold encode_signal in HE. apply encrypt_ok_inv in HE. destruct HE as (HL & _ & ->).
    destruct (mutation_err o pub (lift webrtc_ctx) (lift (marshal s)) c' sk' ctx' HL HF HN) as [k Hk].
    exists k. unfold decode_with_ctx. rewrite Hk. reflexivity.
  Qed.
End SignalProofs.

(* whichever of the four comparison operators the source uses *)
Definition known_op (op : bytes) : bool :=
  bytes_eqb op [60] || bytes_eqb op [62] || bytes_eqb op [60; 61] || bytes_eqb op [62; 61].

Lemma cmp_holds_exclusive op c :
  known_op op = true -> c <> Eq -> xorb (cmp_holds op c) (cmp_holds op (CompOpp c)) = true.
Proof.
  unfold known_op, cmp_holds. intros H HC.
  destruct (bytes_eqb op [60]); [destruct c; cbn; congruence|].
  destruct (bytes_eqb op [62]); [destruct c; cbn; congruence|].
  destruct (bytes_eqb op [60; 61]); [destruct c; cbn; congruence|].
  destruct (bytes_eqb op [62; 61]); [destruct c; cbn; congruence|discriminate].
Qed.

Lemma is_offerer_exclusive a b : a <> b -> xorb (is_offerer a b) (is_offerer b a) = true.
Proof.
  intros H. unfold is_offerer. rewrite (lex_cmp_antisym a b).
  apply cmp_holds_exclusive; [reflexivity|]. intros E. apply lex_cmp_eq in E. contradiction.
Qed.

Lemma offerer_exclusive a b :
  a <> b -> xorb (tracker_offerer a b) (tracker_offerer b a) = true.
Proof.
  intros H. unfold tracker_offerer. destruct args_local_first.
  - apply is_offerer_exclusive, H.
  - apply is_offerer_exclusive. congruence.
Qed.

Lemma link_only_signalled offerer p r :
  p <> [] -> link_accepted offerer p r = true -> r = p.
Proof.
  intros HP. unfold link_accepted.
  change webrtc_listen_peer_arg with tracker_peer_expr. change webrtc_dial_peer_arg with tracker_peer_expr.
  replace (if offerer then tracker_peer_expr else tracker_peer_expr) with tracker_peer_expr by (destruct offerer; reflexivity).
  unfold sess_expected. rewrite bytes_eqb_refl. unfold quic_accepts.
  destruct p as [|x p]; [contradiction|]. intros H. apply bytes_eqb_spec in H. auto.
Qed.

(* ---- roles in the negotiation loop ---- *)
Lemma nstep_offerer_out failed e x :
  In x (snd (nstep true failed e)) -> x = TxOffer \/ x = Fail.
Proof.
  destruct e as [|k ok|ok|ok|]; cbn [nstep]; destruct failed; cbn; try tauto.
  - destruct k, ok; cbn; intuition.
  - destruct ok; cbn; intuition.
  - destruct ok; cbn; intuition.
Qed.

Lemma nstep_answerer_out failed e x :
  In x (snd (nstep false failed e)) -> x = TxAnswer \/ x = TxRequestOffer \/ x = Fail.
Proof.
  destruct e as [|k ok|ok|ok|]; cbn [nstep]; destruct failed; cbn; try tauto.
  - intuition.
  - destruct k, ok; cbn; intuition.
  - destruct ok; cbn; intuition.
  - intuition.
Qed.

Lemma nrun_offerer evs : forall failed x, In x (nrun true failed evs) -> x = TxOffer \/ x = Fail.
Proof.
  induction evs as [|e r IH]; intros failed x; cbn [nrun]; [intros []|].
  destruct (nstep true failed e) as [f' out] eqn:E. intros H. apply in_app_or in H. destruct H as [H|H].
  - apply (nstep_offerer_out failed e). rewrite E. exact H.
  - eapply IH, H.
Qed.

Lemma nrun_answerer evs : forall failed x,
  In x (nrun false failed evs) -> x = TxAnswer \/ x = TxRequestOffer \/ x = Fail.
Proof.
  induction evs as [|e r IH]; intros failed x; cbn [nrun]; [intros []|].
  destruct (nstep false failed e) as [f' out] eqn:E. intros H. apply in_app_or in H. destruct H as [H|H].
  - apply (nstep_answerer_out failed e). rewrite E. exact H.
  - eapply IH, H.
Qed.

Lemma offerer_never_answers evs failed :
  ~ In TxAnswer (nrun true failed evs) /\ ~ In TxRequestOffer (nrun true failed evs).
Proof. split; intros H; apply nrun_offerer in H; destruct H; discriminate. Qed.

Lemma answerer_never_offers evs failed : ~ In TxOffer (nrun false failed evs).
Proof. intros H; apply nrun_answerer in H; destruct H as [H|[H|H]]; discriminate. Qed.

(* nothing is emitted after a failure until the tracker is restarted *)
Lemma failed_silent offerer evs :
  ~ In Restart evs -> nrun offerer true evs = [].
Proof.
  induction evs as [|e r IH]; intros H; [reflexivity|]. cbn [nrun].
  destruct e; try (cbn [nstep app]; apply IH; intros C; apply H; right; exact C).
  exfalso. apply H. left. reflexivity.
Qed.

(* of two distinct peers running the loop against each other at most one side
   ever transmits an offer, and at most one side ever transmits an answer *)
Lemma one_offer_side a b evs1 evs2 f1 f2 :
  a <> b ->
  ~ (In TxOffer (nrun (tracker_offerer a b) f1 evs1) /\ In TxOffer (nrun (tracker_offerer b a) f2 evs2)) /\
  ~ (In TxAnswer (nrun (tracker_offerer a b) f1 evs1) /\ In TxAnswer (nrun (tracker_offerer b a) f2 evs2)).
Proof.
  intros H. pose proof (offerer_exclusive a b H) as HX.
  destruct (tracker_offerer a b), (tracker_offerer b a); try discriminate HX; split; intros [H1 H2].
  - eapply answerer_never_offers; eauto.
  - eapply (proj1 (offerer_never_answers _ _)); eauto.
  - eapply answerer_never_offers; eauto.
  - eapply (proj1 (offerer_never_answers _ _)); eauto.
Qed.
