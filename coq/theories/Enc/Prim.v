(* Symbolic primitives used by peer.EncryptToEd25519 / DecryptWithEd25519 and
   by the envelope code: definitions only (facts are in PrimFacts.v).

   Byte strings are lists of symbolic bytes (Lib/Sym.v).  A primitive with
   several string arguments is the free function symbol applied to the list of
   its *packed* arguments ([pack a] is one symbol standing for the whole string
   a), so that equality of outputs is equality of function symbol and of every
   argument (Dolev-Yao freeness).  The invertible primitives (AEAD, AES block,
   s2) have a computable inverse that recognises its own constructor. *)
From Bifrost Require Import Lib.Base Lib.Sym.

(* Packing.  A string that is an argument of a function symbol is stored in
   run-length compressed form: consecutive output bytes i, i+1, ... of one
   application are one symbol [run_sym (F f args i) n] (n+1 bytes).  Only the
   evaluation cost depends on this (a string of n output bytes would otherwise
   carry n copies of its arguments at every nesting level); [expand] is a left
   inverse of [compress], so [pack] is injective. *)
Definition FN_RUN : nat := 18.
Definition run_sym (x : sym) (n : nat) : sym := F FN_RUN [x] n.

Definition expand1 (x : sym) : sbytes :=
  match x with
  | F fn [y] n =>
      if Nat.eqb fn FN_RUN
      then match y with F f args i => map (F f args) (seq i (S n)) | B _ => [x] end
      else [x]
  | _ => [x]
  end.
Definition expand (l : sbytes) : sbytes := flat_map expand1 l.

(* if y = run_sym (F f args (S i)) n then Some n *)
Definition same_run (f : nat) (args : list sym) (i : nat) (y : sym) : option nat :=
  match y with
  | F fn [F f' args' i'] n =>
      if Nat.eqb fn FN_RUN && Nat.eqb f f' && Nat.eqb i' (S i) && list_eqb sym_eqb args args'
      then Some n else None
  | _ => None
  end.

Fixpoint compress (l : sbytes) : sbytes :=
  match l with
  | [] => []
  | B z :: l' => B z :: compress l'
  | F f args i :: l' =>
      match compress l' with
      | y :: r => match same_run f args i y with
                  | Some n => run_sym (F f args i) (S n) :: r
                  | None => run_sym (F f args i) 0 :: y :: r
                  end
      | [] => [run_sym (F f args i) 0]
      end
  end.

Definition pack (a : sbytes) : sym := F 0%nat (compress a) 0%nat.
Definition unpack (x : sym) : option sbytes :=
  match x with F 0%nat a 0%nat => Some (expand a) | _ => None end.
Fixpoint unpack_all (l : list sym) : option (list sbytes) :=
  match l with
  | [] => Some []
  | x :: l' => match unpack x, unpack_all l' with
               | Some a, Some r => Some (a :: r)
               | _, _ => None
               end
  end.

(* n output bytes of the free function fn applied to the strings args *)
Definition fapp (fn n : nat) (args : list sbytes) : sbytes := fout fn n (map pack args).

(* recognise a complete, non-empty output of some free function *)
Definition unfapp (s : sbytes) : option (nat * list sbytes) :=
  match s with
  | F f args 0%nat :: _ =>
      match unpack_all args with
      | Some l => if sbytes_eqb s (fapp f (length s) l) then Some (f, l) else None
      | None => None
      end
  | _ => None
  end.

(* function symbols (0 is pack) *)
Definition FN_KDF : nat := 1.      (* blake3 derive-key mode: [context string; input] -> 32 *)
Definition FN_EDPUB : nat := 2.    (* ed25519 public key of a seed: [seed] -> 32 *)
Definition FN_MONT : nat := 3.     (* edwards -> montgomery conversion: [ed point] -> 32 *)
Definition FN_DH : nat := 4.       (* X25519 shared secret of two key pairs: [lo; hi] -> 32 *)
Definition FN_DHRAW : nat := 5.    (* X25519 of a scalar with a point of unknown discrete log *)
Definition FN_AES : nat := 6.      (* AES-256 block encryption: [key; block] -> 16 *)
Definition FN_AESD : nat := 7.     (* AES-256 block decryption of a non-ciphertext *)
Definition FN_SEAL : nat := 8.     (* XChaCha20-Poly1305 seal: [key; nonce; ad; pt] -> |pt|+16 *)
Definition FN_S2 : nat := 9.       (* s2 compression: [msg] -> oracle length *)
Definition FN_MUT : nat := 10.     (* a byte after a bit flip: [orig; mask] *)
Definition FN_HASH : nat := 11.    (* blake3 hash: [data] -> 32 *)
Definition FN_XOR : nat := 12.     (* the nonce mixing (byte-wise xor of two parts of a hash) *)
Definition FN_ATOM : nat := 13.    (* opaque test atoms (keys, large messages) *)
Definition FN_HEX : nat := 14.     (* hex digits of a symbolic byte *)
Definition FN_SHARE : nat := 15.   (* Shamir share value: [secret; poly randomness; degree; id] -> 32 *)
Definition FN_GARB : nat := 16.    (* interpolation of points that are not t+1 shares of one polynomial *)
Definition FN_INNER : nat := 17.   (* EnvelopeGrantInner wire form *)

Definition tag_len : nat := 16.

Definition kdf (ctxstr data : sbytes) : sbytes := fapp FN_KDF 32 [ctxstr; data].
Definition hash32 (data : sbytes) : sbytes := fapp FN_HASH 32 [data].
Definition edpub (seed : sbytes) : sbytes := fapp FN_EDPUB 32 [seed].
Definition mont (pt : sbytes) : sbytes := fapp FN_MONT 32 [pt].

(* if s = fapp fn n [x] then Some x *)
Definition arg1 (fn n : nat) (s : sbytes) : option sbytes :=
  match unfapp s with
  | Some (f, [x]) => if Nat.eqb f fn && Nat.eqb (length s) n then Some x else None
  | _ => None
  end.

(* total order on symbolic strings, only used to normalise the unordered pair
   of the two key pairs of a Diffie-Hellman exchange *)
Section ListCmp.
  Context {A : Type} (cmp : A -> A -> comparison).
  Fixpoint list_cmp (a b : list A) : comparison :=
    match a, b with
    | [], [] => Eq
    | [], _ :: _ => Lt
    | _ :: _, [] => Gt
    | x :: a', y :: b' => match cmp x y with Eq => list_cmp a' b' | c => c end
    end.
End ListCmp.

Fixpoint sym_cmp (a b : sym) : comparison :=
  match a, b with
  | B x, B y => Z.compare x y
  | B _, F _ _ _ => Lt
  | F _ _ _, B _ => Gt
  | F f xs i, F g ys j =>
      match Nat.compare f g with
      | Eq => match Nat.compare i j with
              | Eq => list_cmp sym_cmp xs ys
              | c => c
              end
      | c => c
      end
  end.
Definition sbytes_cmp : sbytes -> sbytes -> comparison := list_cmp sym_cmp.

Definition upair (a b : sbytes) : sbytes * sbytes :=
  match sbytes_cmp a b with Gt => (b, a) | _ => (a, b) end.

(* X25519(scalar of key pair [seed], point).  When the point is the
   montgomery form of the ed25519 public key of a key pair [s2] the result is
   the shared secret of the unordered pair {seed, s2} (the DH equation);
   otherwise a free function of both. *)
Definition dh (seed pt : sbytes) : sbytes :=
  match arg1 FN_MONT 32 pt with
  | Some blk =>
      match arg1 FN_EDPUB 32 blk with
      | Some s2 => let (a, b) := upair seed s2 in fapp FN_DH 32 [a; b]
      | None => fapp FN_DHRAW 32 [seed; pt]
      end
  | None => fapp FN_DHRAW 32 [seed; pt]
  end.

(* AEAD *)
Definition seal (key nonce ad pt : sbytes) : sbytes :=
  fapp FN_SEAL (length pt + tag_len) [key; nonce; ad; pt].
Definition open (key nonce ad ct : sbytes) : option sbytes :=
  match unfapp ct with
  | Some (f, [k; n; a; p]) =>
      if Nat.eqb f FN_SEAL && sbytes_eqb k key && sbytes_eqb n nonce && sbytes_eqb a ad
         && Nat.eqb (length ct) (length p + tag_len)
      then Some p else None
  | _ => None
  end.

(* one AES block (16 bytes) as a keyed permutation *)
Definition aes_enc (key blk : sbytes) : sbytes := fapp FN_AES 16 [key; blk].
Definition aes_dec (key c : sbytes) : sbytes :=
  match unfapp c with
  | Some (f, [k; b]) =>
      if Nat.eqb f FN_AES && sbytes_eqb k key && Nat.eqb (length b) 16 && Nat.eqb (length c) 16
      then b else fapp FN_AESD 16 [key; c]
  | _ => fapp FN_AESD 16 [key; c]
  end.

(* s2: compression is an injective constructor with an oracle output length
   (at least one byte: the length header); decoding anything else is an oracle *)
Definition s2enc (n : nat) (m : sbytes) : sbytes := fapp FN_S2 (S n) [m].
Definition s2dec (raw : sbytes -> option sbytes) (c : sbytes) : option sbytes :=
  match unfapp c with
  | Some (f, [m]) => if Nat.eqb f FN_S2 then Some m else raw c
  | _ => raw c
  end.

(* a byte after xor with a non-zero mask: some other byte *)
Definition mut_byte (x : sym) (d : Z) : sym := F FN_MUT [x; B d] 0%nat.

Definition unlift1 (x : sym) : option Z := match x with B z => Some z | _ => None end.
Fixpoint unlift (s : sbytes) : option bytes :=
  match s with
  | [] => Some []
  | x :: s' => match unlift1 x, unlift s' with
               | Some z, Some r => Some (z :: r)
               | _, _ => None
               end
  end.

(* outputs of the two primitives an attacker cannot compute without the key *)
Definition is_keyed_out (x : sym) : bool :=
  match x with
  | F f _ _ => Nat.eqb f FN_SEAL || Nat.eqb f FN_AES
  | B _ => false
  end.
